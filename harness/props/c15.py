"""C15 — Column profiles report exact counts, extremes and frequencies.

A case is a small typed frame (`kinds`, `rows`, optional `cuts`) or a generated large one (`gen`).
The frame is profiled through `DataFrame.profile`; every column's profile is
  (a) judged by the property's oracle, recomputing every statistic from the raw column,
  (b) compared with Model/Profile.lean run on the same column (hash function supplied as a table
      observed from the implementation itself: h(v) = the sketch of the one-row column [v]),
  (c) and the oracle is also run on the model's own output (a rejection there is a harness bug).
For every cut the two batch profiles are added with `TableProfile.__add__` and compared with the
profile of the whole frame (count, missing, minimum, maximum).

A *sequence* case (`appends`, optional `other`) uses ONE DataFrame object several times: profile, append
rows, profile again (and, with `other`, the profile of a second frame taken in between); every profile is
judged against the rows the frame holds at that moment.  Columns holding values whose sketch hashes collide
come from corpus/C15/collisions.json (found once by tools/c15_find_collisions.py, re-verified against the
implementation's own hash on every run).
"""
import datetime
import decimal
import itertools
import re
import json
import os
import warnings
from fractions import Fraction

from .. import core as hcore
from .. import wire
from ..core import InfraError, shrink

KINDS = ["INTEGER", "DOUBLE", "DECIMAL", "VARCHAR", "BOOLEAN", "DATE", "TIMESTAMP", "ARRAY", "STRUCT", "UNTYPED"]
NUMERIC = ("INTEGER", "DOUBLE", "DECIMAL")
TEMPORAL = ("DATE", "TIMESTAMP")
MKIND = {"INTEGER": "numeric", "DOUBLE": "numeric", "DECIMAL": "numeric", "VARCHAR": "text", "BOOLEAN": "boolean",
         "DATE": "temporal", "TIMESTAMP": "temporal", "ARRAY": "counts", "STRUCT": "counts", "UNTYPED": "counts"}
EPOCH = datetime.datetime(1970, 1, 1)
TWO53 = 2**53
BINS_SAFE = 2**46 - 1  # above this a narrow value range defeats numpy.histogram's 50 bins (open finding K05)
INT64_MIN = -(2**63)

_CONST = None


_PINNED_MODEL = None


def model_is_pinned():
    """True when every expression the model is assembled from equals the pinned one, i.e. the model that runs
    is the one the theorems were proved about.  Only then is a model output that violates the property a
    harness bug; otherwise the model follows a changed source and the difference is a correspondence finding."""
    global _PINNED_MODEL
    if _PINNED_MODEL is None:
        from ..extractors import c15_expr, c15_table, c15_time

        g = json.load(open(os.path.join(hcore.LEAN, "OrsoVerif", "Generated", "generated.json")))
        want = dict(c15_expr.pinned_json(), **c15_time.pinned_json())
        want.update(c15_table.pinned_json())
        _PINNED_MODEL = all(g.get(k) == v for k, v in want.items())
    return _PINNED_MODEL


def consts():
    """Sizes used by the oracle: read from the implementation at run time (they are also extracted into Lean)."""
    global _CONST
    if _CONST is None:
        gj = os.path.join(hcore.LEAN, "OrsoVerif", "Generated", "generated.json")
        g = json.load(open(gj))
        _CONST = {
            "kvm": int(g.get("profiler.KVM_SIZE", 32)),
            "mfv": int(g.get("profiler.MOST_FREQUENT_VALUE_SIZE", 32)),
            "batch": int(g.get("profiler.batch_size", 25000)),
            "prefix": int(g.get("profiler.SIXTY_FOUR_BYTES", 64)),
        }
    return _CONST


# --------------------------------------------------------------------------- case -> python values


DATE_MIN, DATE_MAX = -719162, 2932896  # 0001-01-01 .. 9999-12-31 as days since 1970-01-01
TS_MIN, TS_MAX = -62135596800, 253402300799  # 0001-01-01T00:00:00 .. 9999-12-31T23:59:59 as epoch seconds
NS_MIN_S, NS_MAX_S = -9223372036, 9223372035  # whole seconds every sub-second instant of which fits 64-bit nanoseconds
EDGE = 2 * 86400  # tz-aware cells keep this far from year 1 / 9999 (their local fields must stay inside)

# how a temporal cell is stored in the frame; "mixed" / "mixed_p" = a different form per row (MIXED order, by row
# number): "mixed" starts with a plain Python object, "mixed_p" with a pandas Timestamp (DateProfiler picks its
# path by the first cell)
FORMS = {
    "TIMESTAMP": ["naive", "aware", "numpy", "numpy_ms", "numpy_us", "numpy_ns", "pandas", "pandas_us", "pandas_ns",
                  "pandas_tz", "mixed", "mixed_p", "aware_lmt"],
    "DATE": ["date", "numpy", "numpy_h", "numpy_s", "pandas", "datetime", "mixed", "mixed_p"],
}
# "aware_lmt": tz-aware datetimes whose UTC offset has a seconds part (local mean times: Paris +0:09:21 before
# 1911, New York -4:56:02 before 1883).  numpy drops the seconds of the offset (open finding K07), so the form has
# its own stream and is not drawn at random.
RANDOM_FORMS = {k: [f for f in v if f != "aware_lmt"] for k, v in FORMS.items()}
LMT_OFFSETS = (561, -17762)


def lmt_offset(sec):
    """The UTC offset (seconds) an "aware_lmt" cell of `sec` epoch seconds is given, None near the ends of the range."""
    if not (TS_MIN + EDGE <= sec <= TS_MAX - EDGE):
        return None
    return LMT_OFFSETS[sec % 2]
MIXED = {
    "TIMESTAMP": {"mixed": ["naive", "pandas", "numpy_us", "aware", "pandas_ns", "numpy", "pandas_tz", "numpy_ms", "pandas_us", "numpy_ns"],
                  "mixed_p": ["pandas", "naive", "pandas_us", "numpy", "aware", "pandas_ns", "numpy_ns", "pandas_tz", "numpy_ms", "numpy_us"]},
    "DATE": {"mixed": ["date", "pandas", "numpy", "datetime", "numpy_h", "numpy_s"],
             "mixed_p": ["pandas", "date", "numpy_s", "datetime", "numpy", "numpy_h"]},
}
# Arrow column types a column can arrive through (DataFrame.from_arrow); date64 is typed TIMESTAMP by orso; an int64
# column with nulls arrives as floats (through pandas), which is why INTEGER cells stay below 2**53 here
ARROW = {
    "INTEGER": ["int64", "int32"],
    "DOUBLE": ["double"],
    "VARCHAR": ["string", "large_string"],
    "BOOLEAN": ["bool"],
    "DATE": ["date32"],
    "TIMESTAMP": ["date64", "timestamp[s]", "timestamp[ms]", "timestamp[us]", "timestamp[ns]", "timestamp[s,UTC]",
                  "timestamp[us,UTC]", "timestamp[ms,+05:30]", "timestamp[ns,UTC]"],
}


# how the frame is bound to its column names: absent = a RelationSchema of FlatColumns (typed, or untyped = no type);
# "names" = DataFrame(rows=..., schema=[names]) and "dicts" = DataFrame([{name: value}, ...]): the schema is a plain list
# of names, every column is of the untyped kind, and TableProfile.from_dataframe makes its own FlatColumns per morsel
SCHEMAS = ("names", "dicts")


def ts_parts(v):
    """(whole epoch seconds, microseconds 0..999999) of a TIMESTAMP cell: an int, or [seconds, microseconds]."""
    return (v[0], v[1]) if isinstance(v, list) else (v, 0)


def _form_at(kind, form, i):
    if form in ("mixed", "mixed_p"):
        order = MIXED[kind][form]
        return order[i % len(order)]
    return form


def pyvalue(kind, v, form=None, i=0):
    """The Python object stored in the frame for JSON cell v (row i) of a column of `kind` (temporal kinds: in the
    cell form asked for — date / datetime / tz-aware datetime / numpy.datetime64 of a unit / pandas.Timestamp of a
    unit; a form that cannot hold the value (64-bit nanoseconds outside 1677..2262, a local time outside year
    1..9999) falls back to the next coarser one for that cell)."""
    if v is None:
        return None
    if kind == "DECIMAL":
        return decimal.Decimal(v)
    if kind == "DATE":
        form = _form_at(kind, form, i)
        if form in ("numpy", "numpy_h", "numpy_s"):
            import numpy

            unit, mul = {"numpy": ("D", 1), "numpy_h": ("h", 24), "numpy_s": ("s", 86400)}[form]
            return numpy.datetime64(v * mul, unit)
        if form == "pandas":
            import pandas

            return pandas.Timestamp(v * 86400, unit="s")
        if form == "datetime":
            return EPOCH + datetime.timedelta(days=v)
        return (EPOCH + datetime.timedelta(days=v)).date()
    if kind == "TIMESTAMP":
        form = _form_at(kind, form, i)
        sec, us = ts_parts(v)
        inner = TS_MIN + EDGE <= sec <= TS_MAX - EDGE
        if form in ("numpy_ns", "pandas_ns") and not (NS_MIN_S <= sec <= NS_MAX_S):
            form = form[:-2] + "us"
        if form in ("aware", "aware_lmt") and not inner:
            form = "naive"
        if form == "aware_lmt":
            tz = datetime.timezone(datetime.timedelta(seconds=lmt_offset(sec)))
            return (EPOCH.replace(tzinfo=datetime.timezone.utc) + datetime.timedelta(seconds=sec, microseconds=us)).astimezone(tz)
        if form == "pandas_tz" and not inner:
            form = "pandas_us"
        if form == "aware":
            tz = datetime.timezone(datetime.timedelta(hours=(sec % 7) - 3, minutes=30 * (sec % 2)))
            return (EPOCH.replace(tzinfo=datetime.timezone.utc) + datetime.timedelta(seconds=sec, microseconds=us)).astimezone(tz)
        if form in ("numpy", "numpy_ms", "numpy_us", "numpy_ns"):
            import numpy

            if form == "numpy":
                return numpy.datetime64(sec, "s")
            if form == "numpy_ms":
                return numpy.datetime64(sec * 1000 + us // 1000, "ms")
            if form == "numpy_us":
                return numpy.datetime64(sec * 10**6 + us, "us")
            return numpy.datetime64((sec * 10**6 + us) * 1000, "ns")
        if form in ("pandas", "pandas_us", "pandas_ns", "pandas_tz"):
            import pandas

            if form == "pandas":
                return pandas.Timestamp(sec, unit="s")
            if form == "pandas_us":
                return pandas.Timestamp(sec * 10**6 + us, unit="us")
            if form == "pandas_ns":
                return pandas.Timestamp((sec * 10**6 + us) * 1000)
            # fixed whole-minute offsets: numpy drops the seconds of a UTC offset (historical local mean times)
            tz = datetime.timezone(datetime.timedelta(hours=5, minutes=30) if sec % 2 else datetime.timedelta(hours=-4))
            return pandas.Timestamp(sec * 10**6 + us, unit="us", tz="UTC").tz_convert(tz)
        return EPOCH + datetime.timedelta(seconds=sec, microseconds=us)
    if kind == "ARRAY":
        return list(v)
    return v


def cell_forms(case):
    c = case.get("cells")
    return c if c else [None] * len(case["kinds"])


def exact(kind, v):
    """The mathematical value of a non-null cell: Fraction (numbers), int epoch seconds (instants),
    the first 64 characters (text; the profiler's documented window), else None."""
    if kind == "INTEGER":
        return Fraction(v)
    if kind == "DOUBLE":
        return Fraction(v)
    if kind == "DECIMAL":
        return Fraction(decimal.Decimal(v))
    if kind == "DATE":
        return v * 86400
    if kind == "TIMESTAMP":
        return ts_parts(v)[0]  # whole seconds elapsed: the sub-second part is floored away (also before 1970)
    if kind == "VARCHAR":
        return v[: consts()["prefix"]]
    return None


def trunc(q):
    """Truncation toward zero of a Fraction / int."""
    if isinstance(q, int):
        return q
    n, d = q.numerator, q.denominator
    return n // d if n >= 0 else -((-n) // d)


def expand(case):
    """rows of a case (generated cases carry a pattern instead of rows)."""
    if "gen" in case:
        g = case["gen"]
        pat = g["pattern"]
        m = min(g.get("nulls_first", 0), g["n"])  # the first m rows are all null
        runs = g.get("runs", 1)  # every pattern row is repeated `runs` times in a row (blocks of one value per morsel)
        tail = g.get("tail") or []  # the last len(tail) of the n rows, spelled out (a last morsel with values of its own)
        body = max(g["n"] - len(tail), 0)
        m = min(m, body)
        return ([[None] * len(pat[0]) for _ in range(m)] + [list(pat[(i // runs) % len(pat)]) for i in range(body - m)]
                + [list(r) for r in tail[:g["n"]]])
    if "appends" in case:  # a sequence case: everything the frame ever holds
        return list(case["rows"]) + [r for chunk in case["appends"] for r in chunk]
    return case["rows"]


def valid_cell(kind, v):
    if v is None:
        return True
    if kind == "INTEGER":
        return isinstance(v, int) and not isinstance(v, bool)
    if kind == "DOUBLE":
        return isinstance(v, float)
    if kind == "DECIMAL":
        if not isinstance(v, str):
            return False
        try:
            return decimal.Decimal(v).is_finite()
        except Exception:
            return False
    if kind == "VARCHAR":
        if not isinstance(v, str):
            return False
        try:
            v.encode("utf-8")
            return True
        except UnicodeError:
            return False
    if kind == "BOOLEAN":
        return isinstance(v, bool)
    if kind == "DATE":
        return isinstance(v, int) and not isinstance(v, bool) and DATE_MIN <= v <= DATE_MAX
    if kind == "TIMESTAMP":
        if isinstance(v, list):
            return (len(v) == 2 and all(isinstance(x, int) and not isinstance(x, bool) for x in v)
                    and TS_MIN <= v[0] <= TS_MAX and 1 <= v[1] <= 999999)
        return isinstance(v, int) and not isinstance(v, bool) and TS_MIN <= v <= TS_MAX
    if kind == "ARRAY":
        return isinstance(v, list)
    if kind == "STRUCT":
        return isinstance(v, dict)
    if kind == "UNTYPED":
        return isinstance(v, (int, str, bool, list)) or (isinstance(v, float) and v == v)
    return False


def valid_case(c):
    try:
        kinds = c["kinds"]
        if not isinstance(kinds, list) or not kinds or any(k not in KINDS for k in kinds):
            return False
        if "gen" in c:
            g = c["gen"]
            if not isinstance(g.get("n"), int) or g["n"] < 1 or g["n"] > 200000 or not g.get("pattern"):
                return False
            if "nulls_first" in g and (not isinstance(g["nulls_first"], int) or isinstance(g["nulls_first"], bool) or g["nulls_first"] < 0):
                return False
            if "runs" in g and (not isinstance(g["runs"], int) or isinstance(g["runs"], bool) or g["runs"] < 1):
                return False
            if "tail" in g and (not isinstance(g["tail"], list) or len(g["tail"]) > min(g["n"], 2000)):
                return False
            rows = g["pattern"] + g.get("tail", [])
        else:
            rows = c["rows"]
        if not isinstance(rows, list) or not rows:
            return False
        for r in rows:
            if not isinstance(r, list) or len(r) != len(kinds):
                return False
            if not all(valid_cell(k, v) for k, v in zip(kinds, r)):
                return False
        if "cells" in c:
            if not isinstance(c["cells"], list) or len(c["cells"]) != len(kinds) or "arrow" in c:
                return False
            for j, (k, f) in enumerate(zip(kinds, c["cells"])):
                if f is None:
                    continue
                if f not in FORMS.get(k, []):
                    return False
        if "arrow" in c:
            # the frame arrives through DataFrame.from_arrow: one Arrow type per column
            if not isinstance(c["arrow"], list) or len(c["arrow"]) != len(kinds) or "appends" in c or "other" in c:
                return False
            for j, (k, t) in enumerate(zip(kinds, c["arrow"])):
                if t not in ARROW.get(k, []):
                    return False
                if not all(arrow_holds(t, r[j]) for r in rows):
                    return False
        if "lazy" in c and not isinstance(c["lazy"], bool):
            return False
        if "schema" in c:
            if c["schema"] not in SCHEMAS or any(k != "UNTYPED" for k in kinds) or "cells" in c or "arrow" in c:
                return False
        if "entry" in c and (c["entry"] not in ENTRIES or "appends" in c):
            return False
        if "appends" in c or "other" in c:
            # one frame object used several times: plain cell forms only, no cuts, no generated frame
            if "appends" not in c or "gen" in c or "cells" in c or c.get("cuts"):
                return False
            if not isinstance(c["appends"], list) or not c["appends"]:
                return False
            extra = [r for chunk in c["appends"] if isinstance(chunk, list) for r in chunk]
            if any(not isinstance(chunk, list) for chunk in c["appends"]):
                return False
            if "other" in c:
                if not isinstance(c["other"], list) or not c["other"]:
                    return False
                extra = extra + c["other"]
            for r in extra:
                if not isinstance(r, list) or len(r) != len(kinds):
                    return False
                if not all(valid_cell(k, v) for k, v in zip(kinds, r)):
                    return False
        if "twin" in c:
            # a second frame holding the same rows under other column names (and optionally bound to its schema another way)
            t = c["twin"]
            if not isinstance(t, dict) or "arrow" in c or "appends" in c or "gen" in c:
                return False
            nm = t.get("names")
            if (not isinstance(nm, list) or len(nm) != len(kinds) or len(set(nm)) != len(nm)
                    or any(not isinstance(x, str) or not x for x in nm)):
                return False
            if "schema" in t and (t["schema"] not in SCHEMAS or any(k != "UNTYPED" for k in kinds) or "cells" in c):
                return False
        n = c["gen"]["n"] if "gen" in c else len(rows)
        for k in c.get("cuts", []):
            # 0 and n are ways of cutting too: one batch has no rows (not through Arrow: a table without rows)
            # (nor for a dictionary-built frame: DataFrame([]) has no first dictionary to take the names from)
            lo, hi = (1, n - 1) if c.get("arrow") or c.get("schema") == "dicts" else (0, n)
            if not isinstance(k, int) or isinstance(k, bool) or not (lo <= k <= hi):
                return False
        return True
    except Exception:
        return False


# --------------------------------------------------------------------------- implementation adaptor


def arrow_unit(t):
    """(unit, tz) of an ARROW type name; unit None for date32 / date64."""
    if not t.startswith("timestamp["):
        return None, None
    inner = t[len("timestamp["):-1].split(",")
    return inner[0], (inner[1] if len(inner) > 1 else None)


def arrow_holds(t, v):
    """Can a column of Arrow type t hold JSON cell v exactly enough (same whole second)?"""
    if v is None or t == "date32":
        return True
    if t in ("int64", "int32"):
        return isinstance(v, int) and not isinstance(v, bool) and abs(v) < (2**31 if t == "int32" else TWO53)
    if t == "double":
        return isinstance(v, float)
    if t in ("string", "large_string"):
        return isinstance(v, str)
    if t == "bool":
        return isinstance(v, bool)
    sec, us = ts_parts(v)
    if t == "date64":
        return sec % 86400 == 0 and us == 0
    unit, tz = arrow_unit(t)
    if unit == "ns" and not (NS_MIN_S <= sec <= NS_MAX_S):
        return False
    if tz is not None and not (TS_MIN + EDGE <= sec <= TS_MAX - EDGE):
        return False  # the cell is shown in local time, which must stay inside year 1..9999
    return True


def _arrow_array(t, col):
    import pyarrow

    if t == "date32":
        return pyarrow.array(col, type=pyarrow.int32()).cast(pyarrow.date32())
    plain = {"int64": pyarrow.int64, "int32": pyarrow.int32, "double": pyarrow.float64, "string": pyarrow.string,
             "large_string": pyarrow.large_string, "bool": pyarrow.bool_}
    if t in plain:
        return pyarrow.array(col, type=plain[t]())
    parts = [None if v is None else ts_parts(v) for v in col]
    if t == "date64":
        return pyarrow.array([None if q is None else q[0] * 1000 for q in parts], type=pyarrow.int64()).cast(pyarrow.date64())
    unit, tz = arrow_unit(t)
    scale = {"s": lambda q: q[0], "ms": lambda q: q[0] * 1000 + q[1] // 1000, "us": lambda q: q[0] * 10**6 + q[1],
             "ns": lambda q: (q[0] * 10**6 + q[1]) * 1000}[unit]
    ints = pyarrow.array([None if q is None else scale(q) for q in parts], type=pyarrow.int64())
    return ints.cast(pyarrow.timestamp(unit)).cast(pyarrow.timestamp(unit, tz=tz)) if tz else ints.cast(pyarrow.timestamp(unit))


def _objects(kinds, rows, cells=None):
    """The Python objects a plain (non-Arrow) frame is built from, row by row."""
    cells = cells or [None] * len(kinds)
    return [tuple(pyvalue(k, v, f, i) for k, v, f in zip(kinds, r, cells)) for i, r in enumerate(rows)]


def _frame(kinds, rows, cells=None, lazy=False, arrow=None, schema=None, names=None):
    from orso import DataFrame
    from orso.schema import FlatColumn, RelationSchema
    from orso.types import OrsoTypes

    if arrow:
        import pyarrow

        # built from integers in the column's own unit (no calendar on the way in); cells arrive as orso makes them
        table = pyarrow.table({"c%d" % j: _arrow_array(t, [r[j] for r in rows]) for j, t in enumerate(arrow)})
        return DataFrame.from_arrow(table)
    names = names or ["c%d" % j for j in range(len(kinds))]  # by position
    if schema == "names":  # the schema is a plain list of names
        data = _objects(kinds, rows, cells)
        return DataFrame(rows=(r for r in data) if lazy else data, schema=list(names))
    if schema == "dicts":  # built from dictionaries; a key left out of a later dictionary is a null
        data = _objects(kinds, rows, cells)
        dicts = [{names[j]: v for j, v in enumerate(r) if i == 0 or i % 2 == 0 or v is not None} for i, r in enumerate(data)]
        return DataFrame((d for d in dicts) if lazy else dicts)
    cols = []
    for j, k in enumerate(kinds):
        if k == "UNTYPED":
            cols.append(FlatColumn(name=names[j]))
        else:
            cols.append(FlatColumn(name=names[j], type=getattr(OrsoTypes, k)))
    schema = RelationSchema(name="t", columns=cols)
    data = _objects(kinds, rows, cells)
    if lazy:  # lazily backed frame: rows come from a generator until something materialises them
        return DataFrame(rows=(r for r in data), schema=schema)
    return DataFrame(rows=data, schema=schema)


def frame_objects(case, rows):
    """The cell objects the profiler is handed for `rows` of a case, column by column (temporal columns only;
    others None).  Arrow frames: read back from a frame built the same way."""
    kinds = case["kinds"]
    if not any(k in TEMPORAL for k in kinds):
        return [None] * len(kinds)
    if case.get("arrow"):
        with warnings.catch_warnings():
            warnings.simplefilter("ignore")
            data = [tuple(r) for r in _frame(kinds, rows, None, False, case["arrow"])]
    else:
        data = _objects(kinds, rows, case.get("cells"))
    return [[r[j] for r in data] if k in TEMPORAL else None for j, k in enumerate(kinds)]


def _py(x):
    """numpy scalars -> Python."""
    if x is None or isinstance(x, (bool, int, float, str)):
        return x
    if hasattr(x, "item"):
        return x.item()
    return x


def _column_dict(p):
    if p is None:
        return {"absent": True}
    d = {
        "count": _py(p.count),
        "missing": _py(p.missing),
        "min": _py(p.minimum),
        "max": _py(p.maximum),
        "order": _py(p.order),
        "transitions": _py(p.transitions),
        "mfv": [[_py(v), _py(c)] for v, c in zip(list(p.most_frequent_values), list(p.most_frequent_counts))],
        "mfv_lens": [len(list(p.most_frequent_values)), len(list(p.most_frequent_counts))],
        "kmv": [_py(h) for h in p.kmv_hashes],
        "hist": [[float(a), int(b)] for a, b in p.histogram],
    }
    try:
        d["card"] = _py(p.estimate_cardinality())
    except Exception as e:  # k-th hash of 0
        d["card"] = "%s" % type(e).__name__
    return d


ENTRIES = ("table_profiler", "from_dataframe")  # the other public ways in, besides the DataFrame.profile property


def profile_of(frame, entry=None):
    """The table profile of a frame through one of the public entry points."""
    if entry == "table_profiler":
        from orso.profiler.profiler import table_profiler

        return table_profiler(frame)
    if entry == "from_dataframe":
        from orso.profiler import TableProfile

        return TableProfile.from_dataframe(frame)
    return frame.profile


def impl_profiles(kinds, rows, cells=None, lazy=False, arrow=None, entry=None, schema=None):
    """Profile a frame through a public entry point. Returns (table profile | None, list of column dicts)."""
    with warnings.catch_warnings():
        warnings.simplefilter("ignore")
        try:
            tp = profile_of(_frame(kinds, rows, cells, lazy, arrow, schema), entry)
        except Exception as e:
            return None, [{"raised": "%s: %s" % (type(e).__name__, str(e)[:120])} for _ in kinds]
        return tp, [_column_dict(tp.column("c%d" % j)) for j in range(len(kinds))]


def entry_names(tp):
    """The names of the entries of a table profile, in order, as its public listing (`to_dicts`) shows them."""
    return [str(d.get("name")) for d in tp.to_dicts()]


def entries_clause(tp, ncols, label=""):
    """A table profile lists every column exactly once (a frame / sum that holds at least one row)."""
    try:
        names = entry_names(tp)
    except Exception as e:
        return ("entries", "%slisting the table profile raised %s: %s" % (label, type(e).__name__, str(e)[:100]), None)
    want = ["c%d" % j for j in range(ncols)]
    if names != want:
        j = next((i for i, (a, b) in enumerate(zip(names, want)) if a != b), min(len(names), len(want)))
        return ("entries", "%sthe table profile lists %d entries %r for the %d column(s) %r" % (label, len(names), names[:8], ncols, want),
                min(j, ncols - 1))
    return None


def snapshot(tp, ncols):
    """Every observable field of every column of a table profile (deep, by value): what must not change when the
    profile is used as an operand of `+` or asked for an estimate."""
    out = {"names": entry_names(tp), "cols": []}
    for j in range(ncols):
        p = tp.column("c%d" % j)
        d = _column_dict(p)
        if p is not None:
            d["name"], d["type"] = str(p.name), str(p.type)
            d["hist_raw"] = repr([tuple(b) for b in p.histogram])
            d["mfv_raw"] = repr((list(p.most_frequent_values), list(p.most_frequent_counts)))
        out["cols"].append(d)
    return out


def snapshot_diff(before, after):
    """(column, field, before, after) of the first difference between two snapshots, or None."""
    if before["names"] != after["names"]:
        return (None, "entries", before["names"], after["names"])
    for j, (a, b) in enumerate(zip(before["cols"], after["cols"])):
        for f in a:
            if a.get(f) != b.get(f):
                return (j, f, a.get(f), b.get(f))
        for f in b:
            if f not in a:
                return (j, f, None, b.get(f))
    return None


def hist_mass(d):
    return sum(c for _, c in d["hist"])


def ask_estimates(tp, ncols):
    """Call every estimate_* helper of every column profile (the answers are outside the property; the profile must
    not change by being asked).  Returns how many calls answered."""
    answered = 0
    for j in range(ncols):
        p = tp.column("c%d" % j)
        if p is None:
            continue
        points = [x for x in (p.minimum, p.maximum) if isinstance(x, int)]
        if len(points) == 2:
            points.append((points[0] + points[1]) // 2)
        points = points or [0]
        for call in (lambda: p.estimate_cardinality(),) + tuple(
                (lambda f=f, x=x: getattr(p, f)(x)) for f in ("estimate_values_at", "estimate_values_below", "estimate_values_above") for x in points):
            try:
                with warnings.catch_warnings():
                    warnings.simplefilter("ignore")
                    call()
                answered += 1
            except Exception:
                pass
    return answered


def impl_column(kind, vals):
    """Profile a single column; (dict). Used to localise a failure of a multi-column frame."""
    return impl_profiles([kind], [[v] for v in vals])[1][0]


_HASH = {}


def impl_hash(kind, v):
    """The sketch's hash of one value, observed from the implementation: kmv_hashes of the column [v]."""
    key = (kind, json.dumps(v, sort_keys=True))
    if key not in _HASH:
        d = impl_column(kind, [v])
        if "raised" in d or d.get("absent") or len(d["kmv"]) != 1 or not isinstance(d["kmv"][0], int) or d["kmv"][0] < 0:
            _HASH[key] = None
        else:
            _HASH[key] = d["kmv"][0]
    return _HASH[key]


def core_of(d):
    return [d["count"], d["missing"], d["min"], d["max"]]


# --------------------------------------------------------------------------- hash-colliding values

_COLLISIONS = None
_LIVE = {}


def load_collisions():
    """corpus/C15/collisions.json: per kind, groups of cells whose sketch hashes were equal when
    tools/c15_find_collisions.py ran.  Nothing here is trusted: see live_groups."""
    global _COLLISIONS
    if _COLLISIONS is None:
        path = os.path.join(hcore.VERIF, "corpus", "C15", "collisions.json")
        out = {}
        try:
            fam = json.load(open(path))["families"]
            for k, f in fam.items():
                if k in KINDS:
                    out[k] = [g["cells"] for g in f["groups"] if all(valid_cell(k, v) for v in g["cells"])]
        except (OSError, ValueError, KeyError):
            out = {}
        _COLLISIONS = out
    return _COLLISIONS


def live_groups(kind):
    """The stored groups whose members still share one hash, as observed from the implementation now."""
    if kind not in _LIVE:
        live = []
        for cells in load_collisions().get(kind, []):
            hs = [impl_hash(kind, v) for v in cells]
            if hs[0] is not None and all(h == hs[0] for h in hs):
                live.append(cells)
        _LIVE[kind] = live
    return _LIVE[kind]


def colliding_in(kind, nn):
    """True when two different values of the column have the same sketch hash (observed)."""
    seen = {}
    for v in nn:
        key = str(exact(kind, v)) if kind in NUMERIC + TEMPORAL else v
        if key in seen:
            continue
        seen[key] = impl_hash(kind, v)
    hs = [h for h in seen.values() if h is not None]
    return len(hs) != len(set(hs))


# --------------------------------------------------------------------------- oracle


def parse_label(kind, label):
    """A listed most-frequent value back in the value space of `exact`; raises ValueError if it is not one."""
    if kind in NUMERIC:
        if isinstance(label, Fraction):
            return label
        if isinstance(label, bool):
            raise ValueError("not a number")
        if isinstance(label, (int, float)):
            return Fraction(label)
        if not isinstance(label, str):
            raise ValueError("not a number")
        return Fraction(decimal.Decimal(label.strip()))
    if kind in TEMPORAL:
        if isinstance(label, int) and not isinstance(label, bool):
            return label
        q = Fraction(decimal.Decimal(str(label).strip()))
        if q.denominator != 1:
            raise ValueError("not whole seconds")
        return int(q)
    if not isinstance(label, str):
        raise ValueError("not text")
    return label


def expected_order(vals):
    """(order, transitions) of a sequence of comparable values, from the definition."""
    pairs = list(zip(vals, vals[1:]))
    transitions = sum(1 for a, b in pairs if a != b)
    up = any(a < b for a, b in pairs)
    down = any(a > b for a, b in pairs)
    order = None if not up and not down else 1 if not down else -1 if not up else 0
    return order, transitions


def oracle_column(kind, vals, d, model_side=False, skip=()):
    """The property's per-column clauses on one profile dict. Returns (what, text) or None (the first clause
    that fails; `skip` names clauses not to judge: mfv / cardinality / order / transitions)."""
    if "raised" in d:
        return ("raised", "profiling raised " + d["raised"])
    if d.get("absent"):
        return ("absent", "the column has no profile")
    n = len(vals)
    nn = [v for v in vals if v is not None]
    if d["count"] != n:
        return ("count", "count is %r for %d rows" % (d["count"], n))
    if d["missing"] != n - len(nn):
        return ("missing", "missing is %r for %d nulls" % (d["missing"], n - len(nn)))
    if kind not in NUMERIC + TEMPORAL + ("VARCHAR",):
        return None
    if non_finite(kind, nn):
        return None  # "true extremes" and exact labels are not defined for NaN / infinities
    ex = [exact(kind, v) for v in nn]
    if kind in NUMERIC + TEMPORAL:
        want = (trunc(min(ex)), trunc(max(ex))) if ex else (None, None)
        if d["min"] != want[0] or isinstance(d["min"], bool) or (d["min"] is not None and not isinstance(d["min"], int)):
            return ("extremes", "minimum is %r, the true minimum is %r" % (d["min"], want[0]))
        if d["max"] != want[1] or isinstance(d["max"], bool) or (d["max"] is not None and not isinstance(d["max"], int)):
            return ("extremes", "maximum is %r, the true maximum is %r" % (d["max"], want[1]))
        if not model_side:
            mass = sum(c for _, c in d["hist"])
            if mass != len(nn):
                return ("histogram", "histogram counts sum to %r for %d non-null values" % (mass, len(nn)))
    # most frequent values
    counts = {}
    for e in ex:
        counts[e] = counts.get(e, 0) + 1

    def mfv_clause():
        if not model_side and d["mfv_lens"][0] != d["mfv_lens"][1]:
            return ("mfv", "%d listed values but %d listed counts" % tuple(d["mfv_lens"]))
        listed = {}
        for label, c in d["mfv"]:
            try:
                v = parse_label(kind, label)
            except (ValueError, ArithmeticError):
                return ("mfv", "listed value %r is not a value of the column" % (label,))
            if v in listed:
                return ("mfv", "value %r is listed twice" % (label,))
            if v not in counts:
                return ("mfv", "listed value %r does not occur in the column" % (label,))
            if counts[v] != c or isinstance(c, bool):
                return ("mfv", "value %r is listed with count %r, it occurs %d times" % (label, c, counts[v]))
            listed[v] = c
        if ex and not listed:
            return ("mfv", "no most-frequent value is listed for %d non-null values" % len(ex))
        if listed:
            low = min(listed.values())
            for v, c in counts.items():
                if v not in listed and c > low:
                    return ("mfv", "unlisted value %r occurs %d times, more often than a listed one (%d)" % (_show(v), c, low))
        return None

    if "mfv" not in skip:
        f = mfv_clause()
        if f is not None:
            return f
    # distinct count (whole values for text: the sketch sees them unshortened)
    distinct = len(set(nn)) if kind == "VARCHAR" else len(counts)
    if "cardinality" not in skip and distinct < consts()["kvm"] and d["card"] != distinct:
        return ("cardinality", "distinct-count estimate is %r for %d distinct values (below the sketch size)" % (d["card"], distinct))
    if kind in NUMERIC + ("VARCHAR",):
        o, t = expected_order(ex)
        if "order" not in skip and (d["order"] != o or isinstance(d["order"], bool)):
            return ("order", "order indicator is %r, the data says %r" % (d["order"], o))
        if "transitions" not in skip and d["transitions"] != t:
            return ("transitions", "transitions is %r, the data has %d" % (d["transitions"], t))
    return None


def _show(v):
    return str(v) if isinstance(v, Fraction) else v


def listed_counts_clause(kind, vals, d):
    """What every sum of batch profiles still owes the most-frequent clause (the rest is open finding K06): a value
    the sum LISTS is a value of the concatenation, listed once, with its exact occurrence count there.  The unchanged
    `ColumnProfile.__add__` guarantees it for every grouping of every number of batches (values listed on both sides
    with the counts added; the other side's list only next to a side that holds no values; else nothing)."""
    if kind not in NUMERIC + TEMPORAL + ("VARCHAR",) or d.get("absent") or "raised" in d:
        return None
    nn = [v for v in vals if v is not None]
    if non_finite(kind, nn):
        return None
    counts = {}
    for v in nn:
        e = exact(kind, v)
        counts[e] = counts.get(e, 0) + 1
    if d["mfv_lens"][0] != d["mfv_lens"][1]:
        return "%d listed values but %d listed counts" % tuple(d["mfv_lens"])
    seen = set()
    for label, c in d["mfv"]:
        try:
            v = parse_label(kind, label)
        except (ValueError, ArithmeticError):
            return "listed value %r is not a value of the column" % (label,)
        if v in seen:
            return "value %r is listed twice" % (label,)
        seen.add(v)
        if v not in counts:
            return "listed value %r does not occur in the rows" % (label,)
        if counts[v] != c or isinstance(c, bool):
            return "value %r is listed with count %r, it occurs %d times in the rows" % (label, c, counts[v])
    return None


# --------------------------------------------------------------------------- model


def model_cell(kind, v):
    if v is None:
        return None
    if kind in NUMERIC:
        q = exact(kind, v)
        return [q.numerator, q.denominator]
    if kind in TEMPORAL:
        return exact(kind, v)
    if kind == "VARCHAR":
        return v
    if kind == "BOOLEAN":
        return v
    return True


def describe_cell(obj):
    """The Python object of a temporal cell as the model's DateCell: what the object *is* (its calendar fields and
    UTC offset, or its unit and tick count), not what it was built from.  None when it cannot be described."""
    import numpy

    try:
        import pandas
    except ImportError:  # pragma: no cover
        pandas = None
    if obj is None:
        return None
    if pandas is not None and isinstance(obj, pandas.Timestamp):
        a = obj.asm8  # the UTC instant in the Timestamp's own unit
        unit, step = numpy.datetime_data(a)
        if step != 1:
            return False
        return ["p", unit, int(a.view("i8"))]
    if isinstance(obj, numpy.datetime64):
        unit, step = numpy.datetime_data(obj)
        if step != 1 or unit not in ("W", "D", "h", "m", "s", "ms", "us", "ns"):
            return False
        return ["u", unit, int(obj.view("i8"))]
    if isinstance(obj, datetime.datetime):
        off = obj.utcoffset()
        offmin = 0
        if off is not None:
            if off.microseconds or off.seconds % 60:
                return False  # numpy drops the seconds of an offset; not generated
            offmin = off.days * 1440 + off.seconds // 60
        return ["c", obj.year, obj.month, obj.day, obj.hour, obj.minute, obj.second, obj.microsecond, offmin]
    if isinstance(obj, datetime.date):
        return ["c", obj.year, obj.month, obj.day, 0, 0, 0, 0, 0]
    return False


def model_cells_line(kind, vals, objs):
    """DateProfiler from the cell objects: (line, None) or (None, reason)."""
    desc = [describe_cell(o) for o in objs]
    if any(d is False for d in desc) or len(desc) != len(vals) or any((d is None) != (v is None) for d, v in zip(desc, vals)):
        return None, "a cell object the model has no description for"
    table = _hash_table(kind, vals)
    if table is None:
        return None, "hash not observable"
    return "C15 profilecells " + wire.line(desc, table), None


def model_profile_line(kind, vals):
    """(line, None) or (None, reason) when the hash of some value cannot be observed."""
    mk = MKIND[kind]
    cells = [model_cell(kind, v) for v in vals]
    table = []
    if mk in ("numeric", "temporal", "text"):
        seen = set()
        for v, c in zip(vals, cells):
            if v is None:
                continue
            k = json.dumps(c)
            if k in seen:
                continue
            seen.add(k)
            h = impl_hash(kind, v)
            if h is None:
                return None, "hash of %r not observable" % (v,)
            table.append([c, h])
    return "C15 profile " + wire.line(mk, cells, table), None


def model_dict(kind, out):
    """Model output -> the dict shape of _column_dict (labels already in value space)."""
    core, mfv, kmv, card, order, transitions = out
    conv = (lambda x: Fraction(x[0], x[1])) if kind in NUMERIC else (lambda x: x)
    return {
        "count": core[0], "missing": core[1], "min": core[2], "max": core[3],
        "order": order, "transitions": transitions,
        "mfv": [[conv(v), c] for v, c in mfv], "kmv": kmv, "card": card, "hist": [], "mfv_lens": [len(mfv)] * 2,
    }


def canon_mfv(entries, size):
    """Entries above the cut-off count as a set; at the cut-off only how many (ties there are unordered)."""
    es = [(repr(v), c) for v, c in entries]
    if len(es) < size:
        return ("all", sorted(es))
    low = min(c for _, c in es)
    return ("top", sorted(e for e in es if e[1] > low), low, sum(1 for e in es if e[1] == low))


def compare_column(kind, d, m, core_only=False):
    """Implementation dict vs model dict on the parts the model describes. Returns text or None.
    Above the batch size the implementation's profile is a sum of batch profiles: only the core is compared."""
    if core_of(d) != core_of(m):
        return "count/missing/min/max %r vs model %r" % (core_of(d), core_of(m))
    if core_only:
        return None
    if kind in NUMERIC + TEMPORAL + ("VARCHAR",):
        try:
            dm = [(parse_label(kind, l), c) for l, c in d["mfv"]]
        except (ValueError, ArithmeticError):
            return "unparsable most-frequent label"
        a, b = canon_mfv(dm, consts()["mfv"]), canon_mfv([(v, c) for v, c in m["mfv"]], consts()["mfv"])
        if a != b:
            return "most frequent values %r vs model %r" % (a, b)
        if d["kmv"] != m["kmv"]:
            return "sketch %r vs model %r" % (d["kmv"][:5], m["kmv"][:5])
        if len(m["kmv"]) < consts()["kvm"] and d["card"] != m["card"]:
            return "cardinality %r vs model %r" % (d["card"], m["card"])
    if kind in NUMERIC + ("VARCHAR",):
        if [d["order"], d["transitions"]] != [m["order"], m["transitions"]]:
            return "order/transitions %r vs model %r" % ([d["order"], d["transitions"]], [m["order"], m["transitions"]])
    return None


def _hash_table(kind, vals):
    """[[model cell, observed hash], ...] for the distinct non-null values, or None when one is unobservable."""
    table, seen = [], set()
    for v in vals:
        if v is None:
            continue
        c = model_cell(kind, v)
        k = json.dumps(c)
        if k in seen:
            continue
        seen.add(k)
        h = impl_hash(kind, v)
        if h is None:
            return None
        table.append([c, h])
    return table


def _both_zeros(kind, vals):
    """0.0 and -0.0 in one DOUBLE column: one number with two texts, so the sketch hash and the label are not
    functions of the value — outside the model's value space for sums (single profiles keep the first seen)."""
    if kind != "DOUBLE":
        return False
    z = {str(v) for v in vals if isinstance(v, float) and v == 0}
    return len(z) > 1


def model_sum_line(kind, va, vb):
    """The model's `addProf (profile a) (profile b)` for the two sides of a cut."""
    mk = MKIND[kind]
    if mk == "counts" or _both_zeros(kind, va + vb):
        return None
    table = _hash_table(kind, va + vb) if mk != "boolean" else []
    if table is None:
        return None
    return "C15 sum " + wire.line(mk, [model_cell(kind, v) for v in va], [model_cell(kind, v) for v in vb], table)


def model_batchedfull_line(kind, vals):
    mk = MKIND[kind]
    if mk in ("counts", "boolean") or _both_zeros(kind, vals):
        return None
    table = _hash_table(kind, vals[:2000] if len(set(map(json.dumps, vals[:2000]))) == len(set(map(json.dumps, vals))) else vals)
    if table is None:
        return None
    return "C15 batchedfull " + wire.line(mk, None, [model_cell(kind, v) for v in vals], table)


def compare_sum(kind, d, m, pieces):
    """A sum of batch profiles (TableProfile.__add__ / from_dataframe above the batch size) against the model's
    addProf on every field the model describes.  `pieces`: the columns of the batches (the most-frequent lists
    are compared only when no batch had to cut its list: ties at a cut-off are unordered)."""
    if d.get("absent") or "raised" in d:
        return "the sum has no column profile"
    if core_of(d) != core_of(m):
        return "count/missing/min/max %r vs model %r" % (core_of(d), core_of(m))
    if d["kmv"] != m["kmv"]:
        return "sketch of the sum %r vs model %r" % (d["kmv"][:5], m["kmv"][:5])
    if len(m["kmv"]) < consts()["kvm"] and d["card"] != m["card"]:
        return "cardinality of the sum %r vs model %r" % (d["card"], m["card"])
    if [d["order"], d["transitions"]] != [m["order"], m["transitions"]]:
        return "order/transitions of the sum %r vs model %r" % ([d["order"], d["transitions"]], [m["order"], m["transitions"]])
    cut_somewhere = any(len(set(json.dumps(model_cell(kind, v)) for v in p if v is not None)) > consts()["mfv"] for p in pieces)
    if not cut_somewhere:
        try:
            if kind == "BOOLEAN":
                dm = sorted((str(l), c) for l, c in d["mfv"])
                mm = sorted((str(v), c) for v, c in m["mfv"])
            else:
                dm = sorted((repr(parse_label(kind, l)), c) for l, c in d["mfv"])
                mm = sorted((repr(v), c) for v, c in m["mfv"])
        except (ValueError, ArithmeticError):
            return "unparsable most-frequent label in the sum"
        if dm != mm:
            return "most frequent values of the sum %r vs model %r" % (dm[:6], mm[:6])
    return None


# --------------------------------------------------------------------------- evaluation


def non_finite(kind, vals):
    """DOUBLE columns holding NaN or an infinity: outside the value space of `exact` (open finding)."""
    return kind == "DOUBLE" and any(isinstance(v, float) and (v != v or v in (float("inf"), float("-inf"))) for v in vals)


def _take(frame, kinds, with_table=False):
    """The profile of a frame object as it is now -> list of column dicts (and the table profile)."""
    with warnings.catch_warnings():
        warnings.simplefilter("ignore")
        try:
            tp = frame.profile
        except Exception as e:
            cols = [{"raised": "%s: %s" % (type(e).__name__, str(e)[:120])} for _ in kinds]
            return (cols, None) if with_table else cols
        cols = [_column_dict(tp.column("c%d" % j)) for j in range(len(kinds))]
        return (cols, tp) if with_table else cols


def check_sequence(case):
    """One DataFrame object used several times: profile, append, profile again (optionally the profile of a
    second frame in between).  Every profile must describe the rows its frame holds at that moment."""
    kinds = case["kinds"]
    res = {"cols": None, "adds": [], "failure": None, "views": []}
    lazy = bool(case.get("lazy"))
    df = _frame(kinds, case["rows"], None, lazy, None, case.get("schema"))
    other = _frame(kinds, case["other"], None, False, None, case.get("schema")) if case.get("other") else None
    cur = [list(r) for r in case["rows"]]

    def judge(frame, rows, label):
        cols, tp = _take(frame, kinds, True)
        res["views"].append((label, [list(r) for r in rows], cols))
        if res["cols"] is None:
            res["cols"] = cols
        for j, k in enumerate(kinds):
            f = oracle_column(k, [r[j] for r in rows], cols[j])
            if f is not None:
                res["failure"] = (f[0], "%scolumn %d (%s): %s" % (label, j, k, f[1]), j)
                return False
        if tp is not None and rows:
            f = entries_clause(tp, len(kinds), label)
            if f is not None:
                res["failure"] = f
                return False
        return True

    if not judge(df, cur, ""):
        return res
    for i, chunk in enumerate(case["appends"]):
        if other is not None and not judge(other, case["other"], "second frame, profiled between two uses of the first: "):
            return res
        try:
            for r in chunk:
                df.append({"c%d" % j: pyvalue(k, v) for j, (k, v) in enumerate(zip(kinds, r))})
                cur.append(list(r))
        except Exception as e:
            res["failure"] = ("append-raised", "appending row %r to the profiled frame raised %s: %s" % (r, type(e).__name__, str(e)[:100]), None)
            return res
        label = "use %d of one frame object (profiled, then %d row(s) appended, now %d rows): " % (i + 2, len(chunk), len(cur))
        if not judge(df, cur, label):
            return res
    return res


def check_case(case):
    """Run one case on the implementation. Returns dict(failure=(what, text, col)|None, cols=[...], adds=[...],
    views=[(label, rows, cols)] — every (frame state, profile) pair that was judged)."""
    if "appends" in case:
        return check_sequence(case)
    kinds = case["kinds"]
    rows = expand(case)
    cells = cell_forms(case)
    lazy = bool(case.get("lazy"))
    arrow = case.get("arrow")
    entry = case.get("entry")
    schema = case.get("schema")
    nc = len(kinds)
    tp, cols = impl_profiles(kinds, rows, cells, lazy, arrow, entry, schema)
    res = {"cols": cols, "adds": [], "failure": None, "views": [("", rows, cols)], "checks": {}}
    big = len(rows) > consts()["batch"]
    for j, k in enumerate(kinds):
        vals = [r[j] for r in rows]
        f = oracle_column(k, vals, cols[j])
        # above the batch size a failure of one frequency clause (open finding K06) must not hide the others:
        # judge the remaining clauses of this column, the other columns and the list of entries too
        skip = []
        while f is not None:
            fail = (f[0], "column %d (%s): %s" % (j, k, f[1]), j)
            if res["failure"] is None:
                res["failure"] = fail
            else:
                res.setdefault("more", []).append(fail)
            if not (big and f[0] in ("mfv", "cardinality", "order", "transitions")):
                return res
            skip.append(f[0])
            f = oracle_column(k, vals, cols[j], skip=tuple(skip))
    if res["failure"] is not None:
        f = entries_clause(tp, nc) if tp is not None else None
        if f is not None:
            res.setdefault("more", []).append(f)
        return res
    if tp is not None:
        f = entries_clause(tp, nc)
        if f is not None:
            res["failure"] = f
            return res
        # asking a profile for its estimates must not change it
        before = snapshot(tp, nc)
        res["checks"]["estimates-asked"] = ask_estimates(tp, nc)
        ch = snapshot_diff(before, snapshot(tp, nc))
        if ch is not None:
            res["failure"] = ("profile-changed", "column %s: asking the profile for its estimates (estimate_cardinality / estimate_values_at / "
                              "_below / _above) changed its %s from %r to %r" % (ch[0], ch[1], _short(ch[2]), _short(ch[3])), ch[0])
            return res

    def side(lo, hi):
        return profile_of(_frame(kinds, rows[lo:hi], cells, lazy, arrow, schema), entry)

    def batch_clause(tp_, lo, hi, label):
        """The profile of rows[lo:hi] judged as the profile of that batch (every clause, histogram included)."""
        for j, k in enumerate(kinds):
            d = _column_dict(tp_.column("c%d" % j))
            if d.get("absent") and hi == lo:
                continue
            f = oracle_column(k, [r[j] for r in rows[lo:hi]], d)
            if f is not None:
                return j, f
        return None

    def operands_unchanged(ops, when):
        """ops: [(label, table profile, snapshot before, lo, hi)]. -> failure or None"""
        for label, tp_, before, lo, hi in ops:
            ch = snapshot_diff(before, snapshot(tp_, nc))
            if ch is None:
                continue
            text = "%s changed its operand %s: %s of column %s was %s, is now %s" % (when, label, ch[1], ch[0], _short(ch[2]), _short(ch[3]))
            bc = batch_clause(tp_, lo, hi, label)
            if bc is not None:
                text += "; %s is no longer the profile of its batch (column %d: %s)" % (label, bc[0], bc[1][1])
            return ("operand-changed", text, ch[0])
        return None

    def whole_clause(sum_cols, label, operands=None):
        """count/missing/min/max of a sum = those of the whole column; its histogram holds every non-null value once;
        `operands` (the column dicts of the profiles that were added, per operand): the distinct-count estimate of the sum is
        exact below the sketch size."""
        for j, k in enumerate(kinds):
            d = sum_cols[j]
            if d.get("absent") or core_of(d) != core_of(cols[j]):
                got = None if d.get("absent") else core_of(d)
                return ("additive", "column %d (%s): %s has count/missing/min/max %r, the profile of the whole column has %r"
                        % (j, k, label, got, core_of(cols[j])), j)
        for j, k in enumerate(kinds):
            d = sum_cols[j]
            nn = sum(1 for r in rows if r[j] is not None)
            if k in NUMERIC + TEMPORAL and not non_finite(k, [r[j] for r in rows if r[j] is not None]) and hist_mass(d) != nn:
                return ("sum-histogram", "column %d (%s): the histogram counts of %s sum to %r for %d non-null values"
                        % (j, k, label, hist_mass(d), nn), j)
        for j, k in enumerate(kinds):
            t = listed_counts_clause(k, [r[j] for r in rows], sum_cols[j])
            if t is not None:
                return ("sum-mfv", "column %d (%s): most-frequent list of %s: %s" % (j, k, label, t), j)
        res["checks"]["sum-listed-counts"] = res["checks"].get("sum-listed-counts", 0) + 1
        # the distinct-count estimate of the sum, below the sketch size.  Judged where the operands' own sketches say that
        # the sum has what it needs: every operand holds one hash per distinct value of its batch (its own estimate is
        # exact) and together they hold exactly as many different hashes as the column has distinct values — no two values
        # share a hash (open finding K06) and no value has two texts (1.0 / 1.00, one instant in two cell forms).
        for j, k in enumerate(kinds):
            d = sum_cols[j]
            if operands is None or k not in NUMERIC + TEMPORAL + ("VARCHAR",) or d.get("absent") or "raised" in d:
                continue
            nn = [r[j] for r in rows if r[j] is not None]
            if not nn or non_finite(k, nn):
                continue
            distinct = len(set(nn)) if k == "VARCHAR" else len({exact(k, v) for v in nn})
            if distinct >= consts()["kvm"]:
                continue
            union = set()
            usable = True
            for op in operands:
                o = op[j]
                if o.get("absent") or "raised" in o:
                    continue
                if len(o["kmv"]) != len(set(o["kmv"])) or not all(isinstance(h, int) and not isinstance(h, bool) for h in o["kmv"]):
                    usable = False
                union |= set(o["kmv"])
            if not usable or len(union) != distinct:
                res["checks"]["sum-cardinality-skipped"] = res["checks"].get("sum-cardinality-skipped", 0) + 1
                continue
            res["checks"]["sum-cardinality"] = res["checks"].get("sum-cardinality", 0) + 1
            if d["card"] != distinct:
                return ("sum-cardinality", "column %d (%s): the distinct-count estimate of %s is %r for %d distinct values (below the sketch size; "
                        "the sketches that were added hold %d different hashes between them, %s)"
                        % (j, k, label, d["card"], distinct, len(union), " + ".join(str(len(op[j].get("kmv", []))) for op in operands)), j)
        return None

    sides = {}
    cuts = list(case.get("cuts", []))
    for cut in cuts:
        la, lb = "profile(rows[:%d])" % cut, "profile(rows[%d:])" % cut
        with warnings.catch_warnings():
            warnings.simplefilter("ignore")
            try:
                pa, pb = side(0, cut), side(cut, len(rows))
                sides[cut] = (pa, pb)
                sa, sb = snapshot(pa, nc), snapshot(pb, nc)
                ops = [(la, pa, sa, 0, cut), (lb, pb, sb, cut, len(rows))]
                ps = pa + pb
                sums = [_column_dict(ps.column("c%d" % j)) for j in range(nc)]
                parts = [[_column_dict(pa.column("c%d" % j)), _column_dict(pb.column("c%d" % j))] for j in range(nc)]
                res["adds"].append((cut, parts, sums))
                f = whole_clause(sums, "%s + %s" % (la, lb), operands=[[p[0] for p in parts], [p[1] for p in parts]])
                if f is None and rows:
                    f = entries_clause(ps, nc, "%s + %s: " % (la, lb))
                f = f or operands_unchanged(ops, "adding %s + %s" % (la, lb))
                if f is not None:
                    res["failure"] = f
                    return res
                first = snapshot(ps, nc)
                # the operands are used a second time: the same sum, field by field (histogram included)
                again = pa + pb
                ch = snapshot_diff(first, snapshot(again, nc))
                if ch is not None:
                    sums2 = [_column_dict(again.column("c%d" % j)) for j in range(nc)]
                    f = whole_clause(sums2, "the same two profiles of rows[:%d] and rows[%d:] added a second time:" % (cut, cut))
                    res["failure"] = f or ("sum-unrepeatable", "the same two profiles of rows[:%d] and rows[%d:] added a second time give another "
                                           "sum: %s of column %s was %s, is now %s" % (cut, cut, ch[1], ch[0], _short(ch[2]), _short(ch[3])), ch[0])
                    return res
                # the same sum column by column (ColumnProfile.__add__ called directly), where both sides hold the column
                for j in range(nc):
                    ca, cb = pa.column("c%d" % j), pb.column("c%d" % j)
                    if ca is None or cb is None:
                        continue
                    cs = _column_dict(ca + cb)
                    if {f_: v for f_, v in cs.items()} != {f_: v for f_, v in sums[j].items()}:
                        fld = next(f_ for f_ in cs if cs[f_] != sums[j].get(f_))
                        res["failure"] = ("additive", "column %d (%s): the column profiles of rows[:%d] and rows[%d:] added directly differ from the "
                                          "column of the table sum in %s: %s vs %s" % (j, kinds[j], cut, cut, fld, _short(cs[fld]), _short(sums[j].get(fld))), j)
                        return res
                # an operand that has been asked for its estimates adds up to the same sum
                res["checks"]["estimates-asked"] = res["checks"].get("estimates-asked", 0) + ask_estimates(pa, nc) + ask_estimates(pb, nc)
                third = pa + pb
                f = operands_unchanged(ops, "asking for estimates and adding %s + %s again" % (la, lb))
                ch = snapshot_diff(first, snapshot(third, nc))
                if f is None and ch is not None:
                    f = ("sum-unrepeatable", "%s + %s after both were asked for their estimates give another sum: %s of column %s was %s, is now %s"
                         % (la, lb, ch[1], ch[0], _short(ch[2]), _short(ch[3])), ch[0])
                if f is not None:
                    res["failure"] = f
                    return res
                res["checks"]["operand-snapshots"] = res["checks"].get("operand-snapshots", 0) + 1
            except Exception as e:
                res["failure"] = ("add-raised", "adding the profiles of rows[:%d] and rows[%d:] raised %s: %s"
                                  % (cut, cut, type(e).__name__, str(e)[:100]), None)
                return res
    # three batches: (a + b) + c and a + (b + c), the outer operands being the ones already used above; for a small frame
    # every pair of inner cuts (three non-empty batches: e.g. a | b | a, where the first two batches share no value)
    inner = sorted(set(cuts))
    pairs = []
    if len(inner) >= 2 and inner[0] < inner[1]:
        pairs.append((inner[0], inner[1]))
    if len(rows) <= 6:
        strict = [k for k in inner if 0 < k < len(rows)]
        pairs += [(a, b) for i, a in enumerate(strict) for b in strict[i + 1:] if (a, b) not in pairs]
        pairs = pairs[:3]
    for c1, c2 in pairs:
        with warnings.catch_warnings():
            warnings.simplefilter("ignore")
            try:
                pa, pc = sides[c1][0], sides[c2][1]
                pm = side(c1, c2)
                la, lm, lc = "profile(rows[:%d])" % c1, "profile(rows[%d:%d])" % (c1, c2), "profile(rows[%d:])" % c2
                ops = [(la, pa, snapshot(pa, nc), 0, c1), (lm, pm, snapshot(pm, nc), c1, c2), (lc, pc, snapshot(pc, nc), c2, len(rows))]
                left = (pa + pm) + pc
                right = pa + (pm + pc)
                three = [[_column_dict(p_.column("c%d" % j)) for j in range(nc)] for p_ in (pa, pm, pc)]
                f = (whole_clause([_column_dict(left.column("c%d" % j)) for j in range(nc)], "(%s + %s) + %s" % (la, lm, lc), operands=three)
                     or whole_clause([_column_dict(right.column("c%d" % j)) for j in range(nc)], "%s + (%s + %s)" % (la, lm, lc), operands=three)
                     or operands_unchanged(ops, "adding three batch profiles in both groupings"))
                if f is not None:
                    res["failure"] = f
                    return res
                res["checks"]["three-batches"] = res["checks"].get("three-batches", 0) + 1
            except Exception as e:
                res["failure"] = ("add-raised", "adding the profiles of rows[:%d], rows[%d:%d] and rows[%d:] raised %s: %s"
                                  % (c1, c1, c2, c2, type(e).__name__, str(e)[:100]), None)
                return res
    if case.get("twin"):
        f = twin_clause(case, rows, res)
        if f is not None:
            res["failure"] = f
            return res
    return res


def twin_clause(case, rows, res):
    """Two frames holding the SAME rows under different column names (or the same names bound another way), profiled
    back to back: A (the case's own names), then B (the twin's names), then A again.  Every profile must describe its
    own frame: column `names[i]` of B is the column at position i."""
    kinds = case["kinds"]
    t = case["twin"]
    names = t["names"]
    cells, lazy, entry = cell_forms(case), bool(case.get("lazy")), case.get("entry")
    own = ["c%d" % j for j in range(len(kinds))]

    def judge(tp, nm, label, view):
        cols = [_column_dict(tp.column(n_)) for n_ in nm]
        if view:
            res["views"].append((label, rows, cols))
        for j, k in enumerate(kinds):
            f = oracle_column(k, [r[j] for r in rows], cols[j])
            if f is not None:
                return (f[0], "%scolumn %r (position %d, %s): %s" % (label, nm[j], j, k, f[1]), j)
        got = entry_names(tp)
        if rows and got != list(nm):
            return ("entries", "%sthe profile lists the columns %r, the frame has %r" % (label, got, list(nm)), None)
        return None

    with warnings.catch_warnings():
        warnings.simplefilter("ignore")
        try:
            fa = _frame(kinds, rows, cells, lazy, None, case.get("schema"))
            fb = _frame(kinds, rows, cells, lazy, None, t.get("schema", case.get("schema")), names=names)
            f = judge(profile_of(fa, entry), own, "first of two frames holding the same rows: ", False)
            f = f or judge(profile_of(fb, entry), names, "a second frame holding the same rows under the column names %r, profiled right "
                           "after the first (names %r): " % (names, own), True)
            f = f or judge(profile_of(fa, entry), own, "the first frame (names %r) profiled again after a frame holding the same rows "
                           "under the names %r: " % (own, names), True)
        except Exception as e:
            return ("raised", "profiling two frames holding the same rows under the names %r and %r, one after the other, raised %s: %s"
                    % (own, names, type(e).__name__, str(e)[:120]), None)
    if f is None:
        res["checks"]["twin"] = 1
    return f


def _short(x):
    t = x if isinstance(x, str) else repr(x)
    return t if len(t) <= 160 else t[:157] + "..."


SUM_CLAUSES = ("additive", "add-raised", "operand-changed", "sum-unrepeatable", "sum-histogram", "sum-mfv", "sum-cardinality")


def shrink_case(case, what):
    def still(c2):
        if not valid_case(c2):
            return False
        f = check_case(c2)["failure"]
        return f is not None and f[0] == what

    c = case
    # one column first
    if len(c["kinds"]) > 1:
        for j in range(len(c["kinds"])):
            c2 = dict(c)
            c2["kinds"] = [c["kinds"][j]]
            if "cells" in c:
                c2["cells"] = [c["cells"][j]]
            if "arrow" in c:
                c2["arrow"] = [c["arrow"][j]]
            if "gen" in c:
                c2["gen"] = dict(c["gen"], pattern=[[r[j]] for r in c["gen"]["pattern"]])
                if "tail" in c["gen"]:
                    c2["gen"]["tail"] = [[r[j]] for r in c["gen"]["tail"]]
            else:
                c2["rows"] = [[r[j]] for r in c["rows"]]
            if "appends" in c:
                c2["appends"] = [[[r[j]] for r in chunk] for chunk in c["appends"]]
            if "other" in c:
                c2["other"] = [[r[j]] for r in c["other"]]
            if "twin" in c:
                c2["twin"] = dict(c["twin"], names=[c["twin"]["names"][j]])
            if still(c2):
                c = c2
                break
    if "gen" in c and c["gen"]["n"] <= 400:
        c2 = {k: v for k, v in c.items() if k != "gen"}
        c2["rows"] = expand(c)
        if still(c2):
            c = c2
    elif "gen" in c:
        # a failure found on a generated frame is often not about its size: try a few rows of its pattern
        pat = c["gen"]["pattern"]
        for m in sorted({1, 2, 3, len(pat), 2 * len(pat), len(pat) + 1}):
            if m > 16:
                continue
            c2 = {k: v for k, v in c.items() if k not in ("gen", "cuts")}
            c2["rows"] = [list(pat[i % len(pat)]) for i in range(m)]
            if still(c2):
                c = c2
                break
    if what in SUM_CLAUSES and what != "add-raised" and "gen" not in c and "appends" not in c and c.get("cuts") and 2 < len(c["rows"]) <= 60:
        # a sum that differs from the whole is usually about one row on either side of the cut
        found = None
        for cut in c["cuts"]:
            for i in range(0, cut):
                for j in range(cut, len(c["rows"])):
                    c2 = dict(c, rows=[c["rows"][i], c["rows"][j]], cuts=[1])
                    if still(c2):
                        found = c2
                        break
                if found:
                    break
            if found:
                break
        if found:
            c = found
    if c.get("cuts") and what not in SUM_CLAUSES:
        c2 = {k: v for k, v in c.items() if k != "cuts"}
        if still(c2):
            c = c2
    if c.get("cuts") and len(c["cuts"]) > 1:
        for k in c["cuts"]:
            c2 = dict(c, cuts=[k])
            if still(c2):
                c = c2
                break
    for drop in ("twin", "lazy", "cells", "other", "arrow", "entry", "schema"):
        if drop in c:
            c2 = {k: v for k, v in c.items() if k != drop}
            if still(c2):
                c = c2
    # every probe of a frame above the batch size costs a full profile of 25000+ rows: such a failure is about
    # the size (it was already tried on a few rows of the pattern above), so only a few structural steps
    c = shrink(c, still, budget=250 if len(expand(c)) <= 2000 else 30)
    if c.get("cuts") == []:
        c = {k: v for k, v in c.items() if k != "cuts"}
    return c


def _got(res):
    """The judged column profile of a failing case (jsonable), handed to the known-finding predicates."""
    f = res["failure"]
    if f is None or f[2] is None or not res["views"]:
        return None
    cols = res["views"][-1][2]
    d = cols[f[2]] if f[2] < len(cols) else None
    if not isinstance(d, dict):
        return None
    return {k: v for k, v in d.items() if k != "hist"}


def evaluate(ctx, cases):
    """Implementation, oracle, model and comparison for a batch of cases."""
    results = []
    lines = []
    index = []  # (case idx, tag, payload)
    for ci, c in enumerate(cases):
        if not valid_case(c):
            raise InfraError("generator produced an invalid case: %r" % (c,))
        kinds = c["kinds"]
        rows = expand(c)
        res = check_case(c)
        results.append(res)
        n = len(rows)
        nontrivial = n >= 2 or bool(c.get("cuts"))
        ctx.case(c, nontrivial)
        ctx.hit("rows:%s" % (n if n <= 5 else "6-31" if n < 32 else "32-99" if n < 100 else "100-999" if n < 1000 else ">=1000"))
        ctx.hit("cuts:%d" % min(len(c.get("cuts", [])), 9))
        if any(k in (0, n) for k in c.get("cuts", [])):
            ctx.hit("cuts:one-batch-without-rows")
        ctx.hit("frame:lazy" if c.get("lazy") else "frame:eager")
        ctx.hit("entry:" + (c.get("entry") or "DataFrame.profile"))
        bsz = consts()["batch"]
        skind = c.get("schema") or ("arrow" if c.get("arrow") else "RelationSchema")
        ctx.hit("schema:" + skind)
        if n >= bsz - 1:
            ctx.hit("morsels:%s:%s" % (skind, "batch-1" if n == bsz - 1 else "batch" if n == bsz else "batch+1" if n == bsz + 1
                                       else "2*batch+3" if n == 2 * bsz + 3 else "%d..%d batches" % (n // bsz, n // bsz + 1)))
        for key in ("operand-snapshots", "three-batches", "sum-listed-counts", "sum-cardinality", "sum-cardinality-skipped"):
            if (res.get("checks") or {}).get(key):
                ctx.hit("sum:" + key, (res.get("checks") or {}).get(key))
        if (res.get("checks") or {}).get("twin"):
            tw = c["twin"]
            ctx.hit("twin-frames:same-rows-" + ("renamed" if set(tw["names"]) != {"c%d" % j for j in range(len(kinds))} else
                                                "same-names-same-order" if tw["names"] == ["c%d" % j for j in range(len(kinds))] else "names-permuted")
                    + (":other-schema-kind" if tw.get("schema", c.get("schema")) != c.get("schema") else ""))
        if "gen" in c and c["gen"].get("runs", 1) > 1:
            ctx.hit("morsels:one-value-per-morsel")
        if "overlap" in c:
            how = "frame above the morsel size" if "gen" in c else "profiles added by hand"
            ctx.hit("overlapping-sketches:%s:%s" % (how, c["overlap"].split(":", 1)[1]))
            ctx.hit("overlapping-sketches:%s:%s" % (how, c["overlap"].split(":", 1)[0]))
        for j, k in enumerate(kinds):
            if k == "VARCHAR":
                for r in rows[:400]:
                    v = r[j]
                    if isinstance(v, str) and not v.isascii():
                        nb, nch = len(v.encode("utf-8")), len(v)
                        w = consts()["prefix"]
                        if nch <= w < nb:
                            ctx.hit("text:non-ascii:at most %d characters, more than %d bytes" % (w, w))
                        elif nch > w:
                            ctx.hit("text:non-ascii:more than %d characters" % w)
                        elif nb >= w - 1:
                            ctx.hit("text:non-ascii:%d..%d bytes" % (w - 1, w))
        if (res.get("checks") or {}).get("estimates-asked"):
            ctx.hit("estimates-asked-profile-unchanged")
        if "appends" in c:
            ctx.hit("sequence:uses-of-one-frame:%d" % min(len(c["appends"]) + 1, 5))
            ctx.hit("sequence:second-frame-between" if c.get("other") else "sequence:uninterrupted")
            if any(len(chunk) == 0 for chunk in c["appends"]):
                ctx.hit("sequence:profiled-twice-unchanged")
        for j, (k, f) in enumerate(zip(kinds, cell_forms(c))):
            if k in TEMPORAL:
                if c.get("arrow"):
                    pass
                else:
                    ctx.hit("cell:%s:%s" % (k, f or ("naive" if k == "TIMESTAMP" else "date")))
                secs = [exact(k, r[j]) for r in rows if r[j] is not None]
                if any(x < NS_MIN_S for x in secs):
                    ctx.hit("temporal-range:%s:before 1677-09-21 (below 64-bit nanoseconds)" % k)
                if any(x > NS_MAX_S for x in secs):
                    ctx.hit("temporal-range:%s:after 2262-04-11 (above 64-bit nanoseconds)" % k)
                if any(NS_MIN_S <= x <= NS_MAX_S for x in secs):
                    ctx.hit("temporal-range:%s:1677..2262" % k)
                if any(x in (TS_MIN, TS_MAX, DATE_MIN * 86400, DATE_MAX * 86400) for x in secs):
                    ctx.hit("temporal-range:%s:first or last day of year 1..9999" % k)
                if any(isinstance(r[j], list) for r in rows):
                    ctx.hit("temporal:sub-second" + (":before-1970" if any(isinstance(r[j], list) and r[j][0] < 0 for r in rows) else ""))
        for j, k in enumerate(kinds):
            vals = [r[j] for r in rows]
            nn = [v for v in vals if v is not None]
            ctx.hit("kind:" + k)
            if c.get("arrow"):
                ctx.hit("cell:%s:arrow:%s" % (k, c["arrow"][j]))
            ctx.hit("nulls:" + ("all" if not nn else "none" if len(nn) == n else "some"))
            if k == "DECIMAL" and nn and len(nn) < n:
                ctx.hit("decimal:with-nulls")
            if k in NUMERIC + TEMPORAL + ("VARCHAR",) and nn and not non_finite(k, nn):
                ex = [exact(k, v) for v in nn]
                o, _ = expected_order(ex)
                ctx.hit("shape:" + {None: "constant", 1: "ascending", -1: "descending", 0: "unsorted"}[o])
                dcount = len(set(json.dumps(v) for v in nn))
                ctx.hit("distinct:" + ("<32" if dcount < 32 else "=32" if dcount == 32 else ">32"))
                if n <= 400:
                    ncol = colliding_in(k, nn)
                    if ncol:
                        ctx.hit("hash-collision:%s:%s" % (k, "below-sketch-size" if dcount < 32 else "at-or-above-sketch-size"))
                if k in NUMERIC:
                    if any(e == 0 for e in ex):
                        ctx.hit("value:zero")
                    if any(e < 0 for e in ex):
                        ctx.hit("value:negative")
                    if k == "DOUBLE" and any(isinstance(v, float) and v == 0 and str(v).startswith("-") for v in nn):
                        ctx.hit("value:negative-zero")
        if res["failure"] is not None:
            # a frame above the batch size that fails the way the open finding K06 describes is still compared
            # with the model's fold of ColumnProfile.__add__ over the batches, field by field
            if n > consts()["batch"] and res["failure"][0] in ("mfv", "cardinality", "order", "transitions") and "appends" not in c:
                for j, k in enumerate(kinds):
                    vals = [r[j] for r in rows]
                    if non_finite(k, vals) or "raised" in res["cols"][j] or res["cols"][j].get("absent"):
                        continue
                    bl = model_batchedfull_line(k, vals)
                    if bl is not None:
                        lines.append(bl)
                        index.append((ci, "batchedfull", j))
            continue
        # model lines: one per judged (frame state, column), one per cut and column, one per generated (batched) frame
        for vi, (label, vrows, vcols) in enumerate(res["views"]):
            vobjs = None
            for j, k in enumerate(kinds):
                vals = [r[j] for r in vrows]
                if non_finite(k, vals):
                    ctx.hit("model-skipped:non-finite")
                    continue
                line, why = None, None
                if k in TEMPORAL and len(vals) <= 2000:
                    if vobjs is None:
                        vobjs = frame_objects(c, vrows)
                    line, why = model_cells_line(k, vals, vobjs[j])
                    ctx.hit("model:temporal-from-cell-objects" if line else "model:temporal-from-seconds")
                cells_line = line is not None
                if line is None:
                    line, why = model_profile_line(k, vals)
                if line is None:
                    ctx.hit("model-skipped:hash-unobservable")
                    continue
                lines.append(line)
                index.append((ci, "cellscol" if cells_line else "col", (vi, j)))
                if len(vals) > consts()["batch"] or "gen" in c:
                    lines.append("C15 batched " + wire.line(MKIND[k], None, [model_cell(k, v) for v in vals]))
                    index.append((ci, "batched", j))
                    bl = model_batchedfull_line(k, vals)
                    if bl is not None:
                        lines.append(bl)
                        index.append((ci, "batchedfull", j))
        for ai, (cut, parts, sums) in enumerate(res["adds"]):
            for j, k in enumerate(kinds):
                absent = parts[j][0].get("absent") or parts[j][1].get("absent")
                if absent and cut not in (0, len(rows)):
                    continue
                if not absent:
                    lines.append("C15 add " + wire.line(core_of(parts[j][0]), core_of(parts[j][1])))
                    index.append((ci, "add", (ai, j)))
                else:
                    ctx.hit("sum-with-a-batch-without-rows")  # that side has no column profile: the stand-in of TableProfile.__add__
                va, vb = [r[j] for r in rows[:cut]], [r[j] for r in rows[cut:]]
                if not non_finite(k, va + vb):
                    sl = model_sum_line(k, va, vb)
                    if sl is not None:
                        lines.append(sl)
                        index.append((ci, "sum", (ai, j)))
    mouts = ctx.model.batch(lines)
    for (ci, tag, payload), mo in zip(index, mouts):
        c = cases[ci]
        res = results[ci]
        if not mo.startswith("ok "):
            raise InfraError("model rejected a %s line of case %r: %r" % (tag, c, mo))
        out = wire.dec_all(mo[3:])
        kinds = c["kinds"]
        if tag == "cellscol":
            # DateProfiler from the cell objects: first the conversion to epoch seconds, cell by cell
            vi, j = payload
            label, vrows, vcols = res["views"][vi]
            k = kinds[j]
            vals = [r[j] for r in vrows]
            small = c
            if "appends" not in c and len(vals) <= 400:
                small = {"kinds": [k], "rows": [[v] for v in vals]}
                for key in ("cells", "arrow"):
                    if c.get(key):
                        small[key] = [c[key][j]]
            want = [None if v is None else exact(k, v) for v in vals]
            bad = None
            if out[0] == "raised":
                bad = "raises %s where the implementation profiles the column" % out[1]
            elif out[1] != want:
                i = next(i for i, (a, b) in enumerate(zip(out[1], want)) if a != b)
                bad = "converts cell %d (%r) to %r, its epoch seconds are %r" % (i, vals[i], out[1][i], want[i])
            if bad is not None:
                if model_is_pinned():
                    raise InfraError("the model of the unchanged DateProfiler %s: %s column %r" % (bad, k, vals[:50]))
                ctx.disagree(small, vcols[j], {"seconds": None if out[0] == "raised" else out[1][:50]},
                             what=label + "the model assembled from the changed source " + bad)
                continue
            out = out[2:]
            tag = "col"
        if tag == "col":
            vi, j = payload
            label, vrows, vcols = res["views"][vi]
            k = kinds[j]
            vals = [r[j] for r in vrows]
            m = model_dict(k, out)
            mf = oracle_column(k, vals, m, model_side=True)
            if mf is not None and model_is_pinned():
                raise InfraError("the oracle rejects the MODEL's profile of %s column %r: %s" % (k, vals[:50], mf[1]))
            diff = compare_column(k, vcols[j], m, core_only=len(vals) > consts()["batch"])
            if mf is not None and diff is None:
                diff = "the model assembled from the changed source violates the property (%s) where the implementation does not" % mf[1]
            if diff is not None:
                if "appends" in c:
                    small = c
                    diff = label + diff
                else:
                    small = {"kinds": [k], "rows": [[v] for v in vals]}
                    if cell_forms(c)[j]:
                        small["cells"] = [cell_forms(c)[j]]
                    if c.get("arrow"):
                        small["arrow"] = [c["arrow"][j]]
                    if c.get("lazy"):
                        small["lazy"] = True
                ctx.disagree(small if len(vals) <= 400 else c, vcols[j], _plain(m), what=diff)
        elif tag == "sum":
            ai, j = payload
            cut, parts, sums = res["adds"][ai]
            rows = expand(c)
            # each side is the profile DataFrame.profile gives it: a fold over its batches when it is above the batch size
            bsz = consts()["batch"]
            sides = [[r[j] for r in rows[:cut]], [r[j] for r in rows[cut:]]]
            diff = compare_sum(kinds[j], sums[j], model_dict(kinds[j], out), [sd[i: i + bsz] for sd in sides for i in range(0, len(sd), bsz)])
            ctx.hit("sum-compared-in-full")
            if diff is not None:
                ctx.disagree(c, {k2: v for k2, v in sums[j].items() if k2 != "hist"}, _plain(model_dict(kinds[j], out)),
                             what="profile(rows[:%d]) + profile(rows[%d:]), column %d: %s" % (cut, cut, j, diff))
        elif tag == "batchedfull":
            j = payload
            if out == [None]:
                raise InfraError("model has no batches for a non-empty frame: %r" % (c,))
            vals = [r[j] for r in expand(c)]
            b = consts()["batch"]
            diff = compare_sum(kinds[j], res["cols"][j], model_dict(kinds[j], out), [vals[i: i + b] for i in range(0, len(vals), b)])
            ctx.hit("batched-frame-compared-in-full")
            if diff is not None:
                ctx.disagree(c, {k2: v for k2, v in res["cols"][j].items() if k2 != "hist"}, _plain(model_dict(kinds[j], out)),
                             what="frame of %d rows (batches of %d), column %d: %s" % (len(vals), b, j, diff))
        elif tag == "batched":
            j = payload
            if out[0] != core_of(res["cols"][j]):
                ctx.disagree(c, core_of(res["cols"][j]), out[0], what="batched profile (count/missing/min/max) differs from the model's fold over batches")
        else:
            ai, j = payload
            cut, parts, sums = res["adds"][ai]
            if out[0] != core_of(sums[j]):
                ctx.disagree(c, core_of(sums[j]), out[0], what="sum of the profiles of rows[:%d] and rows[%d:] differs from the model's addCore" % (cut, cut))
    for c, res in zip(cases, results):
        if res["failure"] is None:
            continue
        for fi, fail in enumerate([res["failure"]] + res.get("more", [])):
            what = fail[0]
            got = _got(dict(res, failure=fail))
            if fi > 0:
                # a further clause of a frame above the batch size: reported as it stands (no shrinking)
                ctx.fail(c, fail[1], impl=None, detail={"what": what, "col": fail[2], "got": got})
                continue
            if what in _REPORTED and not ctx.replaying:
                # one replay per clause kind and run; known findings are still matched and counted
                f0 = {"clause": fail[1], "detail": {"what": what, "col": fail[2], "got": got}}
                if not any(k.get("status") == "open" and hcore.match_known(ctx.prop_id, k, c, f0) for k in ctx.known):
                    ctx.hit("violation-dup:" + what)
                    continue
            keep = ctx.replaying
            if not keep and len(expand(c)) > consts()["batch"]:
                # a frame above the batch size whose failure an open finding explains is reported as it stands:
                # every shrinking probe would profile 25000+ rows again
                f0 = {"clause": fail[1], "detail": {"what": what, "col": fail[2], "got": got}}
                keep = any(k.get("status") == "open" and hcore.match_known(ctx.prop_id, k, c, f0) for k in ctx.known)
            c_min = c if keep else shrink_case(c, what)
            r2 = res if c_min is c else check_case(c_min)
            if r2["failure"] is None:
                r2 = res
                c_min = c
            f2 = r2["failure"]
            last = r2["views"][-1][2] if r2["views"] else r2["cols"]
            verdict = ctx.fail(c_min, f2[1], impl=last if len(expand(c_min)) <= 50 else None,
                               detail={"what": f2[0], "col": f2[2], "got": _got(r2)})
            if verdict == "violation":
                _REPORTED.add(what)


_REPORTED = set()


def _plain(m):
    d = dict(m)
    d["mfv"] = [[str(v), c] for v, c in m["mfv"]]
    return d


# --------------------------------------------------------------------------- generators

TEXT_POOL = ["", "a", "ab", "b", "abc", "abd", "B", "zz", "é", "éa", "日本", "日本語", "a\x00", "\U0001f600", "abcdefgh", "abcdefghi",
             "abcdefgz", "x" * 64, "x" * 64 + "a", "x" * 64 + "b", "x" * 63 + "y", "Z" * 70]
SMALL = {
    "INTEGER": [0, -1, 2],
    "DOUBLE": [0.0, -1.5, 2.25],
    "DECIMAL": ["0.00", "-1.5", "2.25"],
    "VARCHAR": ["", "ab", "b"],
    "BOOLEAN": [True, False],
    "DATE": [0, -1, DATE_MAX],
    "TIMESTAMP": [0, -1, TS_MIN],
    "ARRAY": [[], [1, 2]],
    "STRUCT": [{"a": 1}, {}],
    "UNTYPED": [0, "a", 1.5],
}


def _days(y, m, d):
    return (datetime.date(y, m, d) - datetime.date(1970, 1, 1)).days


# the whole range the statement allows (year 1..9999), the ends of what 64-bit nanoseconds can hold
# (1677-09-21T00:12:43.145224192 .. 2262-04-11T23:47:16.854775807), the epoch, leap days and century years
DATE_POOL = [DATE_MIN, DATE_MIN + 1, _days(1600, 1, 1), _days(1600, 2, 29), _days(1677, 9, 20), _days(1677, 9, 21),
             _days(1677, 9, 22), _days(1900, 2, 28), _days(1900, 3, 1), _days(1969, 12, 31), 0, 1, _days(2000, 2, 29),
             _days(2100, 2, 28), _days(2100, 3, 1), _days(2262, 4, 11), _days(2262, 4, 12), _days(2300, 1, 1),
             _days(9999, 12, 30), DATE_MAX]
TS_POOL = ([d * 86400 for d in DATE_POOL] + [d * 86400 + 86399 for d in (DATE_MIN, _days(1969, 12, 31), DATE_MAX)]
           + [TS_MIN + 1, TS_MAX - 1, NS_MIN_S - 1, NS_MIN_S, NS_MAX_S, NS_MAX_S + 1, NS_MAX_S + 2]
           + [[TS_MAX, 999999], [TS_MIN, 1], [-1, 999999], [-1, 1], [0, 500000], [0, 1], [NS_MAX_S + 1, 854775],
              [NS_MAX_S + 1, 854776], [NS_MIN_S - 1, 145225], [NS_MIN_S - 1, 145224], [_days(2300, 1, 1) * 86400, 250000],
              [_days(1600, 1, 1) * 86400 + 45001, 999999]])


def domain(rng, kind, size):
    """`size` distinct non-null JSON cells of a kind (inside the exact-label domain, see design_notes/C15.md)."""
    out = []
    seen = set()
    tries = 0
    while len(out) < size and tries < size * 50:
        tries += 1
        if kind == "INTEGER":
            r = rng.random()
            v = rng.randint(-6, 6) if r < 0.5 else rng.randint(-1000, 1000) if r < 0.8 else rng.randint(-BINS_SAFE, BINS_SAFE)
        elif kind == "DOUBLE":
            r = rng.random()
            v = rng.randint(-8, 8) / 2.0 if r < 0.4 else rng.randint(-64000, 64000) / 64.0 if r < 0.8 else float(rng.randint(-(2**40), 2**40))
        elif kind == "DECIMAL":
            r = rng.random()
            if r < 0.4:
                v = str(decimal.Decimal(rng.randint(-40, 40)) / 10)
            elif r < 0.8:
                v = str(decimal.Decimal(rng.randint(-10**7, 10**7)).scaleb(-rng.randint(0, 4)))
            else:
                v = "%d.%s" % (rng.randint(-99, 99), "0" * rng.randint(1, 3))
        elif kind == "VARCHAR":
            r = rng.random()
            if r < 0.45:
                v = rng.choice(TEXT_POOL)
            elif r < 0.55:
                # around the profiled window (SIXTY_FOUR_BYTES *characters*): a stem of 1-, 2-, 3- or 4-byte characters whose
                # length in characters or in UTF-8 bytes is next to the window, and a short tail
                w = consts()["prefix"]
                u = rng.choice(["x", "é", "α", "中", "\U0001f600"])
                nb = len(u.encode("utf-8"))
                k = rng.choice([w - 1, w, w + 1]) if rng.random() < 0.5 else max(1, rng.choice([w - 1, w, w + 1]) // nb)
                v = u * (k - rng.randint(0, 2)) + rng.choice(["", "a", "b", "ab", "ω", "ba"])
            else:
                v = "".join(rng.choice("abAB zé0中") for _ in range(rng.randint(0, 10)))
        elif kind == "BOOLEAN":
            v = rng.random() < 0.5
        elif kind == "DATE":
            r = rng.random()
            v = (rng.choice([0, -1, 1]) if r < 0.25 else rng.choice(DATE_POOL) if r < 0.5
                 else rng.randint(DATE_MIN, DATE_MAX) if r < 0.65 else rng.randint(-40000, 40000))
        elif kind == "TIMESTAMP":
            r = rng.random()
            v = (rng.choice([0, -1, 1]) if r < 0.25 else rng.choice(TS_POOL) if r < 0.5
                 else rng.randint(TS_MIN, TS_MAX) if r < 0.65 else rng.randint(-2 * 10**9, 4 * 10**9))
            if isinstance(v, int) and rng.random() < 0.15:
                v = [v, rng.choice([1, 500000, 999999, rng.randint(1, 999999)])]
        elif kind == "ARRAY":
            v = [rng.randint(0, 3) for _ in range(rng.randint(0, 3))]
        elif kind == "STRUCT":
            v = {k: rng.randint(0, 3) for k in rng.sample(["a", "b", "c"], rng.randint(0, 2))}
        else:
            v = rng.choice([rng.randint(-3, 3), rng.choice(["a", "b", ""]), rng.randint(-8, 8) / 4.0, rng.random() < 0.5, [1]])
        key = json.dumps(v, sort_keys=True) if kind not in NUMERIC + TEMPORAL else str(exact(kind, v))
        if key in seen:
            continue
        seen.add(key)
        out.append(v)
    return out


def sort_key(kind):
    if kind in NUMERIC + TEMPORAL + ("VARCHAR",):
        return lambda v: exact(kind, v)
    return lambda v: json.dumps(v, sort_keys=True)


def random_column(rng, kind, n):
    r = rng.random()
    dsize = 1 if r < 0.1 else rng.randint(2, 5) if r < 0.55 else rng.randint(6, 31) if r < 0.75 else rng.choice([31, 32, 33, 34, 40, 60])
    if kind in ("BOOLEAN",):
        dsize = min(dsize, 2)
    dom = domain(rng, kind, min(dsize, max(n, 1)))
    if n >= 2 and rng.random() < 0.12 and live_groups(kind):
        # values whose sketch hashes collide (corpus), in place of as many ordinary values
        groups = rng.sample(live_groups(kind), min(len(live_groups(kind)), rng.choice([1, 1, 2, 4])))
        inject = [v for g in groups for v in g][: max(2, min(n, len(dom) + 2))]
        keep = [v for v in dom if sort_key(kind)(v) not in {sort_key(kind)(w) for w in inject}]
        dom = inject + keep[: max(0, max(len(dom), len(inject)) - len(inject))]
    r = rng.random()
    if r < 0.25 or len(dom) >= n:
        vals = [rng.choice(dom) for _ in range(n)]
    else:
        # skewed frequencies with ties, every domain value at least once when it fits
        vals = list(dom[:n])
        weights = [rng.choice([1, 1, 2, 3, 5]) for _ in dom]
        vals += rng.choices(dom, weights=weights, k=n - len(vals))
        rng.shuffle(vals)
    shape = rng.random()
    if shape < 0.2:
        vals.sort(key=sort_key(kind))
    elif shape < 0.4:
        vals.sort(key=sort_key(kind), reverse=True)
    elif shape < 0.5:
        vals = [vals[0]] * n
    p = rng.choice([0.0, 0.0, 0.1, 0.3, 0.8, 1.0]) if rng.random() < 0.9 else 0.5
    vals = [None if rng.random() < p else v for v in vals]
    return vals


def random_case(ctx, big=False):
    rng = ctx.rng
    r = rng.random()
    n = rng.randint(1, 8) if r < 0.35 else rng.randint(9, 40) if r < 0.7 else rng.randint(41, 90) if r < 0.93 else rng.randint(91, 300)
    ncols = 1 if rng.random() < 0.6 else rng.randint(2, 3)
    kinds = [rng.choice(KINDS) for _ in range(ncols)]
    if rng.random() < 0.07:
        kinds = ["UNTYPED"] * ncols
    cols = [random_column(rng, k, n) for k in kinds]
    rows = [[col[i] for col in cols] for i in range(n)]
    c = {"kinds": kinds, "rows": rows}
    if all(k == "UNTYPED" for k in kinds) and rng.random() < 0.6:
        c["schema"] = rng.choice(SCHEMAS)  # the schema is a plain list of names
    elif all(k in ARROW for k in kinds) and rng.random() < (0.3 if all(k in TEMPORAL for k in kinds) else 0.2):
        # the frame arrives through Arrow: the widest type that holds every cell of the column
        arrow = []
        for j, k in enumerate(kinds):
            fits = [t for t in ARROW[k] if all(arrow_holds(t, r[j]) for r in rows)]
            arrow.append(rng.choice(fits))
        c["arrow"] = arrow
    elif any(k in TEMPORAL for k in kinds) and rng.random() < 0.7:
        cells = [rng.choice(RANDOM_FORMS[k]) if k in TEMPORAL else None for k in kinds]
        if any(cells):
            c["cells"] = cells
    if rng.random() < 0.15:
        c["lazy"] = True
    if rng.random() < 0.12:
        c["entry"] = rng.choice(ENTRIES)
    if n >= 2 and rng.random() < 0.6:
        if n <= 6 and rng.random() < 0.5:
            c["cuts"] = list(range(1, n))
        else:
            c["cuts"] = sorted(set(rng.randint(1, n - 1) for _ in range(rng.randint(1, 3))))
    if "arrow" not in c and c.get("schema") != "dicts" and rng.random() < 0.15:
        c["cuts"] = sorted(set(c.get("cuts", []) + [rng.choice([0, n])]))  # one batch without rows
    if "arrow" not in c and rng.random() < (0.2 if ncols > 1 else 0.06):
        # a second frame holding the same rows under permuted / other names, profiled right after this one
        own = ["c%d" % j for j in range(ncols)]
        names = list(own)
        if ncols > 1 and rng.random() < 0.7:
            while names == own:
                rng.shuffle(names)
        else:
            names = ["k%d" % j for j in range(ncols)]
        c["twin"] = {"names": names}
        if all(k == "UNTYPED" for k in kinds) and "cells" not in c and rng.random() < 0.5:
            c["twin"]["schema"] = rng.choice(SCHEMAS)
    return c


def random_sequence(ctx):
    """One frame object: profiled, rows appended, profiled again, ...; in half of the cases the profile of a
    second frame (same kinds) is taken between two uses."""
    rng = ctx.rng
    ncols = 1 if rng.random() < 0.6 else rng.randint(2, 3)
    kinds = [rng.choice(KINDS) for _ in range(ncols)]
    uses = rng.choice([1, 1, 2, 3])
    sizes = [rng.choice([1, 1, 2, 3, 8, 30])] + [rng.choice([0, 1, 1, 2, 5, 20]) for _ in range(uses)]
    total = sum(sizes)
    cols = [random_column(rng, k, total) for k in kinds]
    allrows = [[col[i] for col in cols] for i in range(total)]
    c = {"kinds": kinds, "rows": allrows[: sizes[0]], "appends": []}
    at = sizes[0]
    for sz in sizes[1:]:
        c["appends"].append(allrows[at: at + sz])
        at += sz
    if rng.random() < 0.5:
        m = len(c["rows"]) if rng.random() < 0.5 else rng.randint(1, 6)
        ocols = [random_column(rng, k, m) for k in kinds]
        c["other"] = [[col[i] for col in ocols] for i in range(m)]
    if rng.random() < 0.2:
        c["lazy"] = True
    if all(k == "UNTYPED" for k in kinds) and rng.random() < 0.6:
        c["schema"] = rng.choice(SCHEMAS)
    return c


def sequence_edge_cases():
    """use -> mutate -> use again on one object, for every kind; the appended rows change every statistic."""
    out = []
    for k in KINDS:
        a = SMALL[k]
        out.append({"kinds": [k], "rows": [[a[0]]], "appends": [[[a[1]], [None]]]})
        out.append({"kinds": [k], "rows": [[None]], "appends": [[[a[0]]], [], [[a[-1]], [a[0]]]]})
        out.append({"kinds": [k], "rows": [[a[0]], [a[0]]], "appends": [[[a[1]]]], "other": [[a[1]], [None]]})
        out.append({"kinds": [k], "rows": [[a[1]]], "appends": [[[None]], [[a[0]]]], "lazy": True})
    # new extremes on both sides, a new most frequent value, order flips, the sketch grows past its size
    out.append({"kinds": ["INTEGER", "VARCHAR"], "rows": [[3, "c"], [4, None], [5, "e"]], "appends": [[[-7, None], [11, "k"]], [[4, "k"], [4, "k"]]]})
    out.append({"kinds": ["DOUBLE"], "rows": [[1.5], [2.5]], "appends": [[[0.0]], [[-0.5], [2.5], [2.5]]]})
    out.append({"kinds": ["TIMESTAMP", "DATE"], "rows": [[5, 1], [None, None]], "appends": [[[-5, 0]], [[1700000000, -3]]]})
    out.append({"kinds": ["INTEGER"], "rows": [[i] for i in range(30)], "appends": [[[30]], [[31]], [[32], [33]]]})
    out.append({"kinds": ["VARCHAR"], "rows": [["v%d" % i] for i in range(31)], "appends": [[], [["v31"], ["v0"]]], "other": [["w%d" % i] for i in range(31)]})
    return out


def collision_cases():
    """Columns holding values whose sketch hashes collide (corpus/C15/collisions.json, re-verified against the
    implementation): alone, with repeats and nulls, many pairs below the sketch size, exactly at 31 / 32 / 33
    distinct values, across a cut, arriving by append, and (one frame) above the batch size."""
    out = []
    for k in ("VARCHAR", "INTEGER", "DOUBLE", "DECIMAL", "TIMESTAMP", "DATE"):
        groups = live_groups(k)
        if not groups:
            continue
        for g in groups[:6]:
            out.append({"kinds": [k], "rows": [[v] for v in g], "cuts": [1]})
        a = groups[0]
        filler = [v for v in SMALL[k] if v not in a]
        out.append({"kinds": [k], "rows": [[a[0]], [a[1]], [a[0]], [None], [a[1]], [filler[0]], [a[0]]], "cuts": [2, 4]})
        out.append({"kinds": [k], "rows": [[a[0]], [filler[0]]], "appends": [[[a[1]]], [[a[0]], [None]]]})
        many = [v for g in groups[:12] for v in g]
        out.append({"kinds": [k], "rows": [[v] for v in many[:24]] + [[many[0]], [None], [many[1]]]})
        pool = [v for g in groups for v in g]
        extra = [v for v in domain_plain(k, 40) if v not in pool]
        for d in (31, 32, 33):
            vals = (pool[:16] + extra)[:d]
            out.append({"kinds": [k], "rows": [[v] for v in vals] + [[vals[0]]]})
    gs = {k: live_groups(k) for k in ("VARCHAR", "INTEGER", "TIMESTAMP")}
    if all(gs.values()):
        n = min(len(g) for g in gs.values())
        rows = []
        for i in range(min(n, 5)):
            for t in range(2):
                rows.append([gs["VARCHAR"][i][t], gs["INTEGER"][i][t], gs["TIMESTAMP"][i][t]])
        out.append({"kinds": ["VARCHAR", "INTEGER", "TIMESTAMP"], "rows": rows, "cuts": [1, len(rows) - 1]})
    # above the batch size the sketches of the batches are united as a *set* of hashes: colliding values count
    # once (part of the open finding K06; its predicate demands exactly that number)
    if live_groups("VARCHAR"):
        a = live_groups("VARCHAR")[0]
        out.append({"kinds": ["VARCHAR"], "gen": {"n": consts()["batch"] + 1, "pattern": [[a[0]], [a[1]], [a[0]]]}})
    return out


def domain_plain(kind, size):
    """`size` ordinary distinct cells of a kind, deterministic."""
    if kind == "VARCHAR":
        return ["w%d" % i for i in range(size)]
    if kind == "DOUBLE":
        return [i + 0.25 for i in range(size)]
    if kind == "DECIMAL":
        return ["%d.75" % i for i in range(size)]
    return list(range(1, size + 1))


def big_case(ctx, i):
    """A frame larger than the profiler's batch size, described by a repeating pattern."""
    rng = ctx.rng
    b = consts()["batch"]
    n = [b + 1, b + rng.randint(2, 50), 2 * b, 2 * b + 1, b, 3 * b + 7][i % 6]
    kinds = [rng.choice(["INTEGER", "DOUBLE", "VARCHAR", "DATE", "TIMESTAMP", "DECIMAL", "BOOLEAN", "UNTYPED", "ARRAY"])]
    if rng.random() < 0.4:
        kinds.append(rng.choice(KINDS))
    plen = rng.choice([1, 2, 3, 7, 11])
    cols = []
    for k in kinds:
        dom = domain(rng, k, min(plen, 2 if k == "BOOLEAN" else plen))
        col = [rng.choice(dom) for _ in range(plen)]
        if rng.random() < 0.5:
            col[rng.randrange(plen)] = None
        cols.append(col)
    pattern = [[col[i] for col in cols] for i in range(plen)]
    c = {"kinds": kinds, "gen": {"n": n, "pattern": pattern}}
    if i % 2 == 1:
        c["lazy"] = True
    if all(k == "UNTYPED" for k in kinds):
        c["schema"] = rng.choice(SCHEMAS)
    elif all(k in ARROW for k in kinds) and rng.random() < 0.5:
        fits = [[t for t in ARROW[k] if all(arrow_holds(t, r[j]) for r in pattern)] for j, k in enumerate(kinds)]
        if all(fits):
            c["arrow"] = [rng.choice(f) for f in fits]
            c.pop("lazy", None)
    if i % 3 == 0:
        c["cuts"] = [rng.choice([1, b, n - 1])]
    return c


def reader_batch():
    """The number of rows DataFrame.from_arrow reads at a time (BATCH_SIZE in orso/converters.py), read from the source."""
    import ast

    try:
        tree = ast.parse(open(os.path.join(hcore.REPO, "orso", "converters.py")).read())
        for n in ast.walk(tree):
            if isinstance(n, ast.AnnAssign) and isinstance(n.target, ast.Name) and n.target.id == "BATCH_SIZE" and isinstance(n.value, ast.Constant):
                return int(n.value.value)
            if isinstance(n, ast.Assign) and any(isinstance(t, ast.Name) and t.id == "BATCH_SIZE" for t in n.targets) and isinstance(n.value, ast.Constant):
                return int(n.value.value)
    except Exception:
        pass
    return 10000


def morsel_cases(ctx):
    """Frames at and above the morsel size of TableProfile.from_dataframe (the literal of `to_batches(…)`, extracted from the
    source), of every way a frame is bound to its schema: a plain list of names, built from dictionaries, a RelationSchema
    (typed and untyped columns), and arrow-backed.  Few columns, simple values; the pattern length is coprime to the
    morsel size, so every morsel has its own nulls."""
    b = consts()["batch"]
    sizes = [b - 1, b, b + 1, 2 * b + 3]
    thorough = ctx.scale(0, 1) == 1
    out = []
    upat = [[0, "a"], [None, "b"], [2, None], [0, "a"], [1.5, None], [True, "c"], [None, None]]
    for sch in SCHEMAS:
        for n in (sizes if thorough or sch == "names" else [b + 1, 2 * b + 3]):
            out.append({"kinds": ["UNTYPED", "UNTYPED"], "schema": sch, "gen": {"n": n, "pattern": upat}})
    out.append({"kinds": ["UNTYPED"], "schema": "names", "lazy": True, "gen": {"n": b + 1, "pattern": [[None], [1], ["x"]]}})
    out.append({"kinds": ["UNTYPED"], "schema": "dicts", "entry": "from_dataframe", "gen": {"n": b + 2, "nulls_first": 1, "pattern": [[[1]], [None], ["x"]]}})
    # a frame whose first morsel is all null in a column of a names-only schema; and one cut at the morsel boundary
    out.append({"kinds": ["UNTYPED", "UNTYPED"], "schema": "names", "gen": {"n": b + 3, "nulls_first": b, "pattern": [[1, None], [None, "x"]]}, "cuts": [b]})
    rpat = [[3, 0, "x"], [None, "a", "y"], [-2, None, None], [3, 1.5, "x"], [0, 0, ""], [7, None, "x"], [None, True, None]]
    for n in (sizes if thorough else [b + 1, 2 * b + 3]):
        out.append({"kinds": ["INTEGER", "UNTYPED", "VARCHAR"], "gen": {"n": n, "pattern": rpat}})
    apat = [[3, "x", 1.5], [None, "y", None], [-2, None, 0.0], [3, "x", -0.5], [0, "", 2.25], [7, "x", None], [None, None, 1.5]]
    rb = reader_batch()
    for n in (sizes + [rb - 1, rb, rb + 1] if thorough else [b + 1, 2 * b + 3, rb + 1]):
        out.append({"kinds": ["INTEGER", "VARCHAR", "DOUBLE"], "arrow": ["int64", "string", "double"], "gen": {"n": n, "pattern": apat}})
    out.append({"kinds": ["DATE", "TIMESTAMP", "BOOLEAN"], "arrow": ["date32", "timestamp[us]", "bool"],
                "gen": {"n": b + 1, "pattern": [[0, 5, True], [None, None, None], [DATE_MAX, [TS_MAX, 999999], False]]}, "cuts": [b]})
    # three morsels, one value per morsel, the third repeating the first: the first two share no listed value, so their sum
    # holds values and lists none; the third morsel's list must not be adopted with the third morsel's counts
    out.append({"kinds": ["VARCHAR", "INTEGER"], "gen": {"n": 2 * b + 10, "pattern": [["x", 7], ["y", -3]], "runs": b}})
    if thorough:
        out.append({"kinds": ["TIMESTAMP", "DOUBLE"], "gen": {"n": 3 * b + 1, "pattern": [[5, 0.5], [9, -1.5], [5, 2.0]], "runs": b}, "lazy": True})
    return out


def schema_edge_cases():
    """Small frames of every way a frame is bound to its schema, cut everywhere; the new Arrow column types."""
    out = []
    for sch in SCHEMAS:
        lo = 1 if sch == "dicts" else 0
        out.append({"kinds": ["UNTYPED"], "schema": sch, "rows": [[0], [None], ["a"]], "cuts": list(range(lo, 4 - lo))})
        out.append({"kinds": ["UNTYPED", "UNTYPED"], "schema": sch, "rows": [[None, None], [1.5, None], [None, [1]], [True, "a"]], "cuts": [1, 2, 3]})
        out.append({"kinds": ["UNTYPED"], "schema": sch, "rows": [[None]]})
        out.append({"kinds": ["UNTYPED", "UNTYPED"], "schema": sch, "rows": [[1, "a"]], "appends": [[[None, "b"]], [], [[2, None], [None, None]]]})
        out.append({"kinds": ["UNTYPED"], "schema": sch, "lazy": True, "rows": [["a"], [None]], "appends": [[[None]]], "other": [[1], [2], [None]]})
    out.append({"kinds": ["INTEGER", "VARCHAR", "DOUBLE", "BOOLEAN"], "arrow": ["int64", "string", "double", "bool"],
                "rows": [[0, "ab", -0.5, True], [None, None, None, None], [-3, "b", 0.0, False], [5, "", -1.75, True]], "cuts": [1, 2, 3]})
    out.append({"kinds": ["INTEGER", "VARCHAR"], "arrow": ["int32", "large_string"], "rows": [[None, None], [0, "日本"], [-7, "x" * 64 + "a"], [0, "x" * 64 + "b"]], "cuts": [1, 3]})
    out.append({"kinds": ["INTEGER"], "arrow": ["int64"], "rows": [[5], [3], [0]], "cuts": [1, 2]})
    return out


SCRIPTS = ["x", "é", "α", "中", "\U0001f600"]  # characters of 1, 2, 2, 3 and 4 UTF-8 bytes


def text_boundary_cases():
    """Text at the boundary of the profiled window (the first SIXTY_FOUR_BYTES *characters* of a value), in scripts of
    1-, 2-, 3- and 4-byte characters: values of window-1 / window / window+1 characters and of window-1 / window /
    window+1 UTF-8 bytes, differing only in the last character, only after byte `window` (still inside the window of
    characters: two different values), only after character `window` (one value to the most-frequent list, the order
    and the transitions; two to the sketch)."""
    w = consts()["prefix"]
    out = []
    for u in SCRIPTS:
        nb = len(u.encode("utf-8"))
        other = "ω" if u != "ω" else "α"
        stems = {u * k for k in (w - 2, w - 1, w, w + 1)}
        for tot in (w - 1, w, w + 1):  # stems of exactly tot bytes: whole characters, padded with ASCII
            k = tot // nb
            stems.add(u * k + "a" * (tot - k * nb))
            if nb > 1 and k > 0:
                stems.add("a" * (tot - k * nb) + u * k)
        stems.add(u * (w // 2) + "a")  # half the window in characters, over the window in bytes for 2+-byte scripts
        for stem in sorted(stems):
            a, b = stem + "a", stem + "b"
            out.append({"kinds": ["VARCHAR"], "rows": [[a], [b], [a], [None], [b], [b]], "cuts": [1, 3]})
            c = stem[:-1] + other  # differs in the last character of the stem
            out.append({"kinds": ["VARCHAR"], "rows": [[c], [stem], [None], [c]], "cuts": [2]})
    # descending / ascending runs of values that share everything but the last character, next to a short value
    g = "αβγδεζηθικλμνξοπρστυφχψω" * 2
    for n in (w // 2 + 1, w - 1, w):
        st = g[: n - 1]
        out.append({"kinds": ["VARCHAR"], "rows": [[st + "ω"], [st + "α"], [st + "ω"], [None], ["b"]], "cuts": [2]})
        out.append({"kinds": ["VARCHAR", "INTEGER"], "rows": [[st + "α", 1], [st + "β", 2], [st + "γ", 3]], "cuts": [1, 2]})
    return out


def twin_cases():
    """Two frames with identical rows and different column names / order (and the same names bound to the schema another
    way), profiled back to back; each must be described by its own names."""
    out = []
    rows2 = [[1, 50], [2, None], [3, 70], [None, 80], [-4, None], [0, 100]]
    out.append({"kinds": ["INTEGER", "INTEGER"], "rows": rows2, "twin": {"names": ["c1", "c0"]}})
    out.append({"kinds": ["INTEGER", "INTEGER"], "rows": rows2, "twin": {"names": ["low", "high"]}, "cuts": [3]})
    out.append({"kinds": ["INTEGER", "VARCHAR", "DOUBLE"], "rows": [[3, "b", 0.5], [None, None, -1.5], [0, "a", None]], "twin": {"names": ["c2", "c0", "c1"]}})
    out.append({"kinds": ["INTEGER", "VARCHAR"], "rows": [[3, "b"], [None, "a"]], "twin": {"names": ["c1", "c0"]}, "lazy": True})
    out.append({"kinds": ["DATE", "TIMESTAMP"], "rows": [[0, 86400], [None, 5], [DATE_MAX, None]], "twin": {"names": ["c1", "c0"]}})
    out.append({"kinds": ["INTEGER"], "rows": [[0], [None], [5]], "twin": {"names": ["other"]}})
    out.append({"kinds": ["INTEGER", "INTEGER"], "rows": rows2, "twin": {"names": ["c0", "c1"]}})  # same names: nothing to tell apart
    for e in ENTRIES:
        out.append({"kinds": ["INTEGER", "DOUBLE"], "entry": e, "rows": [[1, None], [None, 2.5], [3, -0.5]], "twin": {"names": ["c1", "c0"]}})
    urows = [[0, "a"], [None, "b"], [2, None], [None, None], [1.5, "c"]]
    for sch in (None,) + SCHEMAS:
        for tsch in SCHEMAS:
            c = {"kinds": ["UNTYPED", "UNTYPED"], "rows": urows, "twin": {"names": ["c1", "c0"], "schema": tsch}}
            if sch:
                c["schema"] = sch
            out.append(c)
            out.append(dict(c, twin={"names": ["c0", "c1"], "schema": tsch}))  # same names, bound to the schema another way
    return out


OVERLAP_D = (1, 2, 15, 16, 17, 24, 31, 32, 33, 40)
OVERLAP_KINDS = ["INTEGER", "VARCHAR", "TIMESTAMP"]


def _overlap_batches(d, overlap, operands):
    """Index sets (into d distinct values) of `operands` batches: 'full' — every batch holds all d values; 'half' — each batch
    lacks a different stretch of about d/4 (d/3) values, the rest recur in all of them; 'disjoint' — the d values are dealt out.
    Every value occurs in some batch; None when the shape does not exist for this d."""
    ix = list(range(d))
    if overlap == "full":
        return [ix] * operands
    if d < operands:
        return None
    if overlap == "disjoint":
        step = -(-d // operands)
        return [ix[i * step: (i + 1) * step] for i in range(operands)]
    gap = max(d // (operands + 2), 1)
    return [[i for i in ix if not (b * gap <= i < (b + 1) * gap)] for b in range(operands)]


def _overlap_values(kind, d):
    if kind == "INTEGER":
        return [i - 5 for i in range(d)]
    if kind == "VARCHAR":
        return ["shop-%d" % i for i in range(d)]
    return [86400 * i + 7 for i in range(d)]  # TIMESTAMP: epoch seconds


def overlap_sum_cases(ctx):
    """Sums of batch profiles whose sketches overlap: columns (integer, text, temporal side by side) with d distinct values, d
    around half the sketch size and the sketch size, recurring in two or three batches — disjoint, half shared, all shared.
    By hand (profile + profile, both groupings of three) for the whole grid; as frames above the morsel size (the first
    morsels cycle through the first batch's values, the last morsel is spelled out) for a part of it (quick) / all (thorough)."""
    kvm, b = consts()["kvm"], consts()["batch"]
    grid = sorted({1, 2, kvm // 2 - 1, kvm // 2, kvm // 2 + 1, (3 * kvm) // 4, kvm - 1, kvm, kvm + 1, kvm + 8} | set(OVERLAP_D))
    thorough = ctx.scale(0, 1) == 1
    # quick tier: every d x overlap with two operands by hand, three operands around the sketch size; three frames above the morsel size
    quick_big = {((3 * kvm) // 4, "full", 2), (kvm - 1, "half", 2), (kvm // 2 + 1, "full", 3)}
    quick_three = {kvm // 2 + 1, (3 * kvm) // 4, kvm - 1, kvm + 1}
    vals = {k: _overlap_values(k, max(grid)) for k in OVERLAP_KINDS}
    out = []
    for d in grid:
        for overlap in ("disjoint", "half", "full"):
            for operands in (2, 3):
                sets = _overlap_batches(d, overlap, operands)
                if sets is None or (operands == 3 and not thorough and d not in quick_three):
                    continue
                batches = [[[vals[k][i] for k in OVERLAP_KINDS] for i in ixs] for ixs in sets]
                label = "d=%d:%s:%d operands" % (d, overlap, operands)
                rows = [r for bt in batches for r in bt]
                cuts, at = [], 0
                for bt in batches[:-1]:
                    at += len(bt)
                    cuts.append(at)
                out.append({"kinds": list(OVERLAP_KINDS), "rows": rows, "cuts": cuts, "overlap": label})
                if thorough or (d, overlap, operands) in quick_big:
                    # the first operands-1 morsels cycle through the first batch's values (each holds all of them), the last
                    # morsel is the last batch, every value twice
                    tail = [r for r in batches[-1] for _ in range(2)]
                    out.append({"kinds": list(OVERLAP_KINDS), "gen": {"n": b * (operands - 1) + len(tail), "pattern": batches[0], "tail": tail},
                                "overlap": label})
    return out


def three_batch_cases():
    """Three batches whose first two share no value and whose third repeats one of them (a | b | a), added by hand in both
    groupings: a sum that holds values and lists none must not adopt a later batch's list with that batch's counts."""
    out = []
    for k in ("INTEGER", "DOUBLE", "DECIMAL", "VARCHAR", "DATE", "TIMESTAMP"):
        a, b = SMALL[k][0], SMALL[k][-1]
        out.append({"kinds": [k], "rows": [[a], [a], [b], [b], [a]], "cuts": [2, 4]})
        out.append({"kinds": [k], "rows": [[a], [b], [b], [a], [a], [b]], "cuts": [1, 3]})
        out.append({"kinds": [k], "rows": [[a], [None], [b], [a], [None]], "cuts": [1, 2, 3, 4]})
    return out


def edge_cases():
    """Hand-picked boundary frames (run first)."""
    out = []
    # a true extreme of 0 on either side of a cut; negatives; truncation toward zero
    out.append({"kinds": ["INTEGER"], "rows": [[0], [5], [3]], "cuts": [1, 2]})
    out.append({"kinds": ["INTEGER"], "rows": [[-5], [0], [-3]], "cuts": [1, 2]})
    out.append({"kinds": ["DOUBLE"], "rows": [[-0.5], [1.5], [-1.75], [0.0]], "cuts": [1, 2, 3]})
    out.append({"kinds": ["DECIMAL"], "rows": [["-0.50"], ["1.50"], [None], ["1.5"]], "cuts": [1, 2, 3]})
    # negative zero is the number 0 (one value, no transition, extremes 0)
    out.append({"kinds": ["DOUBLE"], "rows": [[0.0], [-0.0], [1.5]], "cuts": [1, 2]})
    out.append({"kinds": ["DOUBLE"], "rows": [[-0.0], [None], [0.0], [-0.5]], "cuts": [1, 2, 3]})
    # all-null columns of every kind, nulls first / last
    for k in KINDS:
        a = SMALL[k][0]
        out.append({"kinds": [k], "rows": [[None], [None]], "cuts": [1]})
        out.append({"kinds": [k], "rows": [[None], [a]], "cuts": [1]})
        out.append({"kinds": [k], "rows": [[a], [None], [None]], "cuts": [1, 2]})
        out.append({"kinds": [k], "rows": [[a]]})
    # a batch without rows on either side (its table profile has no columns at all)
    for k in KINDS:
        a = SMALL[k]
        out.append({"kinds": [k], "rows": [[a[0]], [None], [a[-1]]], "cuts": [0, 3]})
    out.append({"kinds": ["INTEGER", "VARCHAR", "DATE"], "rows": [[1, "a", 0], [None, None, None], [3, "b", DATE_MAX]], "cuts": [0, 3], "lazy": True})
    # text keys: short strings, shared 8-byte and 64-character prefixes, non-ASCII
    out.append({"kinds": ["VARCHAR"], "rows": [["ab"], ["b"]], "cuts": [1]})
    out.append({"kinds": ["VARCHAR"], "rows": [["aé"], ["b"], [""]], "cuts": [1, 2]})
    out.append({"kinds": ["VARCHAR"], "rows": [["x" * 64 + "a"], ["x" * 64 + "b"], ["x" * 64 + "b"], ["x" * 63]], "cuts": [2]})
    out.append({"kinds": ["VARCHAR"], "rows": [["abcdefgh"], ["abcdefghi"], ["abcdefgz"], ["\U0001f600"], ["日本語"]], "cuts": [2, 3]})
    # every temporal cell form, null first and not first (the two branches of DateProfiler), across cuts
    for k, fs in RANDOM_FORMS.items():
        vals = [0, -1, 19000] if k == "DATE" else [1, -1, 1700000000]
        for f in fs:
            out.append({"kinds": [k], "cells": [f], "rows": [[vals[0]], [None], [vals[1]], [vals[2]]], "cuts": [1, 2, 3]})
            out.append({"kinds": [k], "cells": [f], "rows": [[None], [vals[0]], [vals[1]], [vals[1]]], "cuts": [1, 2]})
    # DECIMAL with nulls anywhere; lazily backed frames
    out.append({"kinds": ["DECIMAL"], "rows": [[None], ["-2.50"], ["0"], [None], ["7.125"], ["0.0"]], "cuts": [1, 2, 3, 4, 5]})
    out.append({"kinds": ["INTEGER", "VARCHAR", "TIMESTAMP"], "lazy": True, "rows": [[3, "b", 5], [None, None, None], [0, "a", -5], [-2, "", 0]], "cuts": [1, 2, 3]})
    # the other public entry points
    for e in ENTRIES:
        out.append({"kinds": ["INTEGER", "VARCHAR", "DATE"], "entry": e, "rows": [[3, "b", DATE_MAX], [None, None, None], [0, "a", -5], [-2, "", 0], [0, "a", -5]], "cuts": [1, 3]})
    # a frame one row above the batch size whose last batch is a single null row (histogram of the sum)
    b = consts()["batch"]
    pat = [[5], [5], [3], [0], [0], [-2], [7]]
    pat[b % 7] = [None]
    out.append({"kinds": ["INTEGER"], "gen": {"n": b + 1, "pattern": pat}})
    # ... and frames whose FIRST batch is all null: the sum must keep the sketch and the listed values of the other side
    out.append({"kinds": ["INTEGER", "VARCHAR"], "gen": {"n": b + 2, "nulls_first": b, "pattern": [[3, "x"], [3, "y"]]}})
    out.append({"kinds": ["TIMESTAMP"], "gen": {"n": 2 * b + 1, "nulls_first": b, "pattern": [[7]]}, "lazy": True})
    # 31 / 32 / 33 distinct values, with a tie at the cut-off of the most-frequent list
    for d in (31, 32, 33, 40):
        out.append({"kinds": ["INTEGER"], "rows": [[i] for i in range(d)]})
        out.append({"kinds": ["INTEGER", "VARCHAR"], "rows": [[i % d, "v%d" % (i % d)] for i in range(d + 5)] + [[d - 1, "v%d" % (d - 1)]] * 2})
        out.append({"kinds": ["TIMESTAMP"], "rows": [[(i * 7) % d] for i in range(2 * d)][: 2 * d - 3]})
    return out


def temporal_range_cases():
    """Dates and instants over the whole range the statement allows (year 1..9999) in every cell form and through
    every Arrow type: alone (a wrapped conversion shows on one cell), together, null first and not first (the two
    ways DateProfiler picks its path), across cuts."""
    out = []
    for k in TEMPORAL:
        pool = DATE_POOL if k == "DATE" else TS_POOL
        far = [pool[0], pool[-1]] if k == "DATE" else [TS_MIN, TS_MAX, [TS_MAX, 999999], [TS_MIN, 1]]
        for f in RANDOM_FORMS[k]:
            out.append({"kinds": [k], "cells": [f], "rows": [[v] for v in pool], "cuts": [1, len(pool) // 2]})
            out.append({"kinds": [k], "cells": [f], "rows": [[None]] + [[v] for v in reversed(pool)] + [[pool[0]]]})
            for v in pool:
                out.append({"kinds": [k], "cells": [f], "rows": [[v]]})
            for v in far:
                out.append({"kinds": [k], "cells": [f], "rows": [[0], [v], [None]], "cuts": [1]})
        for t in ARROW[k]:
            fits = [v for v in pool if arrow_holds(t, v)]
            out.append({"kinds": [k], "arrow": [t], "rows": [[fits[0]], [None]] + [[v] for v in fits[1:]], "cuts": [1, 2]})
            out.append({"kinds": [k], "arrow": [t], "rows": [[None]] + [[v] for v in reversed(fits)]})
            for v in (fits[0], fits[-1], fits[len(fits) // 2]):
                out.append({"kinds": [k], "arrow": [t], "rows": [[v]]})
    out.append({"kinds": ["DATE", "TIMESTAMP"], "arrow": ["date32", "timestamp[us]"],
                "rows": [[DATE_MAX, [TS_MAX, 999999]], [None, None], [DATE_MIN, TS_MIN], [0, -1]], "cuts": [1, 2, 3]})
    # one frame object: an ordinary date, then the customary "end of time" and a date before 1677 arrive by append
    out.append({"kinds": ["DATE", "TIMESTAMP"], "rows": [[18000, 1600000000]],
                "appends": [[[DATE_MAX, TS_MAX]], [[_days(1600, 1, 1), [TS_MIN, 1]], [None, None]]]})
    return out


def exhaustive_cases(nmax):
    for k in KINDS:
        alpha = [None] + SMALL[k]
        for n in range(1, nmax + 1):
            for combo in itertools.product(alpha, repeat=n):
                c = {"kinds": [k], "rows": [[v] for v in combo]}
                c["cuts"] = list(range(0, n + 1))  # every way of cutting, a batch without rows included
                yield c


KNOWN_STREAM = [
    {"kinds": ["INTEGER"], "rows": [[TWO53 + 1], [TWO53 + 3], [1]]},
    {"kinds": ["INTEGER"], "rows": [[TWO53 + 1], [TWO53], [TWO53 + 1], [0]]},
    {"kinds": ["INTEGER"], "rows": [[INT64_MIN], [5]]},
    {"kinds": ["INTEGER"], "rows": [[2**47], [2**47]]},
    {"kinds": ["INTEGER"], "rows": [[2**50], [2**50 + 1], [None]], "cuts": [1]},
    {"kinds": ["DOUBLE"], "rows": [[1.5], [float("nan")], [None]]},
    {"kinds": ["DOUBLE"], "rows": [[1e-07], [0.25]]},
    {"kinds": ["DOUBLE"], "rows": [[0.1234567], [0.1234568], [0.1234568]]},
    {"kinds": ["TIMESTAMP"], "cells": ["aware_lmt"], "rows": [[-2195899761], [0], [None]]},
    {"kinds": ["TIMESTAMP"], "cells": ["aware_lmt"], "rows": [[-2840079838], [-2840079838], [5]], "cuts": [1]},
    {"kinds": ["TIMESTAMP"], "cells": ["aware_lmt"], "rows": [[21], [0], [0]]},
]


def run(ctx):
    ctx.note("rule", "one case = one typed frame (1-3 columns) profiled through DataFrame.profile, plus its cuts; "
             "non-trivial = at least two rows or at least one cut; distinct by canonical JSON of the case")
    ctx.note("assumptions", [
        "numpy.histogram and the hash of the sketch (xxhash) are parameters: the histogram is judged by its mass only, "
        "the hash is observed from the implementation (sketch of a one-row column) and handed to the model as a table",
        "generated numbers stay where float() is exact, labels are exact and numpy.histogram can make its bins: |integers| < 2**46, "
        "doubles that are multiples of 1/64 or whole, decimals with at most 6 fractional digits; NaN/inf, integers beyond 2**53, "
        "-2**63, narrow ranges of large integers, doubles needing more than six decimals and the frequencies of frames above the "
        "batch size are open findings (K01-K06) exercised by their own stream",
        "text values are profiled by their first 64 characters (SIXTY_FOUR_BYTES); an instant with a sub-second part is the whole seconds "
        "elapsed since the epoch (floor, also before 1970); tz-aware cells use whole-minute UTC offsets (a seconds part is open finding K07)",
    ])
    import time

    stage = {}
    t0 = [time.time()]

    def lap(name):
        now = time.time()
        stage[name] = round(stage.get(name, 0) + now - t0[0], 1)
        t0[0] = now

    evaluate(ctx, edge_cases())
    lap("edge")
    evaluate(ctx, temporal_range_cases())
    lap("temporal-range")
    evaluate(ctx, sequence_edge_cases())
    evaluate(ctx, schema_edge_cases())
    lap("sequence-edge")
    evaluate(ctx, text_boundary_cases())
    evaluate(ctx, twin_cases())
    evaluate(ctx, three_batch_cases())
    lap("text-window+twins+three-batches")
    mc = morsel_cases(ctx)
    evaluate(ctx, mc)
    lap("morsels")
    ctx.note("morsel_frames", "%d frames at and above the morsel size %d (sizes %r) over list-of-names, dictionary-built, RelationSchema "
             "and arrow-backed frames; arrow reader batch %d" % (len(mc), consts()["batch"], [consts()["batch"] - 1, consts()["batch"],
                                                                 consts()["batch"] + 1, 2 * consts()["batch"] + 3], reader_batch()))
    oc = overlap_sum_cases(ctx)
    evaluate(ctx, oc)
    lap("overlapping-sketches")
    ctx.note("overlapping_sketches", "%d sums of batch profiles over columns with d distinct values (d in %r) recurring in 2 and 3 batches "
             "(disjoint / half / all shared), integer, text and temporal columns side by side: %d by hand, %d as frames above the morsel size"
             % (len(oc), sorted({int(c["overlap"].split(":")[0][2:]) for c in oc}), sum(1 for c in oc if "gen" not in c), sum(1 for c in oc if "gen" in c)))
    cc = collision_cases()
    evaluate(ctx, cc)
    lap("collisions")
    ctx.note("hash_collisions", {k: "%d of %d stored groups still collide under the implementation's hash" % (len(live_groups(k)), len(load_collisions().get(k, [])))
                                 for k in ("VARCHAR", "INTEGER", "DOUBLE", "DECIMAL", "TIMESTAMP", "DATE")})
    nmax = ctx.scale(3, 5)
    batch = []
    total = 0
    for c in exhaustive_cases(nmax):
        batch.append(c)
        if len(batch) >= 1500:
            evaluate(ctx, batch)
            total += len(batch)
            batch = []
    evaluate(ctx, batch)
    total += len(batch)
    lap("exhaustive")
    ctx.note("exhaustive_scope", "every column of 1..%d rows over {null, 2-3 values} for each of the %d kinds, with every cut (%d frames); then random"
             % (nmax, len(KINDS), total))
    evaluate(ctx, [dict(c) for c in KNOWN_STREAM])
    nbig = ctx.scale(2, 12)
    evaluate(ctx, [big_case(ctx, i) for i in range(nbig)])
    lap("known+big")
    n_random = ctx.scale(2500, 30000)
    done = 0
    while done < n_random and (ctx.time_left() > ctx.scale(12, 60) or done == 0):
        # (the deterministic streams above always run; whatever they cost, one batch of random cases follows them)
        k = min(500 if ctx.time_left() > ctx.scale(12, 60) else 250, n_random - done)
        evaluate(ctx, [random_sequence(ctx) if i % 6 == 5 else random_case(ctx) for i in range(k)])
        done += k
    lap("random")
    ctx.note("random_cases", done)
    ctx.note("stage_seconds", stage)


def intensify(ctx):
    done = 0
    n = ctx.scale(4000, 40000)
    while done < n and ctx.time_left() > 5:
        evaluate(ctx, [random_sequence(ctx) if i % 6 == 5 else random_case(ctx) for i in range(500)])
        done += 500


def replay(ctx, case):
    evaluate(ctx, [case])


# --------------------------------------------------------------------------- known findings
#
# Every predicate matches (1) the input class of its finding and (2) a failure that the known defect
# *explains*: the reported profile is recomputed under the defect's own semantics (values rounded through
# float(), -2**63 read as a null, labels cut to six decimals, numpy.histogram refusing the data, batch
# profiles summed the way ColumnProfile.__add__ sums them) and must be exactly that.  Anything else on the
# same inputs is reported as a violation.  A failure of a sequence case is never a known finding.


def _column(case, failure):
    """(kind, column cells with nulls, clause kind, judged profile) of the failing column, or Nones."""
    det = failure.get("detail") or {}
    j = det.get("col")
    if "appends" in case:
        return None, None, None, None
    if j is None:
        j = 0 if len(case["kinds"]) == 1 else None
    if j is None:
        return None, None, None, None
    rows = expand(case)
    return case["kinds"][j], [r[j] for r in rows], det.get("what"), det.get("got")


def _explained(kind, vals, got):
    """The judged profile is the exact profile of `vals` (what the defect turns the column into)."""
    if not isinstance(got, dict) or "raised" in got or got.get("absent"):
        return False
    try:
        return oracle_column(kind, vals, got, model_side=True) is None
    except Exception:
        return False


def k_int_beyond_2_53(case, failure):
    kind, vals, what, got = _column(case, failure)
    if kind != "INTEGER" or not any(v is not None and abs(v) > TWO53 for v in vals):
        return False
    if what not in ("extremes", "mfv", "cardinality", "order", "transitions"):
        return False
    if len(vals) > consts()["batch"]:
        return False
    # the profile is that of the column after float(): int(float(v)) for every cell
    return _explained("INTEGER", [None if v is None else int(float(v)) for v in vals], got)


def _histogram_refuses(floats):
    import numpy

    if not floats:
        return False
    try:
        with warnings.catch_warnings():
            warnings.simplefilter("ignore")
            numpy.histogram(floats, bins=50)
        return False
    except ValueError as e:
        return "Too many bins" in str(e)


def k_histogram_bins(case, failure):
    what = (failure.get("detail") or {}).get("what")
    if what not in ("raised", "add-raised") or "Too many bins" not in failure["clause"] or "appends" in case:
        return False
    rows = expand(case)
    b = consts()["batch"]
    pieces = [rows[i: i + b] for i in range(0, len(rows), b)]
    if what == "add-raised":
        pieces = [p for cut in case.get("cuts", []) for p in (rows[:cut], rows[cut:])]
    for j, k in enumerate(case["kinds"]):
        if k not in NUMERIC:
            continue
        for piece in pieces:
            nn = [r[j] for r in piece if r[j] is not None]
            if non_finite(k, nn) or not any(abs(exact(k, v)) > BINS_SAFE for v in nn):
                continue
            # numpy.histogram itself cannot cut this data into 50 bins
            if _histogram_refuses([float(exact(k, v)) for v in nn if exact(k, v) != INT64_MIN]):
                return True
    return False


def _summed_the_way_add_sums(kind, vals):
    """What ColumnProfile.__add__ makes of the batch profiles of a frame above the batch size (finding K06):
    listed values = those listed in every batch that holds values, counts summed; transitions = the sum of
    the batches' transitions plus one per addition; order = `0 if equal else left`; the sketch is the set of
    the batches' hashes, so values whose hashes collide count once."""
    b = consts()["batch"]
    from collections import Counter

    mfv = None
    order = None
    trans = 0
    first = True
    for i in range(0, len(vals), b):
        ex = [exact(kind, v) for v in vals[i: i + b] if v is not None]
        o, t = expected_order(ex) if ex else (None, 0)
        top = dict(Counter(ex).most_common(consts()["mfv"]))
        if first:
            order, trans, mfv, first = o, t, (top if ex else None), False
            continue
        trans += t + 1
        order = 0 if order == o else order
        if ex:
            mfv = top if mfv is None else {v: c + top[v] for v, c in mfv.items() if v in top}
    nn = [v for v in vals if v is not None]
    hashes = set()
    seen = set()
    for v in nn:
        key = v if kind == "VARCHAR" else exact(kind, v)
        if key not in seen:
            seen.add(key)
            hashes.add(impl_hash(kind, v))
    return {"mfv": mfv or {}, "order": order, "transitions": trans, "card": len(hashes)}


def k_batched_frequencies(case, failure):
    kind, vals, what, got = _column(case, failure)
    if kind is None or len(vals) <= consts()["batch"] or what not in ("mfv", "cardinality", "order", "transitions"):
        return False
    if not isinstance(got, dict) or "raised" in got or got.get("absent"):
        return False
    if non_finite(kind, [v for v in vals if v is not None]):
        return False
    want = _summed_the_way_add_sums(kind, vals)
    if what == "order":
        return kind in NUMERIC + ("VARCHAR",) and got.get("order") == want["order"]
    if what == "transitions":
        return kind in NUMERIC + ("VARCHAR",) and got.get("transitions") == want["transitions"]
    if what == "cardinality":
        return got.get("card") == want["card"]
    try:
        listed = {parse_label(kind, l): c for l, c in got.get("mfv", [])}
    except (ValueError, ArithmeticError):
        return False
    return len(listed) == len(got.get("mfv", [])) and listed == want["mfv"]


def k_int64_min_sentinel(case, failure):
    kind, vals, what, got = _column(case, failure)
    if kind != "INTEGER" or INT64_MIN not in vals or what != "missing" or len(vals) > consts()["batch"]:
        return False
    # the profile is that of the column with every -2**63 read as a null
    return _explained("INTEGER", [None if v == INT64_MIN else v for v in vals], got)


def k_non_finite(case, failure):
    what = (failure.get("detail") or {}).get("what")
    if what != "raised" or "appends" in case:
        return False
    rows = expand(case)
    bad = any(k == "DOUBLE" and non_finite(k, [r[j] for r in rows if r[j] is not None]) for j, k in enumerate(case["kinds"]))
    if not bad:
        return False
    return "ValueError: cannot convert float" in failure["clause"] or "OverflowError: cannot convert float" in failure["clause"]


def k_six_decimals(case, failure):
    kind, vals, what, got = _column(case, failure)
    if kind not in ("DOUBLE", "DECIMAL") or what != "mfv" or len(vals) > consts()["batch"]:
        return False
    nn = [v for v in vals if v is not None]
    if non_finite(kind, nn) or not any((exact(kind, v) * 10**6).denominator != 1 for v in nn):
        return False
    if not isinstance(got, dict) or "raised" in got or got.get("absent"):
        return False
    # the list is the exact most-frequent list of the column, every value printed with six decimals
    from collections import Counter

    def label(x):
        return ("%f" % float(x)).rstrip("0").strip(".")

    counts = Counter(exact(kind, v) for v in nn)
    have = Counter((label(x), c) for x, c in counts.items())
    listed = Counter((str(l), c) for l, c in got.get("mfv", []))
    if sum(listed.values()) != min(consts()["mfv"], len(counts)) or any(listed[e] > have[e] for e in listed):
        return False
    low = min(c for _, c in listed) if listed else 0
    unlisted = have - listed
    return all(c <= low for (_, c) in unlisted)


def k_subminute_offset(case, failure):
    """K07: tz-aware datetimes whose UTC offset has a seconds part — numpy (which DateProfiler hands them to) drops
    the seconds of the offset, so the cell is reported `offset mod 60` seconds away from its instant.  The judged
    profile (or sum) must be the exact profile of the column shifted that way."""
    det = failure.get("detail") or {}
    j = det.get("col")
    if "appends" in case or "arrow" in case or not case.get("cells"):
        return False
    if j is None:
        j = 0 if len(case["kinds"]) == 1 else None
    if j is None or case["kinds"][j] != "TIMESTAMP" or case["cells"][j] != "aware_lmt":
        return False
    rows = expand(case)
    if len(rows) > consts()["batch"] or det.get("what") not in ("extremes", "mfv", "cardinality", "additive"):
        return False

    def shifted(v):
        if v is None:
            return None
        sec, us = ts_parts(v)
        off = lmt_offset(sec)
        if off is None:
            return sec
        rem = off - 60 * int(off / 60)  # the seconds numpy drops (toward zero)
        return sec + rem

    vals = [r[j] for r in rows]
    if not any(v is not None and lmt_offset(ts_parts(v)[0]) is not None for v in vals):
        return False
    if det.get("what") == "additive":
        # both the whole profile and the sum are profiles of the shifted column: the sum's core must be that
        m = re.search(r"has count/missing/min/max (\[.*?\]), the profile", failure.get("clause", ""))
        sh = [shifted(v) for v in vals if v is not None]
        want = [len(vals), len(vals) - len(sh), min(sh) if sh else None, max(sh) if sh else None]
        return bool(m) and m.group(1) == repr(want)
    return _explained("TIMESTAMP", [shifted(v) for v in vals], det.get("got"))


KNOWN_PREDICATES = {
    "subminute_utc_offset": k_subminute_offset,
    "int_beyond_2_53": k_int_beyond_2_53,
    "histogram_bins_narrow_range": k_histogram_bins,
    "batched_frequencies": k_batched_frequencies,
    "int64_min_sentinel": k_int64_min_sentinel,
    "non_finite_double": k_non_finite,
    "more_than_six_decimals": k_six_decimals,
}
