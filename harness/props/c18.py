"""C18 — Rendering a DataFrame never fails and shows the right rows.

Case kinds
  sel     frames of n rows with distinct integer cells; labels and shown rows are parsed back from
          the rendering (ascii_table / DataFrame.display / str) and compared with the statement
          (oracle), with Model/Display.lean `visible` (correspondence) — and the statement's mirror
          with the model (three-way; a mismatch there is an infrastructure error).
  render  frames over the modelled cell kinds with ASCII content (control characters included);
          the model's token-level lines, with colour tokens substituted the way `colorizer` does, are
          compared with the real output for colour off and on; the oracle checks never-fails, the
          labels, the column names / types and — for printable-ASCII content — equal printed width
          of all box lines within the display width.
  total   frames over every value kind of the statement (any Unicode, arbitrary bytes, numpy
          scalars/arrays, intervals …), eager and lazy, through display / markdown / str /
          ascii_table: the oracle is "completes without error".
  decode  bytes.decode("utf-8", errors=strict|replace) against the model's decoder (a parameter of
          the model: a mismatch is an infrastructure error, not a violation).
  markdown frames with any (wire-encodable) text through DataFrame.markdown: never-fails oracle, and the
          whole text compared with Model/Display.lean `markdownLines` (cells arrive as str(v)).
  td      one numpy.timedelta64 (every unit numpy has and none, steps, the whole 64-bit range of counts) through
          ascii_table in a wide column: never-fails oracle; the branch of numpy_type_mapper as extracted
          (Model/DisplayTd.lean `mapTd`) against what the unit means, and the interval shown against the double
          quotient of the extracted numerator / denominator.
  colorize strings made of colour tokens, damaged tokens, escapes and text through `colorizer`
          against the model's sequential `replaceAll` over the extracted COLORS table.

The Lean model executes the arithmetic extracted from the source on this run (`srcArith`), so the
oracle is always evaluated first: on a mutated source the model follows the mutation and only the
oracle (and the `src_*` theorems) can tell.
"""
import datetime
import decimal
import json
import os
import re
import unicodedata
import warnings

from .. import wire
from ..core import VERIF, InfraError, shrink

ANSI = re.compile(r"\x1b\[[0-9;]*m")
BOX_FIRST = "┌│╞└"
BOX_CHARS = "┌─┬┐│╞═╪╡└┴┘↵"
PRINTABLE = "".join(chr(i) for i in range(32, 127))

# --------------------------------------------------------------------------- values


def mk(spec):
    """Build the Python value a cell spec denotes."""
    import numpy

    k = spec[0]
    if k == "none":
        return None
    if k in ("bool", "int", "float", "str", "bytes"):
        return spec[1]
    if k == "bytearray":
        return bytearray(spec[1])
    if k == "dec":
        return decimal.Decimal(spec[1])
    if k == "date":
        return datetime.date(*spec[1])
    if k == "datetime":  # [y, m, d, H, M, S, us] and optionally a zone: minutes east of UTC, or the name of a zone
        return datetime.datetime(*spec[1][:7], tzinfo=mk_zone(spec[1][7])) if len(spec[1]) > 7 else datetime.datetime(*spec[1])
    if k == "time":  # [H, M, S, us] and optionally a zone
        return datetime.time(*spec[1][:4], tzinfo=mk_zone(spec[1][4])) if len(spec[1]) > 4 else datetime.time(*spec[1])
    if k == "intpow":  # sign * base ** exp + add: integers of thousands of digits without writing the digits into the case
        return spec[1][0] * spec[1][1] ** spec[1][2] + spec[1][3]
    if k == "strrep":
        return spec[1][0] * spec[1][1]
    if k == "bytesrep":
        return spec[1][0] * spec[1][1]
    if k == "timedelta":
        return datetime.timedelta(days=spec[1][0], seconds=spec[1][1], microseconds=spec[1][2])
    if k == "td64":
        n, unit = spec[1][0], spec[1][1]
        step = spec[1][2] if len(spec[1]) > 2 else 1
        if unit == "generic":
            return numpy.timedelta64(n)
        return numpy.timedelta64(n, unit) if step == 1 else numpy.timedelta64(n, (unit, step))
    if k == "dt64":  # ISO text, or [count, unit]: the 64-bit count of ticks since the epoch
        return numpy.datetime64(spec[1][0], spec[1][1]) if isinstance(spec[1], list) else numpy.datetime64(spec[1])
    if k == "mdn":
        import pyarrow

        return pyarrow.MonthDayNano(spec[1])
    if k == "list":
        return [mk(x) for x in spec[1]]
    if k == "tuple":
        return tuple(mk(x) for x in spec[1])
    if k == "set":
        return set(mk(x) for x in spec[1])
    if k == "frozenset":
        return frozenset(mk(x) for x in spec[1])
    if k == "dict":
        return {mk(a): mk(b) for a, b in spec[1]}
    if k == "np":
        return getattr(numpy, spec[1])(mk(spec[2]) if isinstance(spec[2], list) else spec[2])
    if k == "nparr":
        return numpy.array([mk(x) for x in spec[2]], dtype=spec[1])
    if k == "nparr0":
        return numpy.array(spec[2], dtype=spec[1])
    if k == "complex":
        return complex(spec[1][0], spec[1][1])
    raise ValueError("bad cell spec %r" % (spec,))


def mk_zone(z):
    if isinstance(z, int):
        return datetime.timezone(datetime.timedelta(minutes=z))
    import zoneinfo

    return zoneinfo.ZoneInfo(z)


def printable(s):
    return all(32 <= ord(c) < 127 for c in s)


def ascii_safe(v):
    import numpy

    if isinstance(v, str):
        return printable(v)
    if isinstance(v, (bytes, bytearray)):
        return all(32 <= b < 127 for b in v)
    if isinstance(v, dict):
        return all(ascii_safe(a) and ascii_safe(b) for a, b in v.items())
    if isinstance(v, (list, tuple, set, frozenset)):
        return all(ascii_safe(x) for x in v)
    if isinstance(v, numpy.ndarray):
        return ascii_safe(v.tolist())
    return printable(str(v))


def interval_parts(days, months, seconds):
    """Text pieces of an interval cell (display.py: the `hasattr(value, "days")` branch); str()/f-string
    formatting of numbers is a parameter of the model, so the pieces are computed here."""
    hours, seconds = divmod(seconds, 3600)
    minutes, seconds = divmod(seconds, 60)
    years, months = divmod(months, 12)
    parts = []
    if years:
        parts.append(f"{int(years)}y")
    if months:
        parts.append(f"{int(months)}mo")
    if days:
        parts.append(f"{int(days)}d")
    if hours:
        parts.append(f"{int(hours)}h")
    if minutes:
        parts.append(f"{int(minutes)}m")
    if seconds:
        parts.append(f"{seconds:.2f}s")
    return parts


# what numpy's timedelta64 units mean (the reference): months per tick; (seconds, ticks per second)
TD_MONTHS = {"Y": 12, "M": 1}
TD_SECONDS = {"W": (604800, 1), "D": (86400, 1), "h": (3600, 1), "m": (60, 1), "s": (1, 1), "generic": (1, 1), "ms": (1, 10**3),
              "us": (1, 10**6), "ns": (1, 10**9), "ps": (1, 10**12), "fs": (1, 10**15), "as": (1, 10**18)}
TD_UNITS = ["Y", "M", "W", "D", "h", "m", "s", "ms", "us", "ns", "ps", "fs", "as", "generic"]


def td64_fields(v):
    """(unit, step, raw 64-bit count) of a numpy.timedelta64 that is not NaT."""
    import numpy

    unit, step = numpy.datetime_data(v.dtype)[:2]
    return unit, int(step), int(v.astype("int64"))


def td64_quotient_parts(n, d, day_floor=86400, day_mod=86400):
    """Text pieces of the interval whose length is the double quotient float(n) / d seconds (display.py: the
    timedelta branch of numpy_type_mapper, then the `hasattr(value, "days")` branch): double arithmetic is a parameter."""
    seconds = float(n) / d
    days = int(seconds // day_floor)
    nanos = (seconds % day_mod) * 1e9
    return interval_parts(days, 0, nanos / 1e9)


def td64_parts(unit, step, raw):
    """The pieces for a value of a fixed unit: the double quotient numpy forms (both sides in their common unit)."""
    import math

    if unit in TD_MONTHS:
        return []
    length, per = TD_SECONDS[unit]
    g = math.gcd(step * length, per)
    return td64_quotient_parts(raw * (step * length // g), per // g)


def tag_cell(v):
    """Python value -> the model's cell kind (only for kinds the render correspondence sends)."""
    import math

    import numpy

    if isinstance(v, numpy.timedelta64):
        if numpy.isnat(v):
            return ["null"]
        unit, step, raw = td64_fields(v)
        return ["td64", unit, step, raw, td64_parts(unit, step, raw) if unit in TD_SECONDS or unit in TD_MONTHS else [], len(str(v))]
    if v is None or (isinstance(v, float) and math.isnan(v)):
        return ["null"]
    if isinstance(v, bool):
        return ["bool", v]
    if isinstance(v, int):
        return ["int", v]
    if isinstance(v, (float, decimal.Decimal)):
        return ["num", str(v), len(str(v))]
    if isinstance(v, str):
        return ["text", v]
    if isinstance(v, datetime.datetime):
        return ["datetime", v.strftime("%Y-%m-%d"), v.strftime("%H:%M:%S"), len(str(v))]
    if isinstance(v, datetime.date):
        return ["date", v.strftime("%Y-%m-%d"), len(str(v))]
    if isinstance(v, (bytes, bytearray)):
        return ["bytes", bytes(v), len(str(v))]
    if isinstance(v, dict):
        return ["dict", [[str(a), str(b)] for a, b in v.items()], len(str(v))]
    if isinstance(v, datetime.timedelta):
        if v.microseconds == 0:  # whole seconds: the model computes the pieces itself
            return ["interval_int", 0, v.days, v.seconds, len(str(v))]
        return ["interval", interval_parts(v.days, 0, v.microseconds / 1e6 + v.seconds), len(str(v))]
    if type(v).__name__ == "MonthDayNano":
        if v.nanoseconds % 10**9 == 0:
            return ["interval_int", v.months, v.days, v.nanoseconds // 10**9, len(str(v))]
        return ["interval", interval_parts(v.days, v.months, v.nanoseconds / 1e9), len(str(v))]
    if isinstance(v, (list, tuple)):
        return ["list", [str(x) for x in v], len(str(v))]
    return ["other", str(v)]


# --------------------------------------------------------------------------- value kinds (Model/PyKinds.lean)


def kind_of(v):
    """("py"|"np", kind name of Model/PyKinds.lean) of a Python value, or None when the kind is not modelled."""
    import numpy

    if isinstance(v, numpy.ndarray):
        if v.ndim >= 1:
            return ("np", "ndarray")
        return ("np", "ndarray0") if numpy.issubdtype(v.dtype, numpy.integer) else None
    if isinstance(v, numpy.generic):
        if isinstance(v, numpy.timedelta64):
            if numpy.isnat(v):
                return ("np", "td64NaT")
            return ("np", "td64Cal" if numpy.datetime_data(v.dtype)[0] in ("Y", "M") else "td64")
        if isinstance(v, numpy.datetime64):
            return ("np", "dt64")
        if isinstance(v, numpy.bool_):
            return ("np", "npBool")
        if isinstance(v, numpy.integer):
            return ("np", "npInt")
        if isinstance(v, numpy.floating):
            return ("np", "npFloatNaN" if numpy.isnan(v) else "npFloat")
        if isinstance(v, numpy.complexfloating):
            return ("np", "npComplex")
        if isinstance(v, numpy.str_):
            return ("np", "npStr")
        if isinstance(v, numpy.bytes_):
            return ("np", "npBytes")
        return None
    t = type(v)
    if v is None:
        return ("py", "none")
    if t is float:
        return ("py", "floatNaN" if v != v else "float")
    if t is decimal.Decimal:
        return ("py", "decSNaN" if v.is_snan() else ("decNaN" if v.is_nan() else "dec"))
    if t.__name__ == "MonthDayNano":
        return ("py", "mdn")
    if t.__name__ == "SimpleNamespace":
        return ("py", "ns") if all(hasattr(v, a) for a in ("days", "months", "nanoseconds")) else None
    exact = {bool: "bool", int: "int", str: "str", datetime.datetime: "datetime", datetime.date: "date", datetime.time: "time",
             bytes: "bytes", bytearray: "bytearray", dict: "dict", datetime.timedelta: "timedelta", list: "list", tuple: "tuple",
             set: "set", frozenset: "frozenset", complex: "complex"}
    return ("py", exact[t]) if t in exact else None


def kind_samples():
    import numpy
    import pyarrow
    from types import SimpleNamespace

    D = decimal.Decimal
    py = {
        "none": [None], "bool": [True, False], "int": [0, -5, 10**30], "float": [0.0, 1.5, float("inf"), -0.0],
        "floatNaN": [float("nan")], "dec": [D("1.50"), D("Infinity"), D("-0")], "decNaN": [D("NaN"), D("-NaN")],
        "decSNaN": [D("sNaN"), D("-sNaN123")], "str": ["", "a\n"], "datetime": [datetime.datetime(2020, 1, 2, 3, 4, 5)],
        "date": [datetime.date(2020, 1, 2)], "time": [datetime.time(1, 2, 3)], "bytes": [b"", b"\xff"], "bytearray": [bytearray(b"ab")],
        "dict": [{}, {1: 2}], "timedelta": [datetime.timedelta(0), datetime.timedelta(days=-1, microseconds=5)],
        "mdn": [pyarrow.MonthDayNano((1, 2, 3))], "ns": [SimpleNamespace(months=1, days=2, nanoseconds=3.0)],
        "list": [[], [1]], "tuple": [(), (1,)], "set": [set(), {1}], "frozenset": [frozenset({1})], "complex": [1j],
    }
    np_ = {
        "ndarray": [numpy.array([1, 2]), numpy.array([[1.5, 2.5], [3.5, 4.5]]), numpy.array(["a", "b"])], "ndarray0": [numpy.array(5)],
        "td64": [numpy.timedelta64(5, "s"), numpy.timedelta64(-3, "D"), numpy.timedelta64(7, "ns")],
        "td64NaT": [numpy.timedelta64("NaT", "s"), numpy.timedelta64("NaT", "M")], "td64Cal": [numpy.timedelta64(3, "M"), numpy.timedelta64(2, "Y")],
        "dt64": [numpy.datetime64("2020-01-01"), numpy.datetime64("NaT")], "npInt": [numpy.int64(3), numpy.uint8(200), numpy.int8(-1)],
        "npFloat": [numpy.float64(1.5), numpy.float16(0.5), numpy.float32("inf")], "npFloatNaN": [numpy.float64("nan"), numpy.float32("nan")],
        "npBool": [numpy.bool_(True), numpy.bool_(False)], "npComplex": [numpy.complex128(1 + 2j)], "npStr": [numpy.str_("ab")],
        "npBytes": [numpy.bytes_(b"ab")],
    }
    return py, np_


def check_py_facts(ctx):
    """The tables of Model/PyKinds.lean (class hierarchy, attributes, math.isnan, iterability, numpy's type lattice,
    the result kind of the conversions the extracted mapper uses) are parameters of the model: compare them with the
    interpreter.  A difference is an infrastructure error, never a violation."""
    import math

    import numpy

    warnings.filterwarnings("ignore")
    out = ctx.model.one("C18 pyfacts")
    if not out.startswith("ok"):
        raise InfraError("model rejected pyfacts: %r" % out[:200])
    pyt, npt = wire.dec_all(out[3:])
    py, np_ = kind_samples()
    ns = {"datetime": datetime, "decimal": decimal, "numpy": numpy}

    def attempt(f):
        try:
            return ["ok", bool(f())]
        except Exception as e:  # noqa
            return ["err", type(e).__name__]

    bad = []
    for name, classes, attrs, isnan, iterable in pyt:
        for v in py[name]:
            if kind_of(v) != ("py", name):
                bad.append(("kind_of", name, repr(v)))
            for cn, want in classes:
                if isinstance(v, eval(cn, ns)) != want:
                    bad.append(("isinstance", name, cn))
            for an, want in attrs:
                if hasattr(v, an) != want:
                    bad.append(("hasattr", name, an))
            if attempt(lambda: math.isnan(v)) != isnan:
                bad.append(("isnan", name, attempt(lambda: math.isnan(v)), isnan))
            if (attempt(lambda: iter(v) is not None)[0] == "ok") != iterable:
                bad.append(("iter", name))
    conv = {"tolist": lambda v: v.tolist(), "int": int, "float": float, "bool": bool, "list": list, "str": str, "none": lambda v: None}
    lines, keys = [], []
    for name, subs, is_arr, is_gen, is_td, isnat, cal in npt:
        for v in np_[name]:
            if kind_of(v) != ("np", name):
                bad.append(("kind_of", name, repr(v)))
            for cn, want in subs:
                if name != "ndarray" and bool(numpy.issubdtype(v.dtype, getattr(numpy, cn))) != want:  # an array's dtype varies
                    bad.append(("issubdtype", name, cn))
            if [isinstance(v, numpy.ndarray), isinstance(v, numpy.generic), isinstance(v, numpy.timedelta64)] != [is_arr, is_gen, is_td]:
                bad.append(("numpy isinstance", name))
            if name != "dt64" and attempt(lambda: numpy.isnat(v)) != isnat:  # datetime64 may be NaT: not tested by the mapper
                bad.append(("isnat", name, attempt(lambda: numpy.isnat(v)), isnat))
            if name != "td64NaT" and attempt(lambda: numpy.datetime_data(v.dtype)[0] in ("Y", "M")) != cal:  # NaT has any unit
                bad.append(("datetime_data", name, attempt(lambda: numpy.datetime_data(v.dtype)[0] in ("Y", "M")), cal))
        lines.append("C18 fmtnp " + wire.line(name))
        keys.append(name)
    for name, o in zip(keys, ctx.model.batch(lines)):
        m = wire.dec_all(o[3:])
        if m[1][0] == "ok" and m[1][2] in conv:  # the conversion the extracted mapper applies to this kind
            for v in np_[name]:
                try:
                    got = kind_of(conv[m[1][2]](v))
                except Exception as e:  # noqa
                    got = ("raises", type(e).__name__)
                if got != ("py", m[1][1]):
                    bad.append(("conversion", name, m[1][2], got, m[1][1]))
    # the unit names numpy.datetime_data can return (Model/DisplayTd.lean `numpyUnits`)
    units = wire.dec_all(ctx.model.one("C18 tdunits")[3:])[0]
    if sorted(units) != sorted(TD_UNITS):
        bad.append(("numpyUnits", units))
    for u in units:
        try:
            got = numpy.datetime_data((numpy.timedelta64(1) if u == "generic" else numpy.timedelta64(1, u)).dtype)[0]
        except Exception as e:  # noqa
            got = type(e).__name__
        if got != u:
            bad.append(("unit", u, got))
    for u in ["B", "d", "H", "S", "min", "sec", "y", "w", "μs", "Ms", "cs", "ds", "das", "zs", "ys", "ks", "Q", "q", "C", "dec", "a", "at", "Ps"]:
        try:
            got = numpy.datetime_data(numpy.timedelta64(1, u).dtype)[0]
        except Exception:  # noqa
            continue
        if got not in units:
            bad.append(("numpy has a further unit", u, got))
    if bad:
        raise InfraError("Model/PyKinds.lean (facts about Python / numpy, a parameter) differs from the interpreter: %r" % bad[:8])
    ctx.hit("pyfacts-checked:%d-kinds" % (len(pyt) + len(npt)))


# --------------------------------------------------------------------------- frames


COLTYPES = ["INTEGER", "VARCHAR", "DOUBLE", "BOOLEAN", "BLOB", "DATE", "TIMESTAMP", "TIME", "INTERVAL", "STRUCT",
            "DECIMAL(10,2)", "DECIMAL(38,0)", "ARRAY<INTEGER>", "ARRAY<VARCHAR>", "ARRAY", "JSONB", "NULL", ""]


def build_schema(case):
    names = case["names"]
    if case.get("coltypes") is None:
        return list(names), ["0"] * len(names)
    from orso.schema import FlatColumn, RelationSchema
    from orso.types import OrsoTypes

    cols, texts = [], []
    aliases = case.get("aliases") or [[] for _ in names]
    for n, t, al in zip(names, case["coltypes"], aliases):
        kw = {"aliases": list(al)} if al else {}
        col = FlatColumn(name=n, type=t, **kw) if t else FlatColumn(name=n, **kw)
        cols.append(col)
        # the text the statement asks for ("types when asked"): the column's declared type
        if col.type == OrsoTypes.ARRAY and col.element_type is not None:
            texts.append("ARRAY<%s>" % col.element_type)
        elif col.type == OrsoTypes.DECIMAL and col.precision is not None:
            texts.append("DECIMAL(%s,%s)" % (col.precision, col.scale))
        else:
            texts.append(str(col.type))
    return RelationSchema(name="t", columns=cols), texts


def build_frame(case, rows):
    from orso import DataFrame

    schema, _ = build_schema(case)
    if case.get("lazy"):
        return DataFrame(rows=(r for r in rows), schema=schema)
    return DataFrame(rows=list(rows), schema=schema)


class fake_notebook:
    """`DataFrame.__str__` / `__repr__` ask IPython whether they run in a notebook; IPython is not installed here, so the
    notebook branch (html_table + display(HTML(...))) is reached with a stand-in module that records what is displayed."""

    def __enter__(self):
        import sys
        import types

        self.shown = []
        ip, ipd = types.ModuleType("IPython"), types.ModuleType("IPython.display")
        ip.get_ipython = lambda: object()
        ipd.HTML = lambda text: ("html", text)
        ipd.display = self.shown.append
        ip.display = ipd
        self.saved = {k: sys.modules.get(k) for k in ("IPython", "IPython.display")}
        sys.modules["IPython"], sys.modules["IPython.display"] = ip, ipd
        return self

    def __exit__(self, *a):
        import sys

        for k, v in self.saved.items():
            if v is None:
                sys.modules.pop(k, None)
            else:
                sys.modules[k] = v


def render_obj(df, case, via, colorize=False):
    """One rendering of an existing frame object."""
    from orso.display import ascii_table

    if via == "ascii":
        return ascii_table(df, limit=case["limit"], display_width=case.get("dw", 300), max_column_width=case.get("maxcol", 30),
                           colorize=colorize, top_and_tail=case.get("tt", True), show_types=case.get("show_types", False))
    if via == "display":
        return df.display(limit=case["limit"], display_width=case.get("dw", 300), max_column_width=case.get("maxcol", 30),
                          colorize=colorize, show_types=case.get("show_types", False))
    if via == "markdown":
        return df.markdown(limit=case["limit"], max_column_width=case.get("maxcol", 30))
    if via == "str":
        return str(df)
    if via == "repr":
        return repr(df)
    if via == "notebook":
        with fake_notebook() as nb:
            out = str(df)
            rep = repr(df)
        if out != "" or rep != "" or len(nb.shown) != 2 or any(not (isinstance(x, tuple) and isinstance(x[1], str)) for x in nb.shown):
            raise AssertionError("notebook rendering did not display one HTML table per call")
        return nb.shown[0][1]
    raise InfraError("bad via %r" % via)


def call_render(case, rows, via, colorize):
    """One rendering of a fresh frame. Returns the text."""
    from orso.display import ascii_table

    df = build_frame(case, rows)
    if via == "ascii":
        return ascii_table(df, limit=case["limit"], display_width=case["dw"], max_column_width=case["maxcol"],
                           colorize=colorize, top_and_tail=case["tt"], show_types=case["show_types"])
    if via == "display":
        return df.display(limit=case["limit"], display_width=case["dw"], max_column_width=case["maxcol"],
                          colorize=colorize, show_types=case["show_types"])
    if via == "display_default":
        return df.display(limit=case["limit"])
    if via == "markdown":
        return df.markdown(limit=case["limit"], max_column_width=case["maxcol"])
    if via == "str":
        return str(df)
    if via in ("repr", "notebook"):
        return render_obj(df, case, via)
    raise InfraError("bad via %r" % via)


def spec_lines(n, limit, tt):
    """The statement, literally: which rows are shown, with which labels, and where the ellipsis is."""
    if not tt:
        return [["d", i + 1, i] for i in range(min(n, limit))]
    if n <= 2 * limit:
        return [["d", i + 1, i] for i in range(n)]
    return [["d", i + 1, i] for i in range(limit)] + [["e"]] + [["d", i + 1, i] for i in range(n - limit, n)]


def body_of(text, footer=False):
    """Lines between the header separator and the bottom border, ANSI stripped.  Any shape of `text` is judged
    (None = not a box table), never indexed blindly: the text comes from code that may have been changed."""
    if not isinstance(text, str):
        return None, []
    lines = [ANSI.sub("", l) for l in text.split("\n")]
    if footer:
        lines = lines[:-1]
    sep = [i for i, l in enumerate(lines) if l.startswith("╞")]
    if not lines or not sep or not lines[-1].startswith("└"):
        return None, lines
    return lines[sep[0] + 1 : -1], lines


def parse_labels(body):
    out = []
    for l in body:
        if l.startswith("│"):
            parts = l.split("│")
            try:
                out.append(["d", int(parts[1].strip()), [p.strip() for p in parts[2:-1]]])
            except (ValueError, IndexError):
                out.append(["?", l])
        elif l.strip() == "...":
            out.append(["e"])
        else:
            out.append(["?", l])
    return out


def shown_text(v):
    """The text a simple value is shown as (None for kinds whose rendering is not `str(value)`-like)."""
    import math

    if v is None or (isinstance(v, float) and math.isnan(v)):
        return "null"
    if isinstance(v, decimal.Decimal) and v.is_nan():
        return None  # whether a NaN decimal is shown as NaN or as null is not fixed by the statement
    if isinstance(v, (bool, int, float, decimal.Decimal, str)):
        return str(v)
    if isinstance(v, datetime.datetime):
        return v.strftime("%Y-%m-%d %H:%M:%S")
    if isinstance(v, datetime.date):
        return v.strftime("%Y-%m-%d")
    return None


def values_clause(got, rows, maxcol):
    """'Shows the rows': a value of a shown row whose text fits the column-width limit is printed in full
    (compared up to outer blanks; printable-ASCII content, table narrower than the display)."""
    for p in got:
        if p[0] != "d" or not (1 <= p[1] <= len(rows)):
            continue
        row = rows[p[1] - 1]
        if not row:
            continue
        if len(p[2]) != len(row):
            return "a data line does not have one cell per column"
        for shown, v in zip(p[2], row):
            want = shown_text(v)
            if want is not None and len(want) <= maxcol and len(str(v)) <= maxcol and shown != want.strip():
                return "a value of a shown row is cut (or altered) although it fits the column-width limit"
    return None


def safe_int(s):
    """int(s) for a plain ASCII decimal text, else None (never raises: '²'.isdigit() is true, int('²') is not)."""
    try:
        return int(s) if isinstance(s, str) and s.isascii() and s.strip().lstrip("-").isdigit() and len(s) < 4000 else None
    except ValueError:
        return None


def width_clause(text, dw, footer=False):
    """Printed width of all box lines equal and within the display width (ANSI escapes stripped)."""
    if not isinstance(text, str):
        return "rendering did not return text"
    lines = [ANSI.sub("", l) for l in text.split("\n")]
    if footer:
        lines = lines[:-1]
    widths = sorted({len(l) for l in lines if l[:1] in BOX_FIRST})
    other = [l for l in lines if l[:1] not in BOX_FIRST and l.strip(".") != ""]
    if other:
        return "a line is neither a box line nor the ellipsis"
    if len(widths) > 1:
        return "box lines have different printed widths"
    if widths and widths[0] > dw:
        return "box lines are wider than the display width"
    return None


# --------------------------------------------------------------------------- evaluation


def _colors():
    try:
        from orso.display import COLORS

        d = dict(COLORS)
        return d if all(isinstance(k, str) and isinstance(v, str) for k, v in d.items()) else None
    except Exception:
        return None


def substitute(line, colors, on):
    for k, v in colors.items():
        line = line.replace(k, v if on else "")
    return line


def _nonascii(obj, acc):
    if isinstance(obj, str):
        acc.update(ch for ch in obj if ord(ch) >= 128)
    elif isinstance(obj, (bytes, bytearray)):
        _nonascii(bytes(obj).decode("utf-8", "replace"), acc)
    elif isinstance(obj, (list, tuple)):
        for x in obj:
            _nonascii(x, acc)
    return acc


def char_width(ch):
    """`character_width` of display.py, from unicodedata (a parameter of the model)."""
    return 2 if unicodedata.east_asian_width(ch) in ("F", "N", "W") else 1


def model_line(case):
    k = case["kind"]
    if k == "sel":
        return "C18 visible " + wire.line(case["n"], case["limit"], case["tt"], bool(case.get("lazy")))
    if k == "render":
        _, types = build_schema(case)
        rows = [[tag_cell(mk(c)) for c in r] for r in case["rows"]]
        names = [str(n) for n in case["names"]]
        wide = sorted(_nonascii([names, types, rows], set()))
        if wide:  # the width of every non-ASCII character of the case goes to the model as a table
            return "C18 renderw " + wire.line(case["limit"], case["tt"], bool(case.get("lazy")), case["show_types"], case["maxcol"],
                                              case["dw"], False, names, types, rows, [[ord(ch), char_width(ch)] for ch in wide])
        return "C18 render " + wire.line(case["limit"], case["tt"], bool(case.get("lazy")), case["show_types"],
                                         case["maxcol"], case["dw"], False, names, types, rows)
    if k == "decode":
        return "C18 decode " + wire.line(case["bytes"])
    if k in ("total", "seq"):
        return "echo N"
    if k == "td":
        unit, step, raw = td64_fields(mk(["td64", case["cell"]]))
        return "C18 td64 " + wire.line(unit, step, raw)
    if k == "fmt":
        kd = kind_of(mk(case["cell"]))
        if kd is None:
            return "echo N"
        return ("C18 fmtkind " if kd[0] == "py" else "C18 fmtnp ") + wire.line(kd[1])
    if k == "markdown":
        rows = [[[mk(c) is None, str(mk(c))] for c in r] for r in case["rows"]]
        return "C18 markdown " + wire.line(case["limit"], case["maxcol"], [str(n) for n in case["names"]], rows)
    if k == "colorize":
        return "C18 colorize " + wire.line(case["on"], case["text"])
    raise InfraError("bad case kind %r" % k)


def sel_rows(case):
    w = case.get("cols", 1)
    return [tuple(1000 + i + 4000 * j for j in range(w)) for i in range(case["n"])]


def run_sel(case):
    """Returns (parsed lines [["d",label,row]|["e"]|["?",..]], clause or None, text)."""
    rows = sel_rows(case)
    via = case["via"]
    c = dict(case, names=["c%d" % j for j in range(case.get("cols", 1))], dw=case.get("dw", 300), maxcol=30,
             show_types=case.get("show_types", False))
    try:
        text = call_render(c, rows, via, case.get("colorize", False))
    except Exception as e:  # noqa
        return None, "rendering raised %s" % type(e).__name__, repr(e)[:300]
    if not isinstance(text, str):
        return None, "rendering did not return text", repr(text)[:300]
    body, lines = body_of(text, footer=(via == "str"))
    if body is None:
        return None, "the rendering is not a box table", text
    parsed = []
    for p in parse_labels(body):
        if p[0] == "d":
            try:
                vals = [int(x) for x in p[2]]
                ri = vals[0] - 1000
                if vals != [1000 + ri + 4000 * j for j in range(len(vals))] or len(vals) != case.get("cols", 1):
                    parsed.append(["?", p])
                else:
                    parsed.append(["d", p[1], ri])
            except (ValueError, IndexError):
                parsed.append(["?", p])
        else:
            parsed.append(p)
    limit = 10 if via == "str" else case["limit"]
    tt = True if via in ("str", "display", "display_default") else case["tt"]
    want = spec_lines(case["n"], limit, tt)
    clause = None
    if any(p[0] == "?" for p in parsed):
        clause = "a body line is neither a data row of the frame nor the ellipsis"
    elif [p for p in parsed if p[0] == "d"] != [p for p in want if p[0] == "d"]:
        got_rows = [p[2] for p in parsed if p[0] == "d"]
        if got_rows != [p[2] for p in want if p[0] == "d"]:
            clause = "the rows shown are not the first/last 'limit' rows (all rows when n <= 2*limit)"
        else:
            clause = "a row is not labelled with its true 1-based position"
    elif parsed != want:
        clause = "ellipsis line missing, repeated or misplaced"
    if clause is None:
        clause = width_clause(text, c["dw"], footer=(via == "str")) if via != "str" and via != "display_default" else None
    return parsed, clause, text


SEQ_BIG = 10**9 + 1000
SEQ_OPS = ("ascii", "display", "str", "markdown", "repr", "notebook", "append", "materialize", "len")


def run_seq(case):
    """Several uses of ONE frame object: renderings (every path), appends, materialisation.  Returns (clause, trace).
    Rendering is read-only on an eager frame: every rendering shows the frame as it is at that moment (labels, rows,
    ellipsis), whatever was rendered before.  A lazily backed frame is consumed by its first rendering (orso's
    documented behaviour); the first rendering must show the frame, later ones must complete without error."""
    from orso import DataFrame

    n = case["n"]
    cur = [(1000 + i,) for i in range(n)]
    try:
        df = DataFrame(rows=(r for r in cur), schema=["c0"]) if case.get("lazy") else DataFrame(rows=list(cur), schema=["c0"])
    except Exception as e:  # noqa
        return "building the frame raised %s" % type(e).__name__, [["DataFrame", repr(e)[:200]]]
    lazy, used, trace = bool(case.get("lazy")), False, []
    for step, op in enumerate(case["ops"]):
        try:
            if op == "append":
                if lazy:
                    continue
                cur.append((SEQ_BIG + len(cur),))  # appended values are wider than everything rendered before
                df.append(cur[-1])
                trace.append([op, len(cur)])
                continue
            if op == "materialize":
                df.materialize()
                if lazy and not used:
                    lazy = False
                trace.append([op])
                continue
            if op == "len":
                k = len(df)
                if lazy and not used:
                    lazy = False
                if not lazy and k != len(cur):
                    return "step %d: len() of the frame changed by rendering" % step, trace
                trace.append([op, k])
                continue
            text = render_obj(df, case, op, colorize=bool(step % 2))
        except Exception as e:  # noqa
            return "step %d (%s): rendering raised %s" % (step, op, type(e).__name__), trace + [[op, repr(e)[:200]]]
        first_lazy_use = lazy and not used
        if lazy and not used and op in ("markdown", "notebook"):
            lazy = False  # these materialise the frame before showing it
        elif lazy and op != "repr":
            used = True
        if not isinstance(text, str):
            return "step %d (%s): rendering did not return text" % (step, op), trace + [[op, repr(text)[:200]]]
        if op in ("markdown", "repr", "notebook"):
            trace.append([op, "ok"])
            if op == "repr" and text != "<orso.dataframe>":
                return "step %d: repr() is not the tag" % step, trace
            continue
        if lazy and not first_lazy_use:
            trace.append([op, "consumed frame: completes"])
            continue
        body, lines = body_of(text, footer=(op == "str"))
        if body is None:
            return "step %d (%s): the rendering is not a box table" % (step, op), trace + [[op, text]]
        got = [[p[0], p[1], (safe_int(p[2][0]) - 1000) % (SEQ_BIG - 1000)] if p[0] == "d" and len(p[2]) == 1 and safe_int(p[2][0]) is not None else p
               for p in parse_labels(body)]
        limit = 10 if op == "str" else case["limit"]
        tt = True if op != "ascii" else case.get("tt", True)
        want = spec_lines(len(cur), limit, tt)
        trace.append([op, len(got)])
        if got != want:
            return "step %d (%s): the frame is not shown as it is now (rows / labels / ellipsis)" % (step, op), trace + [[op, text]]
        if op in ("ascii", "display"):
            cl = width_clause(text, case.get("dw", 300))
            if cl:
                return "step %d (%s): %s" % (step, op, cl), trace + [[op, text]]
        if lazy:
            continue
        try:
            held = [r[0] for r in df._rows]
        except Exception as e:  # noqa
            held = "unreadable: %s" % type(e).__name__
        if held != [r[0] for r in cur]:
            return "step %d (%s): rendering changed the rows of an eager frame" % (step, op), trace
    return None, trace


def run_render(case):
    """Returns dict(off=text|None, on=text|None, clause, detail)."""
    rows = [tuple(mk(c) for c in r) for r in case["rows"]]
    out = {"off": None, "on": None, "clause": None, "detail": None}
    via = case.get("via", "ascii")
    for key, col in (("off", False), ("on", True)):
        try:
            out[key] = call_render(case, rows, via, col)
        except Exception as e:  # noqa
            out["clause"] = "rendering raised %s" % type(e).__name__
            out["detail"] = repr(e)[:300]
            return out
    n, limit, tt = len(rows), case["limit"], case["tt"] if via == "ascii" else True
    want = spec_lines(n, limit, tt)
    ascii_content = all(printable(str(x)) for x in case["names"]) and all(ascii_safe(v) for r in rows for v in r)
    wide = case["dw"] >= 4000
    for key in ("off", "on"):
        text = out[key]
        if not isinstance(text, str):
            out["clause"] = "rendering did not return text"
            return out
        if ascii_content:
            cl = width_clause(text, case["dw"])
            if cl:
                out["clause"] = cl + (" (colour on)" if key == "on" else "")
                return out
        if ascii_content and wide:
            body, lines = body_of(text)
            if body is None:
                out["clause"] = "the rendering is not a box table"
                return out
            got = parse_labels(body)
            if [p[:2] for p in got] != [p[:2] for p in want]:
                out["clause"] = "labels / ellipsis differ from the true positions of the first and last rows"
                return out
            cl = values_clause(got, rows, case["maxcol"])
            if cl:
                out["clause"] = cl
                return out
            # column names and types: only when they fit their column and have no outer blanks
            _, types = build_schema(case)
            hdr = [p.strip() for p in lines[1].split("│")[2:-1]] if case["names"] and len(lines) > 1 else []
            if len(hdr) < len(case["names"]):
                # fewer header cells than columns: some column name is not printed at all (whatever its length)
                out["clause"] = "a column name is not printed in the header"
                return out
            for j, nm in enumerate(case["names"]):
                nm = str(nm)
                if len(nm) <= case["maxcol"] and nm == nm.strip() and "│" not in nm and hdr[j] != nm:
                    out["clause"] = "a column name is not printed in the header"
                    return out
            n_head = len(lines) - len(body) - 3
            if n_head != (2 if case["show_types"] else 1):
                out["clause"] = "type row %s" % ("missing" if case["show_types"] else "printed though not asked for")
                return out
            if case["show_types"] and case.get("coltypes") is not None and case["names"]:
                trow = [p.strip() for p in lines[2].split("│")[2:-1]]
                if len(trow) < len(types):
                    out["clause"] = "a column type is not printed in the type row"
                    return out
                for j, ty in enumerate(types):
                    if len(ty) <= case["maxcol"] and trow[j] != ty:
                        out["clause"] = "a column type is not printed in the type row"
                        return out
    return out


def run_fmt(case):
    """One cell through the real `type_formatter` (a 1 x 1 frame, colour on): (clause, ANSI code the cell starts with)."""
    from orso import DataFrame
    from orso.display import ascii_table

    v = mk(case["cell"])
    try:
        text = ascii_table(DataFrame(rows=[(v,)], schema=["c"]), limit=1, display_width=5000, max_column_width=case.get("maxcol", 40),
                           colorize=True, show_types=False)
    except Exception as e:  # noqa
        return "rendering raised %s" % type(e).__name__, repr(e)[:200]
    if not isinstance(text, str):
        return "rendering did not return text", repr(text)[:200]
    lines = text.split("\n")
    if len(lines) != 5 or not lines[3].startswith("│") or lines[3].count("│") < 3:
        return "the rendering is not a box table", text
    cell = lines[3].split("│", 2)[2][1:]
    best = ""
    for rep in (_colors() or {}).values():
        if cell.startswith(rep) and len(rep) > len(best):
            best = rep
    return None, best


def run_td(case):
    """One numpy.timedelta64 through ascii_table (1 x 1 frame, wide, colour off): (clause, text of the cell)."""
    from orso import DataFrame
    from orso.display import ascii_table

    v = mk(["td64", case["cell"]])
    try:
        # the column is as wide as its name: wider than any interval text (the data width is that of str(value))
        text = ascii_table(DataFrame(rows=[(v,)], schema=["c" * 64]), limit=1, display_width=5000, max_column_width=400, colorize=False)
    except Exception as e:  # noqa
        return "rendering raised %s" % type(e).__name__, repr(e)[:200]
    if not isinstance(text, str):
        return "rendering did not return text", repr(text)[:200]
    lines = text.split("\n")
    if len(lines) != 5 or not lines[3].startswith("│") or lines[3].count("│") < 3:
        return "the rendering is not a box table", text
    return None, lines[3].split("│")[2].strip()


def run_total(case):
    rows = [tuple(mk(c) for c in r) for r in case["rows"]]
    try:
        text = call_render(case, rows, case["via"], case.get("colorize", True))
        if not isinstance(text, str):
            return "rendering did not return text"
    except Exception as e:  # noqa
        return "rendering raised %s" % type(e).__name__
    return None


def run_decode(case):
    b = case["bytes"]
    try:
        strict = ["ok", [ord(c) for c in b.decode("utf-8")]]
    except UnicodeDecodeError:
        strict = ["err", "UnicodeDecodeError"]
    return strict, ["ok", [ord(c) for c in b.decode("utf-8", errors="replace")]]


def valid_case(c):
    try:
        k = c["kind"]
        if k == "sel":
            return (isinstance(c["n"], int) and c["n"] >= 0 and isinstance(c["limit"], int) and c["limit"] >= 1
                    and c.get("cols", 1) in (1, 2) and c["via"] in ("ascii", "display", "str", "display_default")
                    and isinstance(c["tt"], bool) and c.get("dw", 300) >= 1)
        if k in ("render", "total"):
            if not (isinstance(c["limit"], int) and c["limit"] >= 1 and c["maxcol"] >= 1 and c["dw"] >= 1):
                return False
            if c.get("coltypes") is not None and (len(c["coltypes"]) != len(c["names"]) or any(t not in COLTYPES for t in c["coltypes"])):
                return False
            if c.get("aliases") is not None and (c.get("coltypes") is None or len(c["aliases"]) != len(c["names"])
                                                 or any(not isinstance(a, str) for al in c["aliases"] for a in al)):
                return False
            if any(not isinstance(n, str) for n in c["names"]):
                return False
            if any(len(r) != len(c["names"]) for r in c["rows"]):
                return False
            for r in c["rows"]:
                for x in r:
                    mk(x)
            if c.get("via", "ascii") != "ascii" and k == "render" and c["tt"] is not True:
                return False
            if c.get("via", "ascii") not in ("ascii", "display", "display_default", "markdown", "str", "repr", "notebook"):
                return False
            if k == "render":
                if not all(model_text_ok(x) for r in c["rows"] for x in r) or not all(model_text_ok(["str", n]) for n in c["names"]):
                    return False
                model_line(c)
            return True
        if k == "decode":
            return isinstance(c["bytes"], bytes)
        if k == "seq":
            return (isinstance(c["n"], int) and c["n"] >= 0 and isinstance(c["limit"], int) and c["limit"] >= 1
                    and all(o in SEQ_OPS for o in c["ops"]) and isinstance(c.get("tt", True), bool))
        if k == "td":
            v = mk(["td64", c["cell"]])
            import numpy

            return isinstance(v, numpy.timedelta64) and not numpy.isnat(v)
        if k == "fmt":
            mk(c["cell"])
            return isinstance(c.get("maxcol", 40), int) and c.get("maxcol", 40) >= 1
        if k == "markdown":
            if not (isinstance(c["limit"], int) and c["limit"] >= 1 and c["maxcol"] >= 0):
                return False
            if any(not isinstance(n, str) for n in c["names"]) or any(len(r) != len(c["names"]) for r in c["rows"]):
                return False
            model_line(c).encode("utf-8")
            return True
        if k == "colorize":
            c["text"].encode("utf-8")
            return isinstance(c["on"], bool)
    except Exception:
        return False
    return False


def model_text_ok(spec):
    """Render cases are sent to the model with any text that can travel on the wire (no lone surrogates); the
    display width of its non-ASCII characters is sent along (`renderw`)."""
    k = spec[0]
    if k == "str":
        return all(not (0xD800 <= ord(ch) <= 0xDFFF) for ch in spec[1])
    if k in ("bytes", "bytearray"):
        return True
    if k in ("list", "tuple", "set"):
        return all(model_text_ok(x) for x in spec[1])
    if k == "dict":
        return all(model_text_ok(a) and model_text_ok(b) for a, b in spec[1])
    return True


def _norm(clause):
    return None if clause is None else re.sub(r"\d+", "", clause)


def outcome(case):
    """(clause, impl-summary) of one case on the implementation."""
    k = case["kind"]
    if k == "sel":
        parsed, clause, text = run_sel(case)
        return clause, {"lines": parsed, "text": text if clause else None}
    if k == "render":
        r = run_render(case)
        return r["clause"], {"off": r["off"], "on": r["on"], "detail": r["detail"]}
    if k == "total":
        return run_total(case), None
    if k == "seq":
        cl, trace = run_seq(case)
        return cl, {"trace": trace if cl else None}
    if k == "fmt":
        cl, info = run_fmt(case)
        return cl, {"detail": info if cl else None}
    if k == "td":
        cl, info = run_td(case)
        return cl, {"detail": info if cl else None}
    if k == "markdown":
        try:
            rows = [tuple(mk(x) for x in r) for r in case["rows"]]
            build_frame(dict(case, coltypes=None), rows).markdown(limit=case["limit"], max_column_width=case["maxcol"])
        except Exception as e:  # noqa
            return "rendering raised %s" % type(e).__name__, None
    return None, None


def frame_shrink(case, still):
    """Drop whole rows and whole columns (names, types and cells together) while the failure stays."""
    if case.get("kind") not in ("render", "total", "markdown"):
        return case
    cur = case
    changed = True
    tries = 0
    while changed and tries < 120:
        changed = False
        for i in range(len(cur["rows"]) - 1, -1, -1):
            c2 = dict(cur, rows=cur["rows"][:i] + cur["rows"][i + 1 :])
            tries += 1
            if still(c2):
                cur, changed = c2, True
        for j in range(len(cur["names"]) - 1, -1, -1):
            c2 = dict(cur, names=cur["names"][:j] + cur["names"][j + 1 :], rows=[r[:j] + r[j + 1 :] for r in cur["rows"]])
            if cur.get("coltypes") is not None:
                c2["coltypes"] = cur["coltypes"][:j] + cur["coltypes"][j + 1 :]
            if cur.get("aliases") is not None:
                c2["aliases"] = cur["aliases"][:j] + cur["aliases"][j + 1 :]
            tries += 1
            if still(c2):
                cur, changed = c2, True
    return cur


def report_fail(ctx, case, clause, model=None):
    known0 = k_int_beyond_str_digits(case, {"clause": clause})

    def still(c2):
        if not valid_case(c2) or c2.get("kind") != case["kind"]:
            return False
        if k_int_beyond_str_digits(c2, {"clause": clause}) != known0:
            return False  # shrinking neither enters nor leaves the open finding C18-K01
        try:
            return _norm(outcome(c2)[0]) == _norm(clause)
        except InfraError:
            return False

    c_min = case
    if not ctx.replaying:
        c_min = shrink(frame_shrink(case, still), still, budget=200)
    cl2, impl = outcome(c_min)
    ctx.fail(c_min, cl2 or clause, impl=impl, model=model if c_min is case else None)


def evaluate(ctx, cases):
    warnings.filterwarnings("ignore")  # numpy's generic-unit deprecation, orso's ARRAY-without-element note
    colors = _colors()
    lines = [model_line(c) for c in cases]
    mouts = ctx.model.batch(lines)
    for c, mo in zip(cases, mouts):
        k = c["kind"]
        if not mo.startswith("ok"):
            raise InfraError("model rejected case %r: %r" % (c, mo))
        m = wire.dec_all(mo[3:])
        ctx.hit("kind:" + k)
        if k == "sel":
            parsed, clause, text = run_sel(c)
            ctx.case(c, c["n"] >= 1)
            ctx.hit("sel:%s:%s:%s" % (c["via"], "lazy" if c.get("lazy") else "eager", "tt" if c["tt"] else "head"))
            ctx.hit("sel:" + ("split" if c["n"] > 2 * (10 if c["via"] == "str" else c["limit"]) else "all"))
            limit = 10 if c["via"] == "str" else c["limit"]
            tt = True if c["via"] != "ascii" else c["tt"]
            want = spec_lines(c["n"], limit, tt)
            # oracle first: the model follows the source, so model == mirror is a theorem about the
            # source's arithmetic (Props `src_*`, `visible_*`), not something to assume here
            if clause is not None:
                report_fail(ctx, c, clause, model=m[0])
            elif c["via"] == "ascii" and parsed != m[0]:
                ctx.disagree(c, parsed, m[0])
            elif c["via"] == "ascii" and m[0] != want:
                ctx.disagree(c, parsed, m[0], "the model (arithmetic extracted from the source) differs from the statement")
        elif k == "render":
            r = run_render(c)
            ctx.case(c, len(c["rows"]) >= 1 and len(c["names"]) >= 1)
            ctx.hit("render:%s:%s" % ("lazy" if c.get("lazy") else "eager", "types" if c["show_types"] else "notypes"))
            if c.get("coltypes") is not None and (len(set(c["names"])) < len(c["names"]) or c.get("aliases")):
                ctx.hit("render:colliding-column-names-or-aliases")
            for ch in _nonascii([c["names"], [[x[1] for x in r if x[0] in ("str", "bytes")] for r in c["rows"]]], set()):
                ctx.hit("render:char-width-category:" + unicodedata.east_asian_width(ch))
            for row in c["rows"]:
                for cell in row:
                    ctx.hit("cell:" + cell[0])
            if r["clause"] is not None:
                report_fail(ctx, c, r["clause"], model=m)
                continue
            if m[0] != "ok":
                ctx.disagree(c, {"off": r["off"]}, m, "the model raises where the implementation renders")
                continue
            if colors is None:
                ctx.hit("colors-table-unavailable")
                continue
            for key, on in (("off", False), ("on", True)):
                want = "\n".join(substitute(l[1], colors, on) for l in m[1])
                if want != r[key]:
                    ctx.disagree(c, r[key], want, "rendered text differs from the model (colour %s)" % key)
                    break
            ctx.hit("render:table-%s-than-display" % ("wider" if m[2] > c["dw"] else "narrower"))
        elif k == "total":
            clause = run_total(c)
            ctx.case(c, len(c["rows"]) >= 1 and len(c["names"]) >= 1)
            ctx.hit("total:%s:%s" % (c["via"], "lazy" if c.get("lazy") else "eager"))
            for row in c["rows"]:
                for cell in row:
                    ctx.hit("cell:" + cell[0])
            if clause is not None:
                report_fail(ctx, c, clause)
        elif k == "seq":
            clause, trace = run_seq(c)
            ctx.case(c, c["n"] >= 1 and len(c["ops"]) >= 2)
            ctx.hit("seq:%s:%d-ops" % ("lazy" if c.get("lazy") else "eager", min(len(c["ops"]), 6)))
            for a, b in zip(c["ops"], c["ops"][1:]):
                ctx.hit("seq:%s-then-%s" % (a, b))
            if clause is not None:
                report_fail(ctx, c, clause)
        elif k == "fmt":
            clause, rep = run_fmt(c)
            kd = kind_of(mk(c["cell"]))
            ctx.case(c, True)
            ctx.hit("fmt:" + (kd[1] if kd else "unmodelled-kind"))
            if clause is not None:
                report_fail(ctx, c, clause, model=m)
                continue
            if kd is None or colors is None:
                continue
            disp = m[0] if kd[0] == "py" else (m[2] if len(m) > 2 else m[1])
            if kd[0] == "np" and (m[0] is not True or m[1][0] != "ok"):
                ctx.disagree(c, rep, m, "the extracted numpy_type_mapper does not handle this numpy value, the implementation renders it")
            elif disp[0] != "ok" or disp[3] is not True:
                ctx.disagree(c, rep, m, "the extracted if-chain of type_formatter raises / reads a missing attribute where the implementation renders")
            elif colors.get(disp[2], "") != rep:
                ctx.disagree(c, rep, m, "the cell is formatted by another branch of type_formatter than the extracted chain selects")
        elif k == "td":
            clause, shown = run_td(c)
            unit, step, raw = td64_fields(mk(["td64", c["cell"]]))
            ctx.case(c, raw != 0)
            scale = step * (TD_MONTHS[unit] if unit in TD_MONTHS else TD_SECONDS.get(unit, (1, 1))[0])
            ctx.hit("td:unit:%s:%s" % (unit, "step" if step != 1 else "plain"))
            ctx.hit("td:count:%s" % ("fits-64-bits-in-seconds-or-months" if abs(raw * scale) < 2**63 and unit != "as" else "beyond-numpy's-64-bit-conversion"))
            ctx.hit("td:count:%s" % ("below-2^53" if abs(raw) <= 2**53 else "above-2^53"))
            if clause is not None:
                report_fail(ctx, c, clause, model=m)
                continue
            # the branch as extracted from the source, against what the unit means (the statement's reference)
            if m[0] == "err":
                ctx.disagree(c, shown, m, "the extracted timedelta branch raises where the implementation renders")
            elif m[0] == "months":
                if unit not in TD_MONTHS or m[1] != raw * step * TD_MONTHS[unit]:
                    ctx.disagree(c, shown, m, "the extracted month count is not raw * step * months-per-tick")
                elif " ".join(interval_parts(0, m[1], 0.0)) != shown:
                    ctx.disagree(c, shown, " ".join(interval_parts(0, m[1], 0.0)), "the interval shown is not the month count of the extracted branch")
            else:
                n_, d_ = m[1], m[2]
                if unit not in TD_SECONDS or d_ <= 0 or n_ * TD_SECONDS[unit][1] != raw * step * TD_SECONDS[unit][0] * d_:
                    ctx.disagree(c, shown, m, "the extracted quotient is not the length raw * step * seconds-per-tick")
                else:
                    want = " ".join(td64_quotient_parts(n_, d_, m[3], m[4]))
                    if want != shown:
                        ctx.disagree(c, shown, want, "the interval shown is not the double quotient of the extracted branch")
        elif k == "markdown":
            rows = [tuple(mk(x) for x in r) for r in c["rows"]]
            ctx.case(c, len(c["rows"]) >= 1 and len(c["names"]) >= 1)
            ctx.hit("markdown:%s" % ("lazy" if c.get("lazy") else "eager"))
            try:
                text = build_frame(dict(c, coltypes=None), rows).markdown(limit=c["limit"], max_column_width=c["maxcol"])
            except Exception as e:  # noqa
                report_fail(ctx, c, "rendering raised %s" % type(e).__name__)
                continue
            want = "\n".join(m[0])
            if text != want:
                ctx.disagree(c, text, want, "Markdown text differs from the model")
        elif k == "colorize":
            ctx.case(c, "\x01" in c["text"])
            ctx.hit("colorize:%s" % ("on" if c["on"] else "off"))
            from orso.display import colorizer

            try:
                try:
                    got = colorizer(c["text"], c["on"], unescape=False)
                except TypeError:
                    got = colorizer(c["text"], c["on"]) if "\\u0001" not in c["text"] else None
            except Exception as e:  # noqa  (a colorizer that raises is judged, it does not stop the harness)
                got = "colorizer raised %s" % type(e).__name__
            if got is not None and got != m[0]:
                ctx.disagree(c, got, m[0], "colorizer differs from the model's sequential replace")
        elif k == "decode":
            strict, repl = run_decode(c)
            ctx.case(c, len(c["bytes"]) >= 1)
            ctx.hit("decode:" + strict[0])
            if m != [strict, repl]:
                raise InfraError("the model's UTF-8 decoder (a parameter) differs from bytes.decode on %r: %r vs %r"
                                 % (c["bytes"], m, [strict, repl]))


# --------------------------------------------------------------------------- generators


def gen_ascii(rng, maxlen=10, ctrl=False):
    n = rng.choice([0, 1, 2, 3, 4, 5, 8, maxlen, maxlen, 40]) if rng.random() < 0.3 else rng.randint(0, maxlen)
    if ctrl:
        alpha = PRINTABLE + "\n\r\t\x1b\x01mmm[;\x00\x7f" * 6
    else:
        alpha = PRINTABLE
    s = "".join(rng.choice(alpha) for _ in range(n))
    if not ctrl and rng.random() < 0.1:
        s += rng.choice(["\\u0001OFFm", "\\u0001", "m", "[0m", "...", "|"])
    return s


UNI = "aZ0 ~éßдλ日本語한\U0001f600​́‮\ud800\n\r\t\x00\x01\x1b\x7f\x85 │─'\"\\m[;"


def gen_unicode(rng, maxlen=12):
    n = rng.randint(0, maxlen) if rng.random() < 0.9 else rng.choice([33, 100])
    return "".join(rng.choice(UNI) for _ in range(n))


def gen_bytes(rng, ascii_only=False):
    r = rng.random()
    n = rng.randint(0, 8)
    if ascii_only:
        return bytes(rng.randint(32, 126) for _ in range(n))
    if r < 0.4:
        return bytes(rng.getrandbits(8) for _ in range(n))
    if r < 0.7:  # UTF-8 shaped: valid sequences with damaged continuation bytes and truncations
        out = bytearray()
        for _ in range(rng.randint(1, 4)):
            ch = chr(rng.choice([0x41, 0xE9, 0x7FF, 0x800, 0xD7FF, 0xE000, 0xFFFD, 0x10000, 0x10FFFF, rng.randint(0x80, 0xD7FF)]))
            e = bytearray(ch.encode("utf-8"))
            q = rng.random()
            if q < 0.25 and len(e) > 1:
                e = e[: rng.randint(1, len(e) - 1)]
            elif q < 0.5:
                e[rng.randrange(len(e))] = rng.choice([0x00, 0x41, 0x7F, 0x80, 0x9F, 0xA0, 0xBF, 0xC0, 0xC1, 0xC2, 0xE0, 0xED, 0xF0, 0xF4, 0xF5, 0xFF])
            out += e
        return bytes(out)
    return rng.choice([b"", b"\xff", b"\xc0\x80", b"\xe0\x80\x80", b"\xed\xa0\x80", b"\xf4\x90\x80\x80", b"\xf0\x8f\xbf\xbf",
                       b"\xe2\x82", b"\xf0\x9f\x98", b"\xe2\x82\xac", b"abc", b"\x80abc", b"a\xe2\x82b", b"\xc2", b"\xf0\x9f\x98\x80"])


def gen_model_cell(rng, ctrl):
    """A cell of a kind the Lean model formats (ASCII content)."""
    if rng.random() < 0.06:
        return gen_edge_cell(rng, model=True)
    k = rng.randrange(16)
    if k == 0:
        return ["none"]
    if k == 1:
        return ["bool", rng.random() < 0.5]
    if k in (2, 3):
        return ["int", rng.choice([0, 1, -1, 7, 42, -300, 12345, 10**9, -(10**12), 10**30, rng.randint(-10**6, 10**6)])]
    if k == 4:
        return ["float", rng.choice([0.0, -0.0, 1.5, -2.25, 1e300, 1e-7, 3.141592653589793, float("inf"), float("nan"), 123456.789, rng.uniform(-1e4, 1e4)])]
    if k == 5:
        return ["dec", rng.choice(["0", "1.50", "-12345.678", "1E+10", "NaN", "0.0000001", "99999999999999999999.99"])]
    if k in (6, 7, 8):
        return ["str", gen_ascii(rng, 12, ctrl)]
    if k == 9:
        b = gen_bytes(rng, ascii_only=not ctrl)
        while not model_text_ok(["bytes", b]):
            b = gen_bytes(rng, ascii_only=not ctrl)
        return ["bytes", b]
    if k == 10:
        return ["date", [rng.randint(1000, 9999), rng.randint(1, 12), rng.randint(1, 28)]]
    if k == 11:
        return ["datetime", [rng.randint(1000, 9999), rng.randint(1, 12), rng.randint(1, 28), rng.randint(0, 23), rng.randint(0, 59), rng.randint(0, 59), rng.choice([0, 0, 5, 999999])]]
    if k == 12 and rng.random() < 0.4:
        return gen_td64(rng, nat=0.0)
    if k == 12:
        if rng.random() < 0.35:
            return ["mdn", [rng.choice([0, 0, 1, 11, 12, 13, 25, -1, -13]), rng.choice([0, 0, 3, -3, 400]),
                            rng.choice([0, 1, 59, 60, 61, 3599, 3600, 3661, 86399, 90061, -1, -3600, -3661, 10**6]) * 10**9
                            + rng.choice([0, 0, 0, 500000000])]]
        return ["timedelta", [rng.choice([0, 0, 1, 3, -3, 400, 99999]), rng.choice([0, 0, 5, 59, 60, 3600, 3723, 86399]), rng.choice([0, 0, 0, 5, 500000, 999999])]]
    if k == 13:
        return ["dict", [[["str", gen_ascii(rng, 4, ctrl)], rng.choice([["int", rng.randint(0, 99)], ["str", gen_ascii(rng, 5, ctrl)], ["none"]])] for _ in range(rng.randint(0, 3))]]
    if k == 14:
        return [rng.choice(["list", "tuple"]), [rng.choice([["int", rng.randint(-5, 500)], ["str", gen_ascii(rng, 5, ctrl)], ["none"], ["float", 0.5]]) for _ in range(rng.randint(0, 4))]]
    return rng.choice([["time", [rng.randint(0, 23), rng.randint(0, 59), rng.randint(0, 59), 0]], ["set", [["int", rng.randint(0, 9)]]],
                       ["complex", [1.0, -2.0]], ["set", []]])


def gen_td64(rng, nat=0.04):
    """numpy.timedelta64 over every unit numpy has (and none), steps (`timedelta64[25s]`) and the whole 64-bit range of
    counts: small, around 2^53 (where doubles stop being exact), powers of two, exactly at / one past the count whose
    length in seconds (months) no longer fits 64 bits, the extremes."""
    unit = rng.choice(TD_UNITS)
    step = 1 if unit == "generic" or rng.random() < 0.7 else rng.choice([2, 3, 5, 7, 10, 25, 60, 125, 1000, 1024, 86400, 2**31 - 1])
    scale = step * (TD_MONTHS[unit] if unit in TD_MONTHS else TD_SECONDS[unit][0])
    r = rng.random()
    if r < 0.2:
        n = rng.randint(-(2**63) + 1, 2**63 - 1)
    elif r < 0.35:
        n = rng.choice([1, -1]) * 2 ** rng.randint(0, 62) + rng.randint(-2, 2)
    elif r < 0.55:
        n = rng.randint(-(10**6), 10**6)
    elif r < 0.65:
        n = rng.choice([1, -1]) * rng.randint(2**52, 2**54)
    elif r < 0.8:
        n = rng.choice([1, -1]) * ((2**63 - 1) // scale) + rng.choice([-1, 0, 1, 2])
    else:
        n = rng.choice([0, 1, -1, 2**63 - 1, -(2**63) + 1, 2**53, 2**53 + 1, -(2**53) - 1, 59, 60, 3599, 3600, 86399, 86400, 86401,
                        10**9, 10**18, 10**18 + 1, 12, 13, -13])
    n = max(-(2**63) + 1, min(2**63 - 1, n))
    if rng.random() < nat:
        n = "NaT"
    return ["td64", [n, unit, step]]


def gen_any_cell(rng, depth=1):
    """Every value kind the statement lists."""
    if rng.random() < 0.08:
        return gen_edge_cell(rng)
    k = rng.randrange(30)
    if k < 16:
        c = gen_model_cell(rng, True)
        if c[0] == "str" and rng.random() < 0.7:
            c = ["str", gen_unicode(rng)]
        if c[0] == "bytes":
            c = ["bytes", gen_bytes(rng)]
        return c
    if k == 16:
        return ["bytearray", gen_bytes(rng)]
    if k == 17 and rng.random() < 0.8:
        return gen_td64(rng)
    if k == 17:
        return ["td64", rng.choice([[0, "s"], [90061, "s"], [-5, "D"], [3, "M"], [-14, "M"], [2, "Y"], [7, "W"], [123456789, "ns"], [5, "us"],
                                     [10**15, "ms"], [1, "h"], [59, "m"], ["NaT", "ns"], ["NaT", "D"], [2**62, "ns"], [-(2**62), "us"], [10**12, "D"]])]
    if k == 18:
        return ["dt64", rng.choice(["2020-01-01", "1970-01-01T00:00:00", "NaT", "2262-04-11T23:47:16.854775807", "0001-01-01", "2020-02"])]
    if k == 19:
        return ["mdn", [rng.randint(-30, 30), rng.randint(-40, 40), rng.choice([0, 1, 10**9, 86399 * 10**9, -5 * 10**9, 123456789])]]
    if k == 20:
        t = rng.choice(["int8", "int64", "uint8", "uint64", "float16", "float32", "float64", "bool_", "longdouble", "intc"])
        v = rng.choice([0, 1, 5, 100]) if "int" in t else (rng.random() < 0.5 if t == "bool_" else rng.choice([0.0, 1.5, float("nan"), float("inf"), -2.5, 0.1]))
        return ["np", t, v]
    if k == 21:
        return ["np", "str_", gen_unicode(rng, 6)]
    if k == 22:
        return ["np", "bytes_", gen_bytes(rng)]
    if k == 23:
        return ["np", rng.choice(["complex128", "complex64"]), rng.choice([0.0, 1.5])]
    if k == 24:
        t = rng.choice(["int64", "float64", "bool", "object", "U5", "S3", "float32"])
        n = rng.randint(0, 4)
        if t in ("int64",):
            xs = [["int", rng.randint(-9, 99)] for _ in range(n)]
        elif t in ("float64", "float32"):
            xs = [["float", rng.choice([0.5, float("nan"), 1e10])] for _ in range(n)]
        elif t == "bool":
            xs = [["bool", rng.random() < 0.5] for _ in range(n)]
        elif t == "U5":
            xs = [["str", gen_unicode(rng, 4).replace("\x00", "")] for _ in range(n)]
        elif t == "S3":
            xs = [["bytes", gen_bytes(rng, ascii_only=True)[:3]] for _ in range(n)]
        else:
            xs = [gen_model_cell(rng, True) for _ in range(n)]
            xs = [x for x in xs if x[0] in ("none", "int", "str", "float", "bool")]
        return ["nparr", t, xs]
    if k == 25:
        return ["nparr", "int64", [["list", [["int", 1], ["int", 2]]], ["list", [["int", 3], ["int", 4]]]]]
    if k == 26 and depth > 0:
        return [rng.choice(["list", "tuple"]), [gen_any_cell(rng, depth - 1) for _ in range(rng.randint(0, 3))]]
    if k == 27 and depth > 0:
        return ["dict", [[rng.choice([["str", gen_unicode(rng, 4)], ["int", rng.randint(0, 5)]]), gen_any_cell(rng, depth - 1)] for _ in range(rng.randint(0, 3))]]
    if k == 28:
        return ["int", rng.choice([2**63, -(2**64), 10**100, 10**4000])]
    return rng.choice([["float", rng.choice([float("nan"), float("inf"), float("-inf"), 5e-324, 1.7976931348623157e308])],
                       ["dec", rng.choice(["NaN", "sNaN", "Infinity", "-0", "1E-100", "1E+1000"])],
                       ["time", [23, 59, 59, 999999]], ["none"], ["set", [["str", gen_unicode(rng, 3)]]]])


def _width_sample():
    """Characters of every East-Asian-width category (F W H Na N A), spread over the planes, plus the usual suspects:
    combining marks, zero-width and bidi controls, the box characters and the replacement character."""
    cats = {}
    for cp in list(range(0x80, 0x3100)) + list(range(0x3100, 0x30000, 97)) + list(range(0xE0000, 0xE0200, 13)):
        if 0xD800 <= cp <= 0xDFFF:
            continue
        cats.setdefault(unicodedata.east_asian_width(chr(cp)), []).append(chr(cp))
    out = {}
    for c, xs in cats.items():
        step = max(1, len(xs) // 60)
        out[c] = xs[::step][:60]
    out["misc"] = list("\u0301\u200b\u200d\u202e\ufeff\ufffd│─↵\u00ad\u2028\u0085\U0001f600\U0001f1e6日本語한ｱＡé")
    return out


WIDTH_SAMPLE = _width_sample()


def gen_wide_text(rng, maxlen=10):
    n = rng.randint(0, maxlen)
    cats = sorted(WIDTH_SAMPLE)
    out = []
    for _ in range(n):
        r = rng.random()
        out.append(rng.choice(PRINTABLE) if r < 0.35 else rng.choice(WIDTH_SAMPLE[rng.choice(cats)]))
    return "".join(out)


def widen(rng, case):
    """Replace the text of a render case by text over every East-Asian-width category."""
    case["names"] = [gen_wide_text(rng, 8) if rng.random() < 0.6 else n for n in case["names"]]

    def w(cell):
        if cell[0] == "str" and rng.random() < 0.8:
            return ["str", gen_wide_text(rng, 12)]
        if cell[0] == "bytes" and rng.random() < 0.5:
            return ["bytes", gen_wide_text(rng, 5).encode("utf-8")]
        if cell[0] in ("list", "tuple"):
            return [cell[0], [w(x) for x in cell[1]]]
        if cell[0] == "dict":
            return ["dict", [[w(a), w(b)] for a, b in cell[1]]]
        return cell

    case["rows"] = [[w(c) for c in r] for r in case["rows"]]
    case["wide_text"] = True
    return case


def gen_frame_case(rng, kind):
    ctrl = kind == "render" and rng.random() < 0.35
    ncols = rng.choice([0, 1, 1, 2, 2, 3, 4]) if rng.random() < 0.9 else rng.randint(5, 8)
    nrows = rng.choice([0, 1, 2, 3, 4, 5, 6, 7, 9, 13, 25]) if rng.random() < 0.8 else rng.randint(0, 40)
    limit = rng.choice([1, 1, 2, 2, 3, 3, 4, 5, 6, 10, 12, 30])
    if kind == "render":
        names = [gen_ascii(rng, 8, ctrl and rng.random() < 0.3) if rng.random() < 0.9 else gen_ascii(rng, 45) for _ in range(ncols)]
        cell = lambda: gen_model_cell(rng, ctrl)  # noqa
    else:
        names = [gen_unicode(rng, 8) if rng.random() < 0.5 else gen_ascii(rng, 8) for _ in range(ncols)]
        cell = lambda: gen_any_cell(rng)  # noqa
    # columns are homogeneous most of the time (a frame has typed columns), mixed sometimes
    cols = []
    for _ in range(ncols):
        if rng.random() < 0.6:
            proto = cell()
            col = []
            for _ in range(nrows):
                c = cell()
                tries = 0
                while c[0] != proto[0] and tries < 30:
                    c = cell()
                    tries += 1
                col.append(c if rng.random() < 0.9 else ["none"])
        else:
            col = [cell() for _ in range(nrows)]
        cols.append(col)
    rows = [[cols[j][i] for j in range(ncols)] for i in range(nrows)]
    case = {
        "kind": kind, "names": names, "rows": rows, "limit": limit, "tt": rng.random() < 0.75, "lazy": rng.random() < 0.5,
        "show_types": rng.random() < 0.5, "maxcol": rng.choice([1, 2, 3, 4, 5, 8, 12, 30, 32, 60]),
        "dw": rng.choice([1, 2, 3, 7, 10, 20, 40, 80, 5000, 5000, 5000]),
        "coltypes": [rng.choice(COLTYPES) for _ in range(ncols)] if rng.random() < 0.5 else None,
    }
    if case["coltypes"] is not None and ncols >= 2 and rng.random() < 0.35:
        # columns that collide by name: a later column named like an earlier one, or like an earlier one's alias
        # (positions, not names, decide which type / value is printed where)
        i, j = sorted(rng.sample(range(ncols), 2))
        if rng.random() < 0.5:
            case["names"][j] = case["names"][i]
        else:
            case["aliases"] = [[] for _ in range(ncols)]
            case["aliases"][i] = [case["names"][j]]
        case["show_types"] = case["show_types"] or rng.random() < 0.7
    if kind == "total":
        case["via"] = rng.choice(["display", "display", "markdown", "str", "ascii", "display_default", "repr", "notebook"])
        case["colorize"] = rng.random() < 0.5
    else:
        case["via"] = "ascii" if rng.random() < 0.7 else "display"
        if case["via"] == "display":
            case["tt"] = True
        if rng.random() < 0.25:
            widen(rng, case)
    return case


EXOTIC = [
    ["dec", "sNaN"], ["dec", "-sNaN123"], ["dec", "NaN"], ["dec", "-Infinity"], ["dec", "1E+1000"], ["td64", ["NaT", "ns"]], ["td64", ["NaT", "M"]],
    ["td64", [5, "Y"]], ["td64", [-14, "M"]], ["td64", [10**6, "D"]], ["td64", [2**62, "ns"]], ["td64", [7, "W"]], ["dt64", "NaT"],
    ["td64", [2**62, "W"]], ["td64", [2**63 - 1, "D"]], ["td64", [-(2**63) + 1, "h"]], ["td64", [2**62, "m"]], ["td64", [1, "as"]],
    ["td64", [-(2**63) + 1, "as"]], ["td64", [2**62, "Y"]], ["td64", [2**62, "s", 25]], ["td64", [2**61, "Y", 3]], ["td64", [5, "generic"]],
    ["td64", [2**63 - 1, "fs"]], ["td64", [2**53 + 1, "s"]], ["td64", [7, "ms", 7]], ["td64", [1, "as", 1000]], ["td64", [2**63 - 1, "M"]],
    ["dt64", "2020-02"], ["int", 10**4000], ["int", -(2**64)], ["str", "\ud800"], ["str", "a\ud800b\n\r\x1b[0m\x01OFFm"],
    ["str", "日本語한\U0001f600​́‮"], ["bytes", b"\xff\xfe\x00\n"], ["bytearray", b"\xed\xa0\x80"],
    ["list", [["list", [["int", 1]]], ["dict", [[["str", "k"], ["none"]]]], ["bytes", b"\xff"]]],
    ["dict", [[["str", "k"], ["list", [["int", 1], ["float", float("nan")]]]]]], ["dict", [[["int", 1], ["dict", []]]]], ["tuple", []], ["frozenset", [["int", 1]]],
    ["list", []], ["dict", []], ["set", []], ["np", "float16", 0.5], ["np", "longdouble", 1.5], ["np", "uint64", 2**64 - 1], ["np", "int8", -128],
    ["np", "float32", float("nan")], ["np", "float64", float("-inf")], ["np", "bool_", True], ["np", "complex64", 1.5], ["np", "str_", "日本"],
    ["np", "bytes_", b"\xff"], ["nparr", "int64", []], ["nparr0", "int64", 5], ["nparr0", "uint8", 255],
    ["nparr", "int64", [["list", [["int", 1], ["int", 2]]], ["list", [["int", 3], ["int", 4]]]]], ["nparr", "object", [["none"], ["str", "x"]]],
    ["nparr", "U5", [["str", "é"]]], ["mdn", [-13, 40, 86399 * 10**9 + 5]], ["mdn", [0, 0, 0]], ["timedelta", [-999999999, 0, 0]],
    ["timedelta", [0, 0, 1]], ["time", [23, 59, 59, 999999]], ["date", [1, 1, 1]], ["datetime", [9999, 12, 31, 23, 59, 59, 999999]],
    ["float", 5e-324], ["float", -0.0], ["float", float("nan")], ["bool", False], ["none"], ["complex", [0.0, -1.0]],
]


# --------------------------------------------------------------------------- edge values (seventh pass)

EDGE_OFFSETS = [1, -1, 59, -59, 60, -60, 300, -300, 330, 345, -570, 720, -720, 765, 840, 1439, -1439]
EDGE_ZONES = ["Pacific/Kiritimati", "Pacific/Pago_Pago", "America/New_York", "Asia/Kolkata", "Europe/London", "Australia/Lord_Howe", "UTC"]
DT_MAX = [9999, 12, 31, 23, 59, 59, 999999]
DT_MIN = [1, 1, 1, 0, 0, 0, 0]
DT64_UNITS = ["Y", "M", "W", "D", "h", "m", "s", "ms", "us", "ns", "ps", "fs", "as"]
_ZONES = None


def edge_zones():
    """The named zones this machine has (none without a zone database: the fixed offsets remain)."""
    global _ZONES
    if _ZONES is None:
        _ZONES = []
        try:
            import zoneinfo

            for z in EDGE_ZONES:
                try:
                    zoneinfo.ZoneInfo(z)
                    _ZONES.append(z)
                except Exception:  # noqa
                    pass
        except Exception:  # noqa
            pass
    return _ZONES


def _dt_fields(d):
    return [d.year, d.month, d.day, d.hour, d.minute, d.second, d.microsecond]


def gen_edge_datetime(rng):
    """An aware timestamp within (twice) its offset of datetime.min / datetime.max — on either side of the point where
    its UTC equivalent leaves the years 1..9999 —, or a naive one at the two ends."""
    r = rng.random()
    if r < 0.12:
        return ["datetime", rng.choice([DT_MIN, DT_MAX, [1, 1, 1, 0, 0, 0, 1], [9999, 12, 31, 0, 0, 0, 0]])]
    zones = edge_zones()
    zone = rng.choice(zones) if zones and rng.random() < 0.3 else (rng.choice(EDGE_OFFSETS) if rng.random() < 0.7 else rng.randint(-1439, 1439))
    span = 2 * abs(zone) + 2 if isinstance(zone, int) else 2 * 14 * 60
    back = datetime.timedelta(minutes=rng.randint(0, span), seconds=rng.choice([0, 0, 1, 59]), microseconds=rng.choice([0, 0, 1, 999999]))
    if rng.random() < 0.25:
        back = datetime.timedelta(0)
    if rng.random() < 0.5:
        return ["datetime", _dt_fields(datetime.datetime.max - back) + [zone]]
    return ["datetime", _dt_fields(datetime.datetime.min + back) + [zone]]


EDGE_FIXED = {
    "date": [["date", [1, 1, 1]], ["date", [9999, 12, 31]], ["date", [1, 1, 2]], ["date", [9999, 12, 30]]],
    "time": [["time", [0, 0, 0, 0]], ["time", [23, 59, 59, 999999]], ["time", [0, 0, 0, 0, 1439]], ["time", [23, 59, 59, 999999, -1439]],
             ["time", [0, 0, 0, 1, -1]], ["time", [23, 59, 59, 999999, 1]], ["time", [12, 0, 0, 0, 0]]],
    "timedelta": [["timedelta", [-999999999, 0, 0]], ["timedelta", [999999999, 86399, 999999]], ["timedelta", [0, 0, 1]], ["timedelta", [-1, 86399, 999999]],
                  ["timedelta", [999999999, 0, 0]], ["timedelta", [-999999999, 86399, 999999]]],
    "dec": [["dec", x] for x in ["1E+999999999999999999", "-9.999999E+999999999999999999", "1E-999999999999999999", "1E-1999999999999999997",
                                 "-1E-1999999999999999997", "0E+999999999999999999", "-0E-999999999999999999", "sNaN", "-sNaN", "-0", "-NaN999",
                                 "1E+4300", "1E-4300", "1." + "3" * 300, "9" * 400, "Infinity", "-Infinity", "1E+1000000", "123.456E-1000000"]],
    "int": [["int", 2**63 - 1], ["int", -(2**63)], ["int", 2**64], ["intpow", [1, 10, 4299, 0]], ["intpow", [1, 10, 4300, -1]], ["intpow", [-1, 10, 4300, 1]],
            ["intpow", [1, 2, 14000, 0]], ["intpow", [1, 10, 1000, 7]]],
    "float": [["float", x] for x in [1.7976931348623157e308, -1.7976931348623157e308, 5e-324, -5e-324, 2.2250738585072014e-308, float("nan"),
                                     float("inf"), float("-inf"), -0.0, 1e16, 9007199254740993.0, 1e-5, 0.1 + 0.2]],
    "text": [["strrep", ["x", 20000]], ["strrep", ["ab ", 3000]], ["strrep", ["a\n", 4000]], ["strrep", ["\u65e5", 5000]], ["strrep", ["\x01", 3000]],
             ["strrep", ["\U0001f600", 2000]]],
    "bytes": [["bytesrep", [b"\xff", 20000]], ["bytesrep", [b"ab", 10000]], ["bytesrep", [b"\x00\n", 5000]], ["bytesrep", [b"\xe6\x97", 5001]]],
    "dt64": [["dt64", [n, u]] for u in DT64_UNITS for n in (2**63 - 1, -(2**63) + 1)] + [["dt64", [0, "as"]], ["dt64", [-1, "ns"]], ["dt64", [2**62, "us"]],
                                                                                       ["dt64", [-(2**62), "D"]], ["dt64", [9999 - 1970, "Y"]], ["dt64", [10000 - 1970, "Y"]],
                                                                                       ["dt64", [-1970, "Y"]], ["dt64", [-1971, "Y"]]],
    "td64": [["td64", [n, u, 1]] for u in TD_UNITS for n in (2**63 - 1, -(2**63) + 1)],
    "np": [["np", "int64", -(2**63)], ["np", "int64", 2**63 - 1], ["np", "uint64", 2**64 - 1], ["np", "int8", -128], ["np", "float64", 1.7976931348623157e308],
           ["np", "float64", 5e-324], ["np", "float32", 3.4028234663852886e38], ["np", "float32", 1e-45], ["np", "float16", 65504.0], ["np", "float16", 6e-8],
           ["np", "longdouble", 1.7976931348623157e308], ["np", "float64", float("-inf")]],
}
# more digits than str() of an int gives (sys.get_int_max_str_digits(), 4300 unless configured): the open finding C18-K01
EDGE_BEYOND = [["intpow", [1, 10, 4300, 0]], ["intpow", [-1, 10, 5000, 0]], ["intpow", [1, 2, 20000, 1]], ["list", [["intpow", [1, 10, 4300, 0]]]]]
EDGE_MODEL_KINDS = ("datetime", "date", "time", "timedelta", "dec", "int", "float", "text", "bytes", "td64")


def edge_ascii_ok(spec):
    return not (spec[0] in ("strrep", "bytesrep") and not all(32 <= (c if isinstance(c, int) else ord(c)) < 127 for c in spec[1][0]))


def gen_edge_cell(rng, model=False, small=False):
    """A value at an edge of the range of its kind. `model`: kinds the Lean model formats, printable ASCII content;
    `small`: nothing longer than a few thousand characters."""
    kinds = EDGE_MODEL_KINDS if model else ("datetime",) + tuple(EDGE_FIXED)
    k = rng.choice(kinds + ("datetime", "datetime"))
    if k == "datetime":
        return gen_edge_datetime(rng)
    c = rng.choice(EDGE_FIXED[k])
    if k == "time" and rng.random() < 0.3 and edge_zones() and len(c[1]) == 4:
        c = ["time", c[1] + [rng.choice(edge_zones())]]
    if model and not edge_ascii_ok(c):
        c = ["strrep", ["xy", 700]]
    if (model or small) and c[0] in ("strrep", "bytesrep"):
        c = [c[0], [c[1][0], min(c[1][1], 1500)]]
    if not model and not small and rng.random() < 0.04:
        c = rng.choice(EDGE_BEYOND)
    return c


def edge_cases(rng):
    """The deterministic part of the edge stream: every fixed edge value (and a sample of aware timestamps around both ends
    for every offset of EDGE_OFFSETS and every named zone) as one cell through type_formatter, as a column of an eager and of a
    lazily backed frame through every renderer, and — the modelled kinds — against the model with the width clause."""
    stamps = []
    for z in EDGE_OFFSETS + edge_zones():
        span = abs(z) if isinstance(z, int) else 14 * 60
        for base, sign in ((datetime.datetime.max, -1), (datetime.datetime.min, 1)):
            for back in (0, max(span - 1, 0), span, span + 1):
                stamps.append(["datetime", _dt_fields(base + sign * datetime.timedelta(minutes=back)) + [z]])
    stamps += [["datetime", DT_MIN], ["datetime", DT_MAX]]
    groups = dict(EDGE_FIXED, datetime=stamps, beyond=EDGE_BEYOND)
    out = []
    for name, cells in groups.items():
        out += [{"kind": "fmt", "cell": c, "maxcol": 40} for c in cells]
        col = cells if len(cells) <= 12 else rng.sample(cells, 12)
        col = [c if c[0] not in ("strrep", "bytesrep") else [c[0], [c[1][0], min(c[1][1], 3000)]] for c in col]
        rows = [[["int", i], c] for i, c in enumerate(col)]
        for lazy in (False, True):
            for via in ("ascii", "display", "display_default", "markdown", "str", "repr", "notebook"):
                out.append({"kind": "total", "names": ["id", name], "rows": rows, "limit": rng.choice([1, 3, 20]), "tt": rng.random() < 0.7, "lazy": lazy,
                            "show_types": rng.random() < 0.5, "maxcol": rng.choice([5, 30, 60]), "dw": rng.choice([20, 80, 5000]), "coltypes": None,
                            "via": via, "colorize": rng.random() < 0.5})
            if name in EDGE_MODEL_KINDS:
                mcol = [c for c in col if edge_ascii_ok(c)]
                mcol = [c if c[0] not in ("strrep", "bytesrep") else [c[0], [c[1][0], min(c[1][1], 600)]] for c in mcol]
                for via in ("ascii", "display"):
                    out.append({"kind": "render", "names": ["id", name], "rows": [[["int", i], c] for i, c in enumerate(mcol)], "limit": 20, "tt": True,
                                "lazy": lazy, "show_types": via == "display", "maxcol": rng.choice([8, 30, 60]), "dw": rng.choice([40, 5000]),
                                "coltypes": None, "via": via})
    return out


def _has_int_beyond_str_digits(v):
    import sys

    import numpy

    if isinstance(v, bool):
        return False
    if isinstance(v, int):
        lim = sys.get_int_max_str_digits() if hasattr(sys, "get_int_max_str_digits") else 0
        return lim > 0 and abs(v) >= 10**lim
    if isinstance(v, dict):
        return any(_has_int_beyond_str_digits(a) or _has_int_beyond_str_digits(b) for a, b in v.items())
    if isinstance(v, (list, tuple, set, frozenset)):
        return any(_has_int_beyond_str_digits(x) for x in v)
    if isinstance(v, numpy.ndarray) and v.dtype == object:
        return _has_int_beyond_str_digits(v.tolist())
    return False


def k_int_beyond_str_digits(case, failure):
    """A cell is (or holds) an int with more digits than str() converts (sys.get_int_max_str_digits()): ValueError in every renderer."""
    if not str(failure.get("clause", "")).startswith("rendering raised ValueError"):
        return False
    try:
        cells = [case["cell"]] if case.get("kind") == "fmt" else [c for r in case.get("rows", []) for c in r]
        return any(_has_int_beyond_str_digits(mk(c)) for c in cells)
    except Exception:  # noqa
        return False


def gen_td_case(rng):
    c = gen_td64(rng, nat=0.0)
    return {"kind": "td", "cell": c[1]}


def gen_fmt_case(rng):
    r = rng.random()
    cell = rng.choice(EXOTIC) if r < 0.35 else gen_any_cell(rng, 1)
    return {"kind": "fmt", "cell": cell, "maxcol": rng.choice([1, 3, 4, 10, 40, 40, 40])}


def gen_seq_case(rng):
    limit = rng.choice([1, 2, 3, 5, 10])
    n = rng.choice([0, 1, 2 * limit - 1, 2 * limit, 2 * limit + 1, 2 * limit + 2, 20, 21, 22, 99, 100, 101]) if rng.random() < 0.8 else rng.randint(0, 60)
    ops = [rng.choice(SEQ_OPS) for _ in range(rng.randint(2, 6))]
    return {"kind": "seq", "n": n, "limit": limit, "lazy": rng.random() < 0.35, "tt": rng.random() < 0.7, "ops": ops}


def gen_markdown_case(rng):
    ncols = rng.choice([0, 1, 1, 2, 3])
    nrows = rng.choice([0, 1, 2, 3, 9, 10, 11, 12, 25, 99, 100, 101]) if rng.random() < 0.6 else rng.randint(0, 30)

    def cell():
        r = rng.random()
        if r < 0.15:
            return ["none"]
        if rng.random() < 0.08:
            c = gen_edge_cell(rng, small=True)
            return c if model_text_ok(["str", str(mk(c))]) else ["none"]
        if r < 0.4:
            return ["int", rng.choice([0, 7, -300, 123456, 10**12])]
        if r < 0.5:
            return ["float", rng.choice([1.5, -0.25, 1e300, float("nan")])]
        if r < 0.6:
            return ["bool", rng.random() < 0.5]
        if r < 0.9:
            return ["str", gen_unicode(rng, 8).replace("\ud800", "")]
        return rng.choice([["list", [["int", 1], ["str", "a"]]], ["dict", [[["str", "k"], ["int", 1]]]], ["bytes", b"ab\xff"], ["date", [2020, 1, 2]]])

    cols = []
    for _ in range(ncols):
        allnone = rng.random() < 0.12
        cols.append([["none"] if allnone else cell() for _ in range(nrows)])
    return {"kind": "markdown", "names": [gen_unicode(rng, 6).replace("\ud800", "") if rng.random() < 0.4 else gen_ascii(rng, 8) for _ in range(ncols)],
            "rows": [[cols[j][i] for j in range(ncols)] for i in range(nrows)], "limit": rng.choice([1, 2, 5, 9, 10, 11, 50, 200]),
            "maxcol": rng.choice([0, 1, 2, 3, 4, 5, 8, 30]), "lazy": rng.random() < 0.4}


def gen_colorize_case(rng):
    colors = _colors() or {}
    keys = list(colors) or ["\x01OFFm"]
    parts = []
    for _ in range(rng.randint(0, 8)):
        r = rng.random()
        if r < 0.4:
            parts.append(rng.choice(keys))
        elif r < 0.5:  # damaged or unknown tokens, overlapping markers
            k = rng.choice(keys)
            parts.append(rng.choice([k[:-1], k[1:], "\x01" + k, k + "m", "\x01NOPEm", "\x01", k.lower(), k[: len(k) // 2] + k]))
        elif r < 0.6:
            parts.append(rng.choice(["\x1b[0m", "\x1b", "m", "\\u0001OFFm", "\n"]))
        else:
            parts.append(gen_ascii(rng, 6))
    return {"kind": "colorize", "on": rng.random() < 0.5, "text": "".join(parts)}


def sel_exhaustive(nmax, lmax):
    for n in range(nmax + 1):
        for limit in range(1, lmax + 1):
            for lazy in (False, True):
                for tt in (True, False):
                    yield {"kind": "sel", "n": n, "limit": limit, "tt": tt, "lazy": lazy, "via": "ascii", "cols": 1 + (n + limit) % 2,
                           "show_types": bool((n + limit) % 3 == 0), "colorize": bool(n % 2)}
                yield {"kind": "sel", "n": n, "limit": limit, "tt": True, "lazy": lazy, "via": "display", "cols": 1,
                       "show_types": bool(n % 2), "colorize": bool(limit % 2)}
    for n in range(nmax + 1):
        for lazy in (False, True):
            yield {"kind": "sel", "n": n, "limit": 10, "tt": True, "lazy": lazy, "via": "str", "cols": 1}


def sel_random(rng):
    n = rng.choice([0, 1, 9, 10, 11, 99, 100, 101, 199, 200, 201, 999, 1000, 1001]) if rng.random() < 0.5 else rng.randint(0, 400)
    limit = rng.choice([1, 2, 5, 9, 10, 50, 99, 100, 101, 150, 500]) if rng.random() < 0.6 else rng.randint(1, 60)
    via = rng.choice(["ascii", "ascii", "ascii", "display", "str", "display_default"])
    return {"kind": "sel", "n": n, "limit": limit, "tt": True if via != "ascii" else rng.random() < 0.6, "lazy": rng.random() < 0.5,
            "via": via, "cols": rng.choice([1, 2]), "show_types": rng.random() < 0.5, "colorize": rng.random() < 0.5,
            "dw": 300}


def check_width_table(ctx):
    chars = "".join(chr(i) for i in range(128)) + BOX_CHARS
    out = ctx.model.one("C18 cw " + wire.line(chars))
    m = wire.dec_all(out[3:])[0]
    want = [2 if unicodedata.east_asian_width(c) in ("F", "N", "W") else 1 for c in chars]
    if m != want:
        bad = [(hex(ord(c)), a, b) for c, a, b in zip(chars, m, want) if a != b]
        raise InfraError("unicodedata width table differs from the model's parameter cwModel: %r" % bad[:10])


def regression_cases():
    p = os.path.join(VERIF, "findings", "C18.json")
    out = []
    if os.path.exists(p):
        from ..core import unjson

        for f in json.load(open(p)):
            if f.get("status") == "fixed" and "witness" in f:
                out.append(unjson(f["witness"]))
    return out


def run(ctx):
    ctx.note("rule", "cases are (a) selection frames with distinct integer rows, (b) frames over the modelled cell kinds "
             "rendered by the implementation and by Model/Display.lean, (c) frames over every value kind of the statement "
             "for the never-fails clause, (d) byte strings for the UTF-8 decoder; non-trivial = at least one row and one column "
             "(one byte for (d)); distinct by canonical JSON of the case")
    ctx.note("assumptions", [
        "Python's str()/strftime/f-string text of numbers, dates, containers and objects, len(str(v)), unicodedata.east_asian_width and bytes.decode "
        "are parameters of the model: compared on every run, not modelled",
        "limit >= 1, max_column_width >= 1, display_width >= 1; integers beyond CPython's str() digit limit (4300) are generated and fail in every "
        "renderer: the open finding C18-K01",
        "the footer '[ n rows x m columns ]' of str() is not part of the property (it reports 0 rows for a lazily backed frame)",
    ])
    check_width_table(ctx)
    check_py_facts(ctx)
    evaluate(ctx, [{"kind": "fmt", "cell": c, "maxcol": 40} for c in EXOTIC])
    edge = [c for c in edge_cases(ctx.rng) if valid_case(c)]
    ctx.note("edge_values", "%d deterministic edge-value cases (one cell through type_formatter; a column of an eager / lazily backed frame through "
             "every renderer; modelled kinds against the model with the width clause), plus edge cells mixed into the random streams" % len(edge))
    evaluate(ctx, edge)
    evaluate(ctx, [c for c in regression_cases() if valid_case(c)])
    nmax, lmax = ctx.scale((25, 12), (40, 20))
    batch = list(sel_exhaustive(nmax, lmax))
    evaluate(ctx, batch)
    ctx.exhaustive = False
    ctx.note("exhaustive_scope", "every (n, limit, mode, eager/lazy) with n in 0..%d, limit in 1..%d through ascii_table, DataFrame.display "
             "and str(): %d renderings; then random frames" % (nmax, lmax, len(batch)))
    n_sel, n_render, n_total, n_dec = ctx.scale((300, 1100, 1500, 1500), (3000, 12000, 20000, 20000))
    n_md, n_col = ctx.scale((500, 800), (6000, 10000))
    n_fmt = ctx.scale(1200, 15000)
    n_seq = ctx.scale(600, 8000)
    n_td = ctx.scale(1500, 20000)
    rng = ctx.rng
    groups = [
        [gen_td_case(rng) for _ in range(n_td)],
        [sel_random(rng) for _ in range(n_sel)],
        [{"kind": "decode", "bytes": gen_bytes(rng)} for _ in range(n_dec)],
        [gen_colorize_case(rng) for _ in range(n_col)],
        [gen_markdown_case(rng) for _ in range(n_md)],
        [gen_fmt_case(rng) for _ in range(n_fmt)],
        [gen_seq_case(rng) for _ in range(n_seq)],
        [gen_frame_case(rng, "render") for _ in range(n_render)],
        [gen_frame_case(rng, "total") for _ in range(n_total)],
    ]
    for g in groups:
        for i in range(0, len(g), 500):
            if ctx.time_left() < 3:
                ctx.hit("stopped-early-out-of-time")
                return
            evaluate(ctx, g[i : i + 500])


def intensify(ctx):
    rng = ctx.rng
    for _ in range(40):
        if ctx.time_left() < 3 or ctx.violations:
            return
        evaluate(ctx, [gen_frame_case(rng, "render") for _ in range(300)] + [sel_random(rng) for _ in range(100)]
                 + [gen_frame_case(rng, "total") for _ in range(300)] + [gen_markdown_case(rng) for _ in range(100)]
                 + [gen_fmt_case(rng) for _ in range(200)] + [gen_seq_case(rng) for _ in range(100)] + [gen_td_case(rng) for _ in range(200)])


def replay(ctx, case):
    if not valid_case(case):
        raise InfraError("stored case is not a valid C18 case: %r" % (case,))
    evaluate(ctx, [case])


KNOWN_PREDICATES = {"int_beyond_str_digits": k_int_beyond_str_digits}
