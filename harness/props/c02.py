"""C02 — Dictionary records map onto rows by field name.

Row(dict), DataFrame(dicts) and append(dict) are run on orso and on Model/DictRow.lean;
the oracle is the field-to-value association evaluated directly on the implementation's rows.
"""
import itertools
import json
import math

from .. import wire
from ..core import InfraError, shrink
from ..gen import gen_pyval, gen_text

NAMES = ["a", "b", "c", "d", "id", "Name", "é", "", "a b", "x|y", "日本", "A"]


def json_native(v):
    if v is None or isinstance(v, (bool, str)):
        return True
    if isinstance(v, int):
        return -(2**63) <= v < 2**64
    if isinstance(v, float):
        return math.isfinite(v)
    if isinstance(v, list):
        return all(json_native(x) for x in v)
    if isinstance(v, dict):
        return all(isinstance(k, str) and json_native(x) for k, x in v.items())
    return False


def canon(v):
    """Python value -> wire universe (tuples/Rows become lists)."""
    if isinstance(v, tuple):
        return [canon(x) for x in v]
    if isinstance(v, list):
        return [canon(x) for x in v]
    if isinstance(v, dict):
        return {k: canon(x) for k, x in v.items()}
    return v


# ----------------------------------------------------------------------------- implementation


def impl_row(case):
    from orso.row import Row

    fields = case["fields"]
    d = case["dict"]
    cls = Row.create_class(list(fields))
    row = cls(dict(d))
    out = {"row": canon(tuple(row)), "as_map": [[k, canon(v)] for k, v in row.as_map],
           "as_dict": [[k, canon(v)] for k, v in row.as_dict.items()], "values": canon(row.values),
           "keys": list(row.keys()), "gets": []}
    for p in case["probes"]:
        try:
            out["gets"].append(canon(row.get(p, case["default"])))
        except Exception as e:
            out["gets"].append({"__raised__": type(e).__name__})
    try:
        out["get_nodefault"] = [canon(row.get(p)) for p in case["probes"]]
    except Exception as e:
        out["get_nodefault"] = {"__raised__": type(e).__name__}
    if json_native(out["row"]):
        try:
            out["json"] = json.loads(row.as_json)
        except Exception as e:
            out["json"] = {"__raised__": type(e).__name__}
    return out


_SHADOW = None


def shadow_extract():
    """extract_dict_columns of the working tree's compiled.pyx, de-cythonised (None when unavailable)."""
    global _SHADOW
    if _SHADOW is None:
        try:
            from .. import core, pyxshadow

            funcs, _ = pyxshadow.load(core.REPO)
            _SHADOW = (funcs.get("extract_dict_columns"),)
        except Exception:
            _SHADOW = (None,)
    return _SHADOW[0]


def oracle_row(case, out):
    fields, d, dflt = case["fields"], case["dict"], case["default"]
    want = [d.get(f, None) for f in fields]
    sh = shadow_extract()
    if sh is not None:
        try:
            got = canon(sh(dict(d), tuple(fields)))
        except Exception as e:
            return "the field extractor's source (compiled.pyx, shadow execution) raised %s" % type(e).__name__
        if not wire.same(got, want):
            return "the field extractor's source (compiled.pyx, shadow execution) does not put each field's value at its position"
    if not wire.same(out["row"], want):
        return "a field's value is not at that field's position (or absent field not null / extra key not ignored)"
    if len(out["row"]) != len(fields):
        return "row is not as wide as the field list"
    pairs = [[f, v] for f, v in zip(fields, want)]
    if not wire.same(out["as_map"], pairs):
        return "as_map does not reproduce the field-to-value association"
    dd = {}
    for f, v in zip(fields, want):
        dd[f] = v
    if not wire.same(out["as_dict"], [[k, v] for k, v in dd.items()]):
        return "as_dict does not reproduce the field-to-value association"
    if not wire.same(out["values"], want) or out["keys"] != list(fields):
        return "values/keys views differ from the row"
    for p, g in zip(case["probes"], out["gets"]):
        if isinstance(g, dict) and "__raised__" in g:
            return "get(%r, default) raised %s" % (p, g["__raised__"])
        exp = want[fields.index(p)] if p in fields else dflt
        if not wire.same(g, exp):
            return "get(name, default) returned neither the field's value nor the default"
    gn = out["get_nodefault"]
    if isinstance(gn, dict):
        return "get(name) raised %s" % gn["__raised__"]
    for p, g in zip(case["probes"], gn):
        exp = want[fields.index(p)] if p in fields else None
        if not wire.same(g, exp):
            return "get(name) returned neither the field's value nor None"
    if "json" in out:
        if isinstance(out["json"], dict) and "__raised__" in out["json"]:
            return "as_json raised %s" % out["json"]["__raised__"]
        if not wire.same(out["json"], dd):
            # ints and floats: json.loads gives int for ints, float for floats: same as the source
            return "as_json does not reproduce the field-to-value association"
    return None


def impl_frame(case):
    from orso import DataFrame

    dicts = [dict(d) for d in case["dicts"]]
    src = iter(dicts) if case.get("iterator") else dicts
    try:
        df = DataFrame(src)
    except StopIteration:
        return {"raised": "StopIteration"}
    except Exception as e:
        return {"raised": type(e).__name__}
    out = {"names": list(df.column_names), "rows": [canon(tuple(r)) for r in df], "rowcount": df.rowcount,
           "shape": list(df.shape)}
    if case.get("append") is not None:
        try:
            df.append(dict(case["append"]))
            out["after_append"] = [canon(tuple(r)) for r in df._rows]
            out["append_as_dict"] = [[k, canon(v)] for k, v in df._rows[-1].as_dict.items()]
        except Exception as e:
            out["append_raised"] = type(e).__name__
            out["after_append"] = [canon(tuple(r)) for r in df._rows]
    return out


def oracle_frame(case, out):
    dicts = case["dicts"]
    if not dicts:
        return None  # empty input: no first dictionary to take the columns from (constructor raises)
    if "raised" in out:
        return "DataFrame(dictionaries) raised %s" % out["raised"]
    names = [str(k) for k in dicts[0]]
    if out["names"] != names:
        return "columns are not those of the first dictionary"
    if out["rowcount"] != len(dicts) or len(out["rows"]) != len(dicts) or out["shape"] != [len(dicts), len(names)]:
        return "not exactly one row per dictionary"
    for r, d in zip(out["rows"], dicts):
        if len(r) != len(names):
            return "a row is not as wide as the column list"
        if not wire.same(r, [d.get(k, None) for k in names]):
            return "a row does not hold each field's value at that field's position"
    if case.get("append") is not None:
        if "append_raised" in out:
            return "append(dict) raised %s" % out["append_raised"]
        a = case["append"]
        want = [[d.get(k, None) for k in names] for d in dicts] + [[a.get(k, None) for k in names]]
        if not wire.same(out["after_append"], want):
            return "append(dict) did not add exactly the record's row"
    return None


def impl_append(case):
    """append(dict) on names-only and schema-bound (untyped, nullable columns) frames created from rows."""
    from orso import DataFrame
    from orso.schema import FlatColumn, RelationSchema

    fields = case["fields"]
    rows = [tuple(r) for r in case["rows"]]
    if case["schema_bound"]:
        schema = RelationSchema(name="t", columns=[FlatColumn(name=f) for f in fields])
    else:
        schema = list(fields)
    import warnings

    with warnings.catch_warnings():
        warnings.simplefilter("ignore")
        df = DataFrame(rows=list(rows), schema=schema)
        try:
            df.append(dict(case["dict"]))
        except Exception as e:
            return {"raised": type(e).__name__, "rows": [canon(tuple(r)) for r in df._rows]}
    return {"rows": [canon(tuple(r)) for r in df._rows], "rowcount": df.rowcount}


def oracle_append(case, out):
    fields, d = case["fields"], case["dict"]
    if "raised" in out:
        return "append(dict) raised %s" % out["raised"]
    want = [list(r) for r in case["rows"]] + [[d.get(f, None) for f in fields]]
    if not wire.same(out["rows"], want) or out["rowcount"] != len(want):
        return "append(dict) did not add exactly the record's row"
    return None


# ----------------------------------------------------------------------------- model


def model_line(case):
    k = case["kind"]
    if k == "row":
        return "C02 row " + wire.line(case["fields"], case["dict"], case["probes"], case["default"])
    if k == "frame":
        return "C02 frame " + wire.line(case["dicts"])
    return "C02 append " + wire.line(case["fields"], case["rows"], case["dict"])


def compare_model(case, out, mo):
    if not mo.startswith("ok "):
        raise InfraError("model rejected %r: %r" % (case, mo))
    m = wire.dec_all(mo[3:])
    k = case["kind"]
    if k == "row":
        ok = (wire.same(m[0], out["row"]) and wire.same(m[1], out["as_map"]) and wire.same(m[2], out["as_dict"])
              and wire.same(m[3], out["gets"]))
    elif k == "frame":
        if m[0] == "StopIteration":
            ok = out.get("raised") == "StopIteration"
        else:
            ok = "raised" not in out and m[0] == out["names"] and wire.same(m[1], out["rows"])
    else:
        ok = "raised" not in out and wire.same(m[0], out["rows"])
    return ok, m


IMPL = {"row": (impl_row, oracle_row), "frame": (impl_frame, oracle_frame), "append": (impl_append, oracle_append)}


def valid_case(c):
    try:
        k = c["kind"]
        if k == "row":
            return (all(isinstance(f, str) for f in c["fields"]) and isinstance(c["dict"], dict)
                    and all(isinstance(p, str) for p in c["probes"]) and all(isinstance(x, str) for x in c["dict"]))
        if k == "frame":
            return all(isinstance(d, dict) and all(isinstance(x, str) for x in d) for d in c["dicts"]) and (
                c.get("append") is None or isinstance(c["append"], dict))
        if k == "append":
            w = len(c["fields"])
            if c["schema_bound"] and (len(set(c["fields"])) != w or set(c["dict"]) != set(c["fields"])):
                return False
            return all(isinstance(f, str) for f in c["fields"]) and all(len(r) == w for r in c["rows"]) and isinstance(c["dict"], dict)
    except Exception:
        return False
    return False


def evaluate(ctx, cases):
    mouts = ctx.model.batch([model_line(c) for c in cases])
    for c, mo in zip(cases, mouts):
        impl, oracle = IMPL[c["kind"]]
        out = impl(c)
        clause = oracle(c, out)
        nontrivial = bool(c.get("fields") or c.get("dicts"))
        ctx.case(c, nontrivial)
        ctx.hit("kind:" + c["kind"])
        if c["kind"] == "row":
            ctx.hit("fields:%d" % min(len(c["fields"]), 6))
            ctx.hit("dup-fields" if len(set(c["fields"])) != len(c["fields"]) else "nodup-fields")
            ctx.hit("extra-keys" if set(c["dict"]) - set(c["fields"]) else "no-extra")
            ctx.hit("absent-fields" if set(c["fields"]) - set(c["dict"]) else "all-present")
        if clause is not None:
            def still(c2):
                if not valid_case(c2):
                    return False
                try:
                    return oracle(c2, impl(c2)) == clause
                except Exception:
                    return False

            c_min = c if ctx.replaying else shrink(c, still, budget=300)
            ctx.fail(c_min, clause, impl=impl(c_min))
            continue
        ok, m = compare_model(c, out, mo)
        if not ok:
            ctx.disagree(c, out, m)


# ----------------------------------------------------------------------------- generators


def gen_dict(rng, fields, pool=NAMES):
    keys = [f for f in dict.fromkeys(fields) if rng.random() < 0.75]
    keys += [k for k in rng.sample(pool, rng.randint(0, 3)) if k not in keys]
    rng.shuffle(keys)
    return {k: gen_pyval(rng, 2) for k in keys}


def gen_row_case(rng):
    n = rng.choice([0, 1, 2, 3, 4, 6])
    if rng.random() < 0.25:
        fields = [rng.choice(NAMES[:4]) for _ in range(n)]  # duplicates likely
    else:
        fields = rng.sample(NAMES, min(n, len(NAMES)))
    if rng.random() < 0.1:
        fields = [gen_text(rng, 6) for _ in range(n)]
    d = gen_dict(rng, fields)
    probes = list(dict.fromkeys(fields))[:4] + rng.sample(NAMES, 2) + ["absent"]
    return {"kind": "row", "fields": fields, "dict": d, "probes": probes, "default": rng.choice([None, 0, "dflt", [1]])}


def gen_frame_case(rng):
    n = rng.choice([0, 1, 1, 2, 3, 4, 6])
    first_keys = rng.sample(NAMES, rng.randint(0, 4))
    dicts = []
    for i in range(n):
        if i == 0:
            dicts.append({k: gen_pyval(rng, 1) for k in first_keys})
        else:
            dicts.append(gen_dict(rng, first_keys))
    c = {"kind": "frame", "dicts": dicts, "iterator": rng.random() < 0.4}
    if dicts and rng.random() < 0.5:
        c["append"] = gen_dict(rng, first_keys)
    return c


def gen_append_case(rng):
    n = rng.choice([0, 1, 2, 3, 4])
    fields = rng.sample(NAMES, n)
    rows = [[gen_pyval(rng, 1) for _ in fields] for _ in range(rng.randint(0, 3))]
    bound = rng.random() < 0.5
    if bound:
        keys = list(fields)
        rng.shuffle(keys)
        d = {k: gen_pyval(rng, 2) for k in keys}
    else:
        d = gen_dict(rng, fields)
    return {"kind": "append", "fields": fields, "rows": rows, "dict": d, "schema_bound": bound}


def exhaustive_small():
    """All field lists of length <= 3 over {a,b,c} (duplicates included) x all dictionaries over subsets of
    {a,b,c,z} in two key orders."""
    vals = {"a": 1, "b": "x", "c": None, "z": 2.5}
    for n in range(0, 4):
        for fields in itertools.product("abc", repeat=n):
            for r in range(0, 5):
                for ks in itertools.combinations("abcz", r):
                    for order in (ks, tuple(reversed(ks))):
                        yield {"kind": "row", "fields": list(fields), "dict": {k: vals[k] for k in order},
                               "probes": ["a", "b", "c", "z", "q"], "default": "dflt"}
                        if len(ks) < 2:
                            break


def run(ctx):
    ctx.note("rule", "Row(dict) / DataFrame(dicts) / append(dict) cases; non-trivial = at least one field or dictionary; distinct by canonical JSON")
    cases = list(exhaustive_small())
    for i in range(0, len(cases), 4000):
        evaluate(ctx, cases[i : i + 4000])
    ctx.note("exhaustive_scope", "all field lists of length <= 3 over 3 names (duplicates included) x all dictionaries over subsets of 4 keys in two insertion orders (%d cases); then random" % len(cases))
    n = ctx.scale(6000, 80000)
    done = 0
    while done < n and ctx.time_left() > 5:
        batch = []
        for i in range(2000):
            r = ctx.rng.random()
            batch.append(gen_row_case(ctx.rng) if r < 0.55 else gen_frame_case(ctx.rng) if r < 0.8 else gen_append_case(ctx.rng))
        evaluate(ctx, batch)
        done += len(batch)


def intensify(ctx):
    for _ in range(5):
        evaluate(ctx, [gen_row_case(ctx.rng) for _ in range(2000)] + [gen_frame_case(ctx.rng) for _ in range(1000)])
        if ctx.violations:
            return


def replay(ctx, case):
    evaluate(ctx, [case])


KNOWN_PREDICATES = {}
