"""C02 — Dictionary records map onto rows by field name.

Row(dict), DataFrame(dicts) and append(dict) are run on orso and on the Lean model (Model/DictRow*.lean,
Model/DictSession.lean); the oracle is the field-to-value association evaluated directly on the
implementation's rows.

Round 2: every case runs in ONE interpreter, interleaved with the other features that create row classes
(from_arrow, tuples-only classes, schema-bound classes, frames from rows, slices, byte round trips), and
*sessions* keep several frames alive and append / re-read / derive in any order.  A failure is confirmed
and reduced in a pristine forked interpreter (harness/c02_worker.py); when it only happens after earlier
operations, the replay is the reduced *sequence* of operations, so it fails in a new process too.
"""
import collections
import collections.abc
import itertools
import json
import math
import os
import select
import subprocess
import sys
import time
import warnings

from .. import core, wire
from ..core import InfraError, shrink
from ..gen import gen_pyval, gen_text

NAMES = ["a", "b", "c", "d", "id", "Name", "é", "", "a b", "x|y", "日本", "A", "as_map", "_fields", "get", "keys"]
SMALL = NAMES[:4]


def json_native(v):
    if v is None or isinstance(v, (bool, str)):
        return True
    if isinstance(v, int):
        return -(2**63) <= v < 2**64
    if isinstance(v, float):
        return math.isfinite(v)
    if isinstance(v, list):
        return all(json_native(x) for x in v)
    if isinstance(v, dict):
        return all(isinstance(k, str) and json_native(x) for k, x in v.items())
    return False


def canon(v):
    """Python value -> wire universe (tuples/Rows become lists)."""
    if isinstance(v, tuple):
        return [canon(x) for x in v]
    if isinstance(v, list):
        return [canon(x) for x in v]
    if isinstance(v, dict):
        return {k: canon(x) for k, x in v.items()}
    return v


class _CMapping(collections.abc.Mapping):
    """A read-only mapping written against collections.abc.Mapping (not a dict, not mutable)."""

    def __init__(self, d):
        self._d = dict(d)

    def __getitem__(self, k):
        return self._d[k]

    def __iter__(self):
        return iter(self._d)

    def __len__(self):
        return len(self._d)


class _CMutable(collections.abc.MutableMapping):
    """A mutable mapping written against collections.abc.MutableMapping (not a dict)."""

    def __init__(self, d):
        self._d = dict(d)

    def __getitem__(self, k):
        return self._d[k]

    def __setitem__(self, k, v):
        self._d[k] = v

    def __delitem__(self, k):
        del self._d[k]

    def __iter__(self):
        return iter(self._d)

    def __len__(self):
        return len(self._d)


class _RevDict(dict):
    """A subclass of dict that overrides how it is walked: __iter__ / keys / items / values present the keys in the
    reverse of the storage order (all four consistently)."""

    def __iter__(self):
        return iter(list(dict.keys(self))[::-1])

    def keys(self):
        return list(self)

    def items(self):
        return [(k, dict.__getitem__(self, k)) for k in self]

    def values(self):
        return [dict.__getitem__(self, k) for k in self]


class _GetDict(dict):
    """A subclass of dict that overrides how it is looked up: __getitem__ / get count the lookups and return what the
    dictionary holds."""

    looked = 0

    def __getitem__(self, k):
        self.looked += 1
        return dict.__getitem__(self, k)

    def get(self, k, default=None):
        self.looked += 1
        return dict.get(self, k, default)


# the kinds of object a caller may hold a record in.  Every one PRESENTS exactly the items of `d`, in the order of `d`.
MAPPINGS = ("dict", "ordered", "default", "counter", "userdict", "chainmap", "proxy", "cmapping", "cmutable", "revdict", "getdict")
MAPPING_IS_DICT = {"dict", "ordered", "default", "counter", "revdict", "getdict"}
MAPPING_IS_MUTABLE = MAPPING_IS_DICT | {"userdict", "chainmap", "cmutable"}


def mapping(d, how):
    """The record as the caller holds it: a plain dict, one of the standard dict subclasses, a dict subclass that overrides
    its iteration or its lookup, or a mapping that is not a dict at all (UserDict, ChainMap, MappingProxyType, classes
    written against collections.abc)."""
    if how == "ordered":
        return collections.OrderedDict(d)
    if how == "default":
        return collections.defaultdict(list, d)
    if how == "counter":
        c = collections.Counter()
        dict.update(c, d)
        return c
    if how == "userdict":
        return collections.UserDict(d)
    if how == "chainmap":
        # iteration order of a ChainMap: the keys of the LAST map, then those of the maps before it that are new.
        # back map: the first half of the items (the first of them shadowed by the front map), front map: the rest
        items = list(d.items())
        j = len(items) // 2
        back = dict(items[:j])
        front = {}
        if j:
            back[items[0][0]] = "__shadowed__"
            front[items[0][0]] = items[0][1]
        front.update(items[j:])
        return collections.ChainMap(front, back)
    if how == "proxy":
        import types

        return types.MappingProxyType(dict(d))
    if how == "cmapping":
        return _CMapping(d)
    if how == "cmutable":
        return _CMutable(d)
    if how == "revdict":
        return _RevDict(list(d.items())[::-1])
    if how == "getdict":
        return _GetDict(d)
    return dict(d)


def caller_dicts(dicts, shared=False, how=None):
    """The caller's dictionaries: fresh objects, or (shared) ONE object wherever a dictionary repeats the one
    before it — the same record handed in twice.  `how`: the kind of mapping object every record is held in."""
    out = []
    for i, d in enumerate(dicts):
        if shared and i and list(d.items()) == list(dicts[i - 1].items()) and wire.same(d, dicts[i - 1]):
            out.append(out[-1])
        else:
            out.append(mapping(d, how))
    return out


SOURCES = ("list", "iter", "tuple", "gen", "values", "deque", "getitem", "fresh", "counting", "reader", "drain", "refill", "edit")
# what iterating the object twice does: a container starts again, a one-shot iterator IS its own iterator, a record
# reader hands out a new iterator over ONE shared cursor
SOURCE_CLASS = {"list": "container", "tuple": "container", "values": "container", "deque": "container", "getitem": "container",
                "fresh": "container", "counting": "container", "iter": "oneshot", "gen": "oneshot", "reader": "reader",
                "drain": "reader", "refill": "oneshot", "edit": "oneshot"}
# the producer goes on using a record object after it has handed it over (the row must hold what the record held WHEN it
# was handed over): `refill` = a streaming reader with one record buffer, emptied and refilled for every record;
# `edit` = each record is emptied and overwritten as soon as the consumer asks for the next one
SOURCE_REUSES_RECORDS = ("refill", "edit")


def _refill(ds):
    buf = {}
    for d in ds:
        buf.clear()
        buf.update(d)
        yield buf


def _edit_after(ds):
    snap = [list(d.items()) for d in ds]
    spoiled = set()
    for d, items in zip(ds, snap):
        if id(d) in spoiled:
            d = dict(items)  # the same object twice in the sequence: the second time a new record with the same items
        yield d
        try:
            d.clear()
            d[SENT] = SENT
            spoiled.add(id(d))
        except Exception:
            pass


class _Reader:
    """The usual record reader: an iterable (not an iterator) whose __iter__ reads records off one open cursor."""

    def __init__(self, ds):
        self._cursor = iter(ds)

    def __iter__(self):
        for d in self._cursor:
            yield d


class _Drain:
    """A queue drainer: every iteration takes records off the same queue until it is empty."""

    def __init__(self, ds):
        self._queue = collections.deque(ds)

    def __iter__(self):
        while self._queue:
            yield self._queue.popleft()


class _Fresh:
    """Iterable only (no len, no indexing, not an iterator): a new generator from the start on every iteration."""

    def __init__(self, ds):
        self._ds = ds

    def __iter__(self):
        return (d for d in self._ds)


class _Counting:
    """A container that counts how many iterations were started on it."""

    def __init__(self, ds):
        self._ds, self.started = ds, 0

    def __iter__(self):
        self.started += 1
        return iter(self._ds)


class _GetItem:
    """The old sequence protocol: __getitem__ with IndexError at the end, nothing else."""

    def __init__(self, ds):
        self._ds = ds

    def __getitem__(self, i):
        return self._ds[i]


def source_kind(c):
    """How the sequence of dictionaries is handed to the constructor (`iterator: true` is the older spelling of `iter`)."""
    k = c.get("source")
    if k in SOURCES:
        return k
    return "iter" if c.get("iterator") else "list"


def make_source(dicts, kind):
    if kind == "iter":
        return iter(dicts)
    if kind == "tuple":
        return tuple(dicts)
    if kind == "gen":
        return (d for d in dicts)
    if kind == "values":
        return {i: d for i, d in enumerate(dicts)}.values()
    if kind == "deque":
        return collections.deque(dicts)
    if kind == "getitem":
        return _GetItem(dicts)
    if kind == "fresh":
        return _Fresh(dicts)
    if kind == "counting":
        return _Counting(dicts)
    if kind == "reader":
        return _Reader(dicts)
    if kind == "drain":
        return _Drain(dicts)
    if kind == "refill":
        return _refill(dicts)
    if kind == "edit":
        return _edit_after(dicts)
    return dicts


def spoil_input(*ds):
    """After the operation the caller goes on using its dictionary: empties it, puts something else in.  A row
    is built from the dictionary when it is built; it does not follow the dictionary afterwards.  (Top level
    only: the values themselves are the row's cells.)"""
    for d in ds:
        try:
            d.clear()
            d[SENT] = SENT
        except Exception:
            pass


def ordered(x):
    """A case as it goes into a replay file.  The runner writes replay files with sorted keys; in this property
    the insertion order of a record's keys is part of the input ("whatever the dictionary's key order"), so every
    data dictionary whose keys are not already in sorted order is written as its item list (`__items__`, which
    `core.unjson` turns back into a dictionary in that order).  Structural dictionaries (cases, operations) are
    left as they are."""
    if isinstance(x, list):
        return [ordered(v) for v in x]
    if isinstance(x, dict):
        if "kind" in x or "op" in x or all(isinstance(k, str) and k.startswith("__") for k in x):
            return {k: ordered(v) for k, v in x.items()}
        ks = list(x)
        if all(isinstance(k, str) for k in ks) and ks == sorted(ks):
            return {k: ordered(v) for k, v in x.items()}
        return {"__items__": [[k, ordered(v)] for k, v in x.items()]}
    return x


def raised(e):
    return {"__raised__": type(e).__name__}


def is_raised(x):
    return isinstance(x, dict) and "__raised__" in x


# ----------------------------------------------------------------------------- implementation: one row


VIEWS = ("as_map", "as_dict", "values", "keys", "as_json")
OUT_KEY = {"as_map": "as_map", "as_dict": "as_dict", "values": "values", "keys": "keys", "as_json": "json"}
SENT = "__c02_changed__"
AFTER = "after the caller changed the objects earlier reads returned (a view is rebuilt from the row, never aliased): "


def _read_view(row, name):
    return row.keys() if name == "keys" else getattr(row, name)


def _snap(name, obj):
    """Canonical copy of what a view returned, taken at once (shares no container with the object)."""
    if name == "as_map":
        return [[k, canon(v)] for k, v in obj]
    if name == "as_dict":
        return [[k, canon(v)] for k, v in obj.items()]
    if name == "values":
        return canon(tuple(obj))
    if name == "keys":
        return list(obj)
    # an object in which a member name occurs twice is not a dictionary of the fields: parsers disagree on which
    # value it holds (the marker makes it unequal to every expected object)
    def pairs(ps):
        d = dict(ps)
        if len(d) != len(ps):
            d["__repeated_member_name__"] = True
        return d

    return json.loads(obj, object_pairs_hook=pairs)


def _change(name, obj):
    """What a caller may do to the TOP LEVEL of an object a view handed out: drop the first entry, overwrite the
    next one, add one.  Cells are never touched (they are the row's own values).  True when the object is of a
    kind that can be changed at all; tuples, bytes and the like are left alone."""
    if isinstance(obj, dict):
        ks = list(obj)
        if ks:
            obj.pop(ks[0])
        if len(ks) > 1:
            obj[ks[1]] = SENT
        obj[SENT] = SENT
        return True
    if isinstance(obj, list):
        if obj:
            obj.pop(0)
        if obj:
            first = obj[0]
            if name == "as_map" and isinstance(first, (list, tuple)) and len(first) == 2:
                obj[0] = (first[0], SENT)  # the pair is the view's own container, the cell is not touched
            else:
                obj[0] = SENT
        obj.append((SENT, SENT) if name == "as_map" else SENT)
        return True
    if isinstance(obj, bytearray):
        obj[:] = b"{}"
        return True
    if isinstance(obj, set):
        obj.clear()
        return True
    return False


def views_of(row, probes, default, plan=None):
    """Every view the property names, on ONE row object: read (`plan["first"]`, default all), read again
    unchanged, then the caller changes every object it was handed that can be changed, then everything is read
    once more (`plan["then"]`, default all) — a view must not change by having been read, nor by what the
    caller did to an earlier result.  Each pass is judged against the row."""
    first = list((plan or {}).get("first", VIEWS))
    then = list((plan or {}).get("then", VIEWS))
    held = []

    def read(names, o):
        o["row"] = canon(tuple(row))
        for n in names:
            if n == "as_json":
                try:
                    obj = row.as_json
                    held.append((n, obj))
                    o["json"] = _snap(n, obj)
                    try:
                        o["json_text"] = bytes(obj).decode("utf-8")
                    except Exception:
                        pass
                except Exception as e:
                    if json_native(o["row"]):  # orjson refuses some values (integers beyond 64 bits): not this property's business
                        o["json"] = raised(e)
                continue
            obj = _read_view(row, n)
            held.append((n, obj))
            o[OUT_KEY[n]] = _snap(n, obj)
        return o

    def gets(o):
        o["gets"] = []
        for p in probes:
            try:
                o["gets"].append(canon(row.get(p, default)))
            except Exception as e:
                o["gets"].append(raised(e))
        try:
            o["get_nodefault"] = [canon(row.get(p)) for p in probes]
        except Exception as e:
            o["get_nodefault"] = raised(e)

    out = {}
    try:
        read(first, out)
    except Exception as e:
        return {"views_raised": type(e).__name__}
    gets(out)
    try:
        again = read(first, {})
        out["stable"] = all(k in out and wire.same(out[k], again[k]) for k in again)
    except Exception:
        out["stable"] = False
    seen, changed = set(), set()
    for n, obj in held:  # every distinct object once
        if id(obj) not in seen:
            seen.add(id(obj))
            if _change(n, obj):
                changed.add(n)
    out["changed"] = sorted(changed)
    after = {}
    try:
        read(then, after)
        gets(after)
    except Exception as e:
        after = {"views_raised": type(e).__name__}
    out["after"] = after
    return out


def last_views(df, probes, default, plan=None):
    """The views of the row an append added (the frame's last row); of no row when the frame holds none — the
    oracle then reports the missing row, not an IndexError of this harness."""
    rows = df._rows
    if not isinstance(rows, list) or not rows or not hasattr(rows[-1], "as_map"):
        return {"views_raised": "no row was added"}
    return views_of(rows[-1], probes, default, plan)


def same_json(a, b):
    """Equality of what JSON can carry: like wire.same (floats by bit pattern, True is not 1), except that the
    members of an object have no order (a cell that is a dictionary: a serialiser may write its keys sorted)."""
    if isinstance(a, dict) and isinstance(b, dict):
        return set(a) == set(b) and all(same_json(a[k], b[k]) for k in a)
    if isinstance(a, (list, tuple)) and isinstance(b, (list, tuple)):
        return len(a) == len(b) and all(same_json(x, y) for x, y in zip(a, b))
    return wire.same(a, b)


def judge_reads(fields, want, out, probes, dflt):
    """One pass over the views (those that were read), judged against the row: (clause, what was wrong) or None."""
    if "views_raised" in out:
        return "a view of the row raised %s" % out["views_raised"], "raised"
    if not wire.same(out["row"], want):
        return "a field's value is not at that field's position (or absent field not null / extra key not ignored)", "row"
    if len(out["row"]) != len(fields):
        return "row is not as wide as the field list", "row"
    pairs = [[f, v] for f, v in zip(fields, want)]
    if "as_map" in out and not wire.same(out["as_map"], pairs):
        return "as_map does not reproduce the field-to-value association", "as_map"
    dd = {}
    for f, v in zip(fields, want):
        dd[f] = v
    if "as_dict" in out and not wire.same(out["as_dict"], [[k, v] for k, v in dd.items()]):
        return "as_dict does not reproduce the field-to-value association", "as_dict"
    if "values" in out and not wire.same(out["values"], want):
        return "values/keys views differ from the row", "values"
    if "keys" in out and out["keys"] != list(fields):
        return "values/keys views differ from the row", "keys"
    for p, g in zip(probes, out["gets"]):
        if is_raised(g):
            return "get(%r, default) raised %s" % (p, g["__raised__"]), "row"
        exp = want[fields.index(p)] if p in fields else dflt
        if not wire.same(g, exp):
            return "get(name, default) returned neither the field's value nor the default", "row"
    gn = out["get_nodefault"]
    if is_raised(gn):
        return "get(name) raised %s" % gn["__raised__"], "row"
    for p, g in zip(probes, gn):
        exp = want[fields.index(p)] if p in fields else None
        if not wire.same(g, exp):
            return "get(name) returned neither the field's value nor None", "row"
    if "json" in out:
        js = out["json"]
        if is_raised(js):
            return "as_json raised %s" % js["__raised__"], "json"
        # the JSON object has exactly the field names; every cell JSON can carry natively is the field's value
        # (how a non-JSON value such as bytes is rendered is the serialiser's choice, not part of the association)
        if not isinstance(js, dict) or set(js) != set(dd) or any(json_native(dd[f]) and not same_json(js[f], dd[f]) for f in dd):
            return "as_json does not reproduce the field-to-value association", "json"
    return None


def judge_views(fields, want, out, probes, dflt):
    """The clauses about one row: positions, width, every view, lookups by name — on the first read, on an
    unchanged second read, and after the caller changed what the earlier reads returned."""
    c = judge_reads(fields, want, out, probes, dflt)
    if c:
        return c[0]
    if not out.get("stable", True):
        return "a view changed between two reads of the same row"
    if "after" in out:
        c = judge_reads(fields, want, out["after"], probes, dflt)
        if c:
            # the same thing was read, and found right, before the caller changed anything: the change did it.  A view
            # the first pass left out may simply be wrong on its first read: the plain clause.
            return AFTER + c[0] if (c[1] in out or c[1] == "raised") else c[0]
    return None


def view(out, key):
    """What the implementation returned for a view: the first read, or the last when the plan left it out of the first."""
    if key in out:
        return out[key]
    return out.get("after", {}).get(key)


def impl_row(case):
    from orso.row import Row

    try:
        cls = Row.create_class(list(case["fields"]))
        d = mapping(case["dict"], case.get("mapping"))
        row = cls(d)
    except Exception as e:
        return {"new_raised": type(e).__name__}
    spoil_input(d)
    return views_of(row, case["probes"], case["default"], case.get("reads"))


_SHADOW = None


def shadow_extract():
    """extract_dict_columns of the working tree's compiled.pyx, de-cythonised (None when unavailable)."""
    global _SHADOW
    if _SHADOW is None:
        try:
            from .. import pyxshadow

            funcs, _ = pyxshadow.load(core.REPO)
            _SHADOW = (funcs.get("extract_dict_columns"),)
        except Exception:
            _SHADOW = (None,)
    return _SHADOW[0]


def oracle_row(case, out):
    fields, d, dflt = case["fields"], case["dict"], case["default"]
    want = [d.get(f, None) for f in fields]
    sh = shadow_extract()
    if sh is not None:
        try:
            got = canon(sh(dict(d), tuple(fields)))
        except Exception as e:
            return "the field extractor's source (compiled.pyx, shadow execution) raised %s" % type(e).__name__
        if not wire.same(got, want):
            return "the field extractor's source (compiled.pyx, shadow execution) does not put each field's value at its position"
    if "new_raised" in out:
        return "building a row from a dictionary raised %s" % out["new_raised"]
    return judge_views(fields, want, out, case["probes"], dflt)


# ----------------------------------------------------------------------------- implementation: frames


def frame_probes(names):
    return list(names[:2]) + ["absent"]


def frame_row_views(rows, names, limit=3):
    """The views of a frame's first rows (the frame's rows that are Row objects; a frame made from plain tuples
    keeps them as tuples, which have no views)."""
    out = []
    for r in list(rows)[:limit]:
        out.append(views_of(r, frame_probes(names), "dflt") if hasattr(r, "as_map") else None)
    return out


def judge_frame_views(names, exp_rows, views):
    for want, v in zip(exp_rows, views or []):
        if v is not None:
            c = judge_views(list(names), list(want), v, frame_probes(names), "dflt")
            if c:
                return c
    return None


def impl_frame(case):
    from orso import DataFrame

    dicts = caller_dicts(case["dicts"], case.get("shared"), case.get("dmapping"))
    src = make_source(dicts, source_kind(case))
    try:
        df = DataFrame(src)
    except StopIteration:
        return {"raised": "StopIteration"}
    except Exception as e:
        return {"raised": type(e).__name__}
    spoil_input(*dicts)
    try:
        out = {"names": list(df.column_names), "rows": [canon(tuple(r)) for r in df], "rowcount": df.rowcount,
               "shape": list(df.shape)}
        if isinstance(src, _Counting):
            out["iterations"] = src.started
        out["views"] = frame_row_views(df, out["names"])
        out["rows_again"] = [canon(tuple(r)) for r in df]
    except Exception as e:
        return {"raised": type(e).__name__}
    if case.get("append") is not None:
        try:
            entry = mapping(case["append"], case.get("mapping"))
            df.append(entry)
            spoil_input(entry)
            out["after_append"] = [canon(tuple(r)) for r in df._rows]
            out["append_last"] = last_views(df, frame_probes(out["names"]), "dflt")
        except Exception as e:
            out["append_raised"] = type(e).__name__
            out["after_append"] = [canon(tuple(r)) for r in df._rows]
    return out


def oracle_frame(case, out):
    dicts = case["dicts"]
    if not dicts:
        return None  # empty input: no first dictionary to take the columns from (constructor raises)
    if "raised" in out:
        return "DataFrame(dictionaries) raised %s" % out["raised"]
    names = [str(k) for k in dicts[0]]
    if out["names"] != names:
        return "columns are not those of the first dictionary"
    if out["rowcount"] != len(dicts) or len(out["rows"]) != len(dicts) or out["shape"] != [len(dicts), len(names)]:
        return "not exactly one row per dictionary"
    for r, d in zip(out["rows"], dicts):
        if len(r) != len(names):
            return "a row is not as wide as the column list"
        if not wire.same(r, [d.get(k, None) for k in names]):
            return "a row does not hold each field's value at that field's position"
    c = judge_frame_views(names, out["rows"], out.get("views"))
    if c:
        return c
    if not wire.same(out.get("rows_again", out["rows"]), out["rows"]):
        return "a frame no longer holds exactly the rows of its dictionaries (one per dictionary / append, values by field name)"
    if case.get("append") is not None:
        if "append_raised" in out:
            return "append(dict) raised %s" % out["append_raised"]
        a = case["append"]
        want = [[d.get(k, None) for k in names] for d in dicts] + [[a.get(k, None) for k in names]]
        if not wire.same(out["after_append"], want):
            return "append(dict) did not add exactly the record's row"
        c = judge_views(names, want[-1], out["append_last"], frame_probes(names), "dflt")
        if c:
            return c
    return None


def arrow_table(fields, rows):
    import pyarrow

    cols = [pyarrow.array([r[i] for r in rows], type=pyarrow.int64()) for i in range(len(fields))]
    return pyarrow.Table.from_arrays(cols, names=list(fields))


VALIDATION_ERRORS = ("ExcessColumnsInDataError", "DataValidationError")


def impl_append(case):
    """append(dict) on names-only, schema-bound (untyped, nullable columns) and Arrow-derived frames; on the
    bound ones also with dictionaries the schema's validation refuses (missing / extra keys, a value of the
    wrong type)."""
    from orso import DataFrame
    from orso.schema import FlatColumn, RelationSchema

    fields = case["fields"]
    rows = [tuple(r) for r in case["rows"]]
    with warnings.catch_warnings():
        warnings.simplefilter("ignore")
        try:
            if case.get("via") == "arrow":
                df = DataFrame.from_arrow(arrow_table(fields, rows))
                df.materialize()
            else:
                if case["schema_bound"]:
                    schema = RelationSchema(name="t", columns=[FlatColumn(name=f) for f in fields])
                else:
                    schema = list(fields)
                # lazy: the frame is backed by a generator of rows until something needs the list
                df = DataFrame(rows=(r for r in list(rows)) if case.get("lazy") else list(rows), schema=schema)
            how = case.get("derived")
            if how:
                # the frame appended to is derived from that one, all rows and all columns kept
                df = (df.head(len(rows)) if how == "head" else df.slice(0, None) if how == "slice"
                      else df.select(list(fields)) if how == "select" else df.query(lambda r: True))
                df.materialize()
        except Exception as e:
            return {"setup_raised": type(e).__name__}
        try:
            entry = mapping(case["dict"], case.get("mapping"))
            df.append(entry)
            spoil_input(entry)
        except Exception as e:
            return {"raised": type(e).__name__, "rows": [canon(tuple(r)) for r in df._rows]}
        try:
            return {"rows": [canon(tuple(r)) for r in df._rows], "rowcount": df.rowcount,
                    "last": last_views(df, case.get("probes", frame_probes(fields)), case.get("default", "dflt"),
                                       case.get("reads"))}
        except Exception as e:
            return {"raised": type(e).__name__, "rows": []}


def oracle_append(case, out):
    fields, d = case["fields"], case["dict"]
    if "setup_raised" in out:
        return None  # the frame the dictionary would be appended to could not be made: nothing to judge here
    prev = [list(r) for r in case["rows"]]
    want = prev + [[d.get(f, None) for f in fields]]
    bound = case["schema_bound"] or case.get("via") == "arrow"
    if "raised" in out:
        if bound and (out["raised"] in VALIDATION_ERRORS
                      or (out["raised"] == "TypeError" and (case.get("mapping") or "dict") not in MAPPING_IS_MUTABLE)):
            # (a schema's validation takes mutable mappings only: a read-only mapping is refused with TypeError)
            # the schema's validation refused the record (whether rightly is C03's business, whether the frame is
            # left untouched C05's): here only that no row other than the record's own was stored
            if not (wire.same(out["rows"], prev) or wire.same(out["rows"], want)):
                return "append(dict) stored a row that is not the record's row"
            return None
        return "append(dict) raised %s" % out["raised"]
    if not wire.same(out["rows"], want) or out["rowcount"] != len(want):
        return "append(dict) did not add exactly the record's row"
    return judge_views(fields, want[-1], out["last"], case.get("probes", frame_probes(fields)), case.get("default", "dflt"))


# ----------------------------------------------------------------------------- other features (context)

CTX_KINDS = ("arrow", "tuples", "schema", "rowsframe", "bytes", "dictframe")


def impl_ctx(case):
    """Another feature that creates row classes for these field names.  Nothing here is judged by C02:
    the operation only has to have happened, in this interpreter, before the next dictionary."""
    from orso import DataFrame
    from orso.row import Row
    from orso.schema import FlatColumn, RelationSchema

    fields = list(case["fields"])
    vals = tuple(range(len(fields)))
    what = case["what"]
    try:
        with warnings.catch_warnings():
            warnings.simplefilter("ignore")
            if what == "arrow":
                df = DataFrame.from_arrow(arrow_table(fields, [vals, vals]))
                [tuple(r) for r in df]
            elif what == "tuples":
                r = Row.create_class(fields, tuples_only=True)(vals)
                r.as_dict
            elif what == "schema":
                r = Row.create_class(RelationSchema(name="t", columns=[FlatColumn(name=f) for f in fields]))(vals)
                r.as_map
            elif what == "rowsframe":
                df = DataFrame(rows=[vals, vals], schema=fields)
                df.slice(0, 1)
                df.query(lambda r: True)
                [tuple(r) for r in df.select(fields[:1])]
                [b.rowcount for b in df.to_batches(1)]
                df.distinct()
                df.head(1)
            elif what == "bytes":
                cls = Row.create_class(fields)
                cls.from_bytes(cls(vals).as_bytes).as_map
            elif what == "dictframe":
                df = DataFrame([dict(zip(fields, vals))])
                df.append(dict(zip(fields, vals)))
    except Exception as e:
        return {"ctx_raised": type(e).__name__}
    return {}


# ----------------------------------------------------------------------------- sessions


def impl_session(case):
    """Several frames alive at once; appends, re-reads, derivations and other features in any order."""
    from orso import DataFrame
    from orso.row import Row

    frames, outs = [], []
    for op in case["ops"]:
        k = op["op"]
        o = {}
        try:
            with warnings.catch_warnings():
                warnings.simplefilter("ignore")
                if k == "ctx":
                    impl_ctx(op)
                elif k == "frame":
                    if not op["dicts"]:
                        o = {"skip": True}
                    else:
                        dicts = caller_dicts(op["dicts"], op.get("shared"), op.get("dmapping"))
                        df = DataFrame(make_source(dicts, source_kind(op)))
                        spoil_input(*dicts)
                        frames.append(df)
                        o = {"names": list(df.column_names), "rows": [canon(tuple(r)) for r in df], "rowcount": df.rowcount}
                        o["views"] = frame_row_views(df, o["names"])
                elif k == "rows":
                    rws = [tuple(r) for r in op["rows"]]
                    df = DataFrame(rows=(r for r in rws) if op.get("lazy") else rws, schema=list(op["fields"]))
                    frames.append(df)
                    if op.get("lazy"):
                        o = {"names": list(op["fields"]), "rows": [list(r) for r in op["rows"]]}  # nothing of it read yet
                    else:
                        o = {"names": list(df.column_names), "rows": [canon(tuple(r)) for r in df]}
                elif k == "append":
                    if not frames:
                        o = {"skip": True}
                    else:
                        df = frames[op["frame"] % len(frames)]
                        entry = mapping(op["dict"], op.get("mapping"))
                        j = op.get("from_row")
                        if (j is not None and isinstance(df._rows, list) and df._rows
                                and hasattr(df._rows[j % len(df._rows)], "as_dict")):
                            # the record is the dictionary view of one of the frame's own rows, handed back as it is
                            v = df._rows[j % len(df._rows)].as_dict
                            if list(v) == list(op["dict"]) and wire.same(canon(v), op["dict"]):
                                entry = v
                        df.append(entry)
                        spoil_input(entry)
                        o = {"rows": [canon(tuple(r)) for r in df._rows], "rowcount": df.rowcount,
                             "last": last_views(df, op.get("probes", []), op.get("default"), op.get("reads"))}
                elif k == "row":
                    entry = mapping(op["dict"], op.get("mapping"))
                    row = Row.create_class(list(op["fields"]))(entry)
                    spoil_input(entry)
                    o = views_of(row, op["probes"], op["default"], op.get("reads"))
                elif k == "reread":
                    if not frames:
                        o = {"skip": True}
                    else:
                        df = frames[op["frame"] % len(frames)]
                        o = {"names": list(df.column_names), "rows": [canon(tuple(r)) for r in df], "rowcount": df.rowcount}
                        o["views"] = frame_row_views(df, o["names"])
                elif k == "derive":
                    if not frames:
                        o = {"skip": True}
                    else:
                        df = frames[op["frame"] % len(frames)]
                        # a frame still backed by a generator is read first: what deriving from an unread lazy frame
                        # does to the frame is the operators' property (C03), not this one
                        df.materialize()
                        how = op["how"]
                        if how == "slice":
                            nf = df.slice(0, op.get("n"))
                        elif how == "query":
                            nf = df.query(lambda r: True)
                        else:
                            nf = df + df
                        frames.append(nf)
                        o = {"names": list(nf.column_names), "rows": [canon(tuple(r)) for r in nf]}
                        o["views"] = frame_row_views(nf, o["names"])
        except Exception as e:
            o = {"op_raised": type(e).__name__}
        outs.append(o)
    return {"ops": outs}


def session_expected(ops, outs=None):
    """The frames an exact reading of the property predicts, op by op (the mirror the oracle and the Lean
    state machine agree on).  A derived frame is whatever the implementation derived (not C02's business)
    when `outs` is given, the slice/query/concatenation of the mirror otherwise."""
    frames, exp = [], []
    for i, op in enumerate(ops):
        k = op["op"]
        e = None
        if k == "frame":
            if op["dicts"]:
                names = [str(x) for x in op["dicts"][0]]
                frames.append({"names": names, "rows": [[d.get(n, None) for n in names] for d in op["dicts"]], "dicts": True})
                e = frames[-1]
        elif k == "rows":
            frames.append({"names": list(op["fields"]), "rows": [list(r) for r in op["rows"]]})
            e = frames[-1]
        elif k in ("append", "reread", "derive"):
            if frames:
                f = frames[op["frame"] % len(frames)]
                if k == "append":
                    f["rows"].append([op["dict"].get(n, None) for n in f["names"]])
                    e = f
                elif k == "reread":
                    e = f
                else:
                    if op["how"] == "slice":
                        n = op.get("n")
                        rows = f["rows"][:] if n is None else ([] if n == 0 else f["rows"][0:n])
                    elif op["how"] == "query":
                        rows = f["rows"][:]
                    else:
                        rows = f["rows"] + f["rows"]
                    source = [list(r) for r in f["rows"]]
                    if outs is not None and "rows" in outs[i] and "names" in outs[i]:
                        rows = outs[i]["rows"]
                    frames.append({"names": list(f["names"]), "rows": [list(r) for r in rows], "dicts": f.get("dicts", False)})
                    e = dict(frames[-1], source=source)
        exp.append(None if e is None else {"names": list(e["names"]), "rows": [list(r) for r in e["rows"]],
                                           "dicts": e.get("dicts", False), "source": e.get("source")})
    return exp


def session_frames(ops):
    """The live frames after `ops`, by the mirror alone."""
    frames = []
    for op in ops:
        k = op["op"]
        if k == "frame" and op["dicts"]:
            names = [str(x) for x in op["dicts"][0]]
            frames.append({"names": names, "rows": [[d.get(n, None) for n in names] for d in op["dicts"]]})
        elif k == "rows":
            frames.append({"names": list(op["fields"]), "rows": [list(r) for r in op["rows"]]})
        elif k in ("append", "derive") and frames:
            f = frames[op["frame"] % len(frames)]
            if k == "append":
                f["rows"].append([op["dict"].get(n, None) for n in f["names"]])
            else:
                n = op.get("n")
                rows = (f["rows"][:] if n is None else f["rows"][0:n]) if op["how"] == "slice" else (
                    f["rows"][:] if op["how"] == "query" else f["rows"] + f["rows"])
                frames.append({"names": list(f["names"]), "rows": [list(r) for r in rows]})
    return frames


def oracle_session(case, out):
    ops, outs = case["ops"], out["ops"]
    exp = session_expected(ops, outs)
    for op, o, e in zip(ops, outs, exp):
        k = op["op"]
        if k == "ctx":
            continue
        if "op_raised" in o:
            if k in ("rows", "derive"):
                return None  # not a dictionary operation: the rest of the session has no defined expectation
            return "%s raised %s" % ({"frame": "DataFrame(dictionaries)", "append": "append(dict)",
                                      "row": "building a row from a dictionary", "reread": "reading a frame's rows"}[k],
                                     o["op_raised"])
        if k == "row":
            want = [op["dict"].get(f, None) for f in op["fields"]]
            c = judge_views(op["fields"], want, o, op["probes"], op["default"])
            if c:
                return c
            continue
        if e is None:
            continue
        if k == "frame":
            if o["names"] != e["names"]:
                return "columns are not those of the first dictionary"
            if o["rowcount"] != len(op["dicts"]) or len(o["rows"]) != len(op["dicts"]):
                return "not exactly one row per dictionary"
            if any(len(r) != len(e["names"]) for r in o["rows"]):
                return "a row is not as wide as the column list"
            if not wire.same(o["rows"], e["rows"]):
                return "a row does not hold each field's value at that field's position"
            c = judge_frame_views(e["names"], e["rows"], o.get("views"))
            if c:
                return c
        elif k == "append":
            if not wire.same(o["rows"], e["rows"]) or o["rowcount"] != len(e["rows"]):
                return "append(dict) did not add exactly the record's row"
            c = judge_views(e["names"], e["rows"][-1], o["last"], op.get("probes", []), op.get("default"))
            if c:
                return c
        elif k == "reread":
            if o["names"] != e["names"] or not wire.same(o["rows"], e["rows"]) or o["rowcount"] != len(e["rows"]):
                return "a frame no longer holds exactly the rows of its dictionaries (one per dictionary / append, values by field name)"
            c = judge_frame_views(e["names"], e["rows"], o.get("views"))
            if c:
                return c
        elif k == "derive":
            # what slice / query / + select is not this property's business; that a frame derived from a frame of
            # dictionaries still has the first dictionary's columns and only rows of those dictionaries, each as wide
            # as the column list, and that the rows' views still reproduce the association, is
            if e["dicts"]:
                if o["names"] != e["names"]:
                    return "a frame derived from a frame of dictionaries does not have the first dictionary's columns"
                if any(len(r) != len(e["names"]) for r in o["rows"]):
                    return "a row of a derived frame is not as wide as the column list"
                if any(not any(wire.same(r, sr) for sr in e["source"]) for r in o["rows"]):
                    return "a frame derived from a frame of dictionaries holds a row that is not the row of one of its dictionaries"
            if o["names"] == e["names"]:
                c = judge_frame_views(e["names"], o["rows"], o.get("views"))
                if c:
                    return c
    return None


# ----------------------------------------------------------------------------- frames bound to a schema OBJECT

MUTATIONS = ("rename", "replace", "popinsert", "swap", "add", "remove", "reverse", "assign")
NAME_READS = ("column_names", "iter")
FRAME_READS = ("column_names", "select", "description", "columncount")


def mutated(names, m):
    """The column names after the caller's edit `m` of the schema object (positions modulo the number of columns;
    on an empty column list only `add` and `assign` do anything).  `pop_column(name)` removes the FIRST column of
    that name."""
    names = list(names)
    how, n = m["how"], len(names)
    if how == "assign":
        return list(m["names"])
    if how == "add":
        names.insert(m["pos"] % (n + 1), m["name"])
        return names
    if n == 0:
        return names
    p = m["pos"] % n
    if how in ("rename", "replace"):
        names[p] = m["name"]
    elif how == "popinsert":
        names.pop(names.index(names[p]))
        names.insert(m.get("at", 0) % (len(names) + 1), m["name"])
    elif how == "swap":
        q = m.get("at", 0) % n
        names[p], names[q] = names[q], names[p]
    elif how == "remove":
        names.pop(p)
    elif how == "reverse":
        names.reverse()
    return names


def mutate_schema(schema, m):
    """The same edit on the real RelationSchema object, through its public surface."""
    from orso.schema import FlatColumn

    cols, how = schema.columns, m["how"]
    n = len(cols)
    if how == "assign":
        schema.columns = [FlatColumn(name=x) for x in m["names"]]
    elif how == "add":
        cols.insert(m["pos"] % (n + 1), FlatColumn(name=m["name"]))
    elif n == 0:
        return
    elif how == "rename":
        cols[m["pos"] % n].name = m["name"]
    elif how == "replace":
        cols[m["pos"] % n] = FlatColumn(name=m["name"])
    elif how == "popinsert":
        schema.pop_column(cols[m["pos"] % n].name)
        cols.insert(m.get("at", 0) % (len(cols) + 1), FlatColumn(name=m["name"]))
    elif how == "swap":
        p, q = m["pos"] % n, m.get("at", 0) % n
        cols[p], cols[q] = cols[q], cols[p]
    elif how == "remove":
        cols.pop(m["pos"] % n)
    elif how == "reverse":
        cols.reverse()


def impl_bound(case):
    """Schema objects, frames bound to them, the caller editing the objects in between, dictionaries appended and
    free-standing rows built at any point."""
    from orso import DataFrame
    from orso.row import Row
    from orso.schema import FlatColumn, RelationSchema

    schemas, frames, outs = [], [], []
    held = []  # (number of the operation that built it, the Row object): every row built from a dictionary so far

    def review():
        """Every view of the rows built earlier (the last few), read now."""
        return [[i, views_of(r, case["ops"][i].get("probes", []), case["ops"][i].get("default"))] for i, r in held[-HELD:]]

    for n_op, op in enumerate(case["ops"]):
        k = op["op"]
        o = {}
        try:
            with warnings.catch_warnings():
                warnings.simplefilter("ignore")
                if k == "ctx":
                    impl_ctx(op)
                elif k == "schema":
                    schemas.append(RelationSchema(name="t", columns=[FlatColumn(name=f) for f in op["fields"]]))
                elif k in ("bound", "names", "mutate", "rowclass") and not schemas:
                    o = {"skip": True}
                elif k in ("append", "reread", "derive", "fnames") and not frames:
                    o = {"skip": True}
                elif k == "bound":
                    rws = [tuple(r) for r in op["rows"]]
                    frames.append(DataFrame(rows=(r for r in rws) if op.get("lazy") else rws, schema=schemas[op["schema"] % len(schemas)]))
                    o = {"rows": [list(r) for r in op["rows"]]}  # nothing of it read yet
                elif k == "names":
                    s = schemas[op["schema"] % len(schemas)]
                    o = {"names": [str(x) for x in (s.column_names if op["how"] == "column_names" else list(s))]}
                elif k == "fnames":
                    df = frames[op["frame"] % len(frames)]
                    how = op["how"]
                    df.materialize()
                    if how == "column_names":
                        df.column_names
                    elif how == "columncount":
                        df.columncount
                    elif how == "description":
                        df.description
                    else:
                        df.select([c.name for c in df.schema.columns][:1])
                elif k == "mutate":
                    s = schemas[op["schema"] % len(schemas)]
                    mutate_schema(s, op)
                    o = {"names": [c.name for c in s.columns]}
                elif k == "rowclass":
                    s = schemas[op["schema"] % len(schemas)]
                    entry = mapping(op["dict"], op.get("mapping"))
                    row = Row.create_class(s)(entry)
                    spoil_input(entry)
                    held.append((n_op, row))
                    # unread: nobody looks at the row now; its views are read for the first time after later operations
                    o = ({"row": canon(tuple(row)), "unread": True} if op.get("unread") else
                         views_of(row, op["probes"], op["default"], op.get("reads")))
                elif k == "append":
                    df = frames[op["frame"] % len(frames)]
                    entry = mapping(op["dict"], op.get("mapping"))
                    try:
                        df.append(entry)
                    except Exception as e:
                        if type(e).__name__ not in VALIDATION_ERRORS:
                            raise
                        o = {"refused": type(e).__name__, "rows": [canon(tuple(r)) for r in df._rows]}
                    else:
                        spoil_input(entry)
                        if isinstance(df._rows, list) and df._rows and hasattr(df._rows[-1], "as_map"):
                            held.append((n_op, df._rows[-1]))
                        o = {"rows": [canon(tuple(r)) for r in df._rows], "rowcount": df.rowcount,
                             "last": ({"unread": True} if op.get("unread") else
                                      last_views(df, op.get("probes", []), op.get("default"), op.get("reads")))}
                elif k == "reread":
                    df = frames[op["frame"] % len(frames)]
                    o = {"rows": [canon(tuple(r)) for r in df], "rowcount": df.rowcount}
                    o["held"] = review()
                elif k == "derive":
                    df = frames[op["frame"] % len(frames)]
                    df.materialize()
                    how = op["how"]
                    nf = df.slice(0, op.get("n")) if how == "slice" else df.query(lambda r: True) if how == "query" else df + df
                    frames.append(nf)
                    o = {"rows": [canon(tuple(r)) for r in nf]}
        except Exception as e:
            o = {"op_raised": type(e).__name__}
        outs.append(o)
    try:
        final = review()  # when the session is over, the rows built during it are looked at once more
    except Exception as e:
        final = {"__raised__": type(e).__name__}
    return {"ops": outs, "held": final}


HELD = 6
EARLIER = ("a row built from a dictionary earlier, read again after later operations on its frame / its schema object "
           "(a row keeps the association it was built with): ")


def judge_held(ops, exp, held, upto):
    """The rows built by operations before `upto`, judged against the names their schema had WHEN THEY WERE BUILT."""
    if is_raised(held):
        return EARLIER + "reading the views raised %s" % held["__raised__"]
    for i, v in held:
        e, op = exp[i], ops[i]
        if e is None or i >= upto:
            continue
        want = e["row"] if op["op"] == "append" else [op["dict"].get(f, None) for f in e["names"]]
        c = judge_views(e["names"], want, v, op.get("probes", []), op.get("default"))
        if c:
            return EARLIER + c
    return None


def bound_expected(ops, outs=None):
    """What an exact reading of the property predicts, op by op: the schema's column names are what the caller
    made them, and a dictionary is laid out by the names as they are when it is appended / the row is built.
    Whether a record is accepted is the validation's business (C03): with `outs` the mirror follows what the
    implementation decided, without it a record is accepted when its keys are exactly the column names."""
    schemas, frames, exp = [], [], []
    for i, op in enumerate(ops):
        k = op["op"]
        o = outs[i] if outs is not None else {}
        e = None
        if "op_raised" in o:
            exp.append(None)
            continue
        if k == "schema":
            schemas.append(list(op["fields"]))
            e = {"names": list(op["fields"])}
        elif k in ("bound", "names", "mutate", "rowclass") and schemas:
            si = op["schema"] % len(schemas)
            if k == "mutate":
                schemas[si] = mutated(schemas[si], op)
            elif k == "bound":
                frames.append({"schema": si, "rows": [list(r) for r in op["rows"]]})
            e = {"schema": si, "names": list(schemas[si])}
            if k == "bound":
                e["rows"] = [list(r) for r in op["rows"]]
        elif k in ("append", "reread", "derive", "fnames") and frames:
            fi = op["frame"] % len(frames)
            f = frames[fi]
            names = list(schemas[f["schema"]])
            e = {"frame": fi, "schema": f["schema"], "names": names}
            if k == "append":
                row = [op["dict"].get(n, None) for n in names]
                accepted = ("refused" not in o) if outs is not None else (set(op["dict"]) == set(names))
                e.update(prev=[list(r) for r in f["rows"]], row=row, accepted=accepted)
                if accepted:
                    f["rows"].append(row)
                e["rows"] = [list(r) for r in f["rows"]]
            elif k == "reread":
                e["rows"] = [list(r) for r in f["rows"]]
            elif k == "derive":
                n = op.get("n")
                rows = ((f["rows"][:] if n is None else f["rows"][0:n]) if op["how"] == "slice" else
                        f["rows"][:] if op["how"] == "query" else f["rows"] + f["rows"])
                e["source"] = [list(r) for r in f["rows"]]
                if outs is not None and "rows" in o:
                    rows = o["rows"]  # which rows an operator selects is C03's business
                frames.append({"schema": f["schema"], "rows": [list(r) for r in rows]})
                e["rows"] = [list(r) for r in rows]
        exp.append(e)
    return exp


NOW = "on a frame bound to a schema object, by the schema's columns as they are when the record is appended: "


def oracle_bound(case, out):
    ops, outs = case["ops"], out["ops"]
    exp = bound_expected(ops, outs)
    for op, o, e in zip(ops, outs, exp):
        k = op["op"]
        if k == "ctx":
            continue
        if "op_raised" in o:
            if k in ("append", "rowclass", "reread"):
                return "%s raised %s" % ({"append": "append(dict)", "rowclass": "building a row from a dictionary",
                                          "reread": "reading a frame's rows"}[k], o["op_raised"])
            return None  # not a dictionary operation: the rest of the session has no defined expectation
        if e is None or o.get("skip"):
            continue
        if k == "mutate" and o["names"] != e["names"]:
            raise InfraError("C02: the harness's own edit of a schema object is not the mirror's: %r vs %r" % (o["names"], e["names"]))
        if k == "rowclass":
            want = [op["dict"].get(f, None) for f in e["names"]]
            if o.get("unread"):
                if not wire.same(o["row"], want):
                    return "a field's value is not at that field's position (or absent field not null / extra key not ignored)"
                continue
            c = judge_views(e["names"], want, o, op["probes"], op["default"])
            if c:
                return c
        elif k == "append":
            if not e["accepted"]:
                # refused by the schema's validation (whether rightly is C03's business, whether the frame is left
                # untouched C05's): here only that no row other than the record's own was stored
                if not (wire.same(o["rows"], e["prev"]) or wire.same(o["rows"], e["prev"] + [e["row"]])):
                    return "append(dict) stored a row that is not the record's row"
                continue
            if not wire.same(o["rows"], e["rows"]) or o["rowcount"] != len(e["rows"]):
                return NOW + "append(dict) did not add exactly the record's row"
            if not o["last"].get("unread"):
                c = judge_views(e["names"], e["row"], o["last"], op.get("probes", []), op.get("default"))
                if c:
                    return NOW + c
        elif k == "reread":
            if not wire.same(o["rows"], e["rows"]) or o["rowcount"] != len(e["rows"]):
                return "a frame no longer holds exactly the rows it was given and the rows of the dictionaries appended to it"
            c = judge_held(ops, exp, o.get("held", []), len(ops))
            if c:
                return c
        elif k == "derive":
            if any(not any(wire.same(r, sr) for sr in e["source"]) for r in o["rows"]):
                return "a frame derived from a bound frame holds a row that is not a row of its source"
    if not any("op_raised" in o for o in outs):
        return judge_held(ops, exp, out.get("held", []), len(ops))
    return None


def bound_wire(ops):
    """The session for the Lean state machine.  Frame-level reads are the route they take to the schema's names
    (`select` iterates the schema object); reads that never touch the names are nothing to the model."""
    w = []
    for op in ops:
        k = op["op"]
        if k == "ctx":
            w.append(["ctx"])
        elif k == "schema":
            w.append(["schema", op["fields"]])
        elif k == "bound":
            w.append(["bound", op["schema"], op["rows"]])
        elif k == "names":
            w.append(["read", op["schema"], op["how"]])
        elif k == "fnames":
            w.append(["fread", op["frame"], {"select": "iter"}.get(op["how"], "columns")])
        elif k == "mutate":
            how = op["how"]
            m = (["rename", op["pos"], op["name"]] if how in ("rename", "replace") else
                 ["popinsert", op["pos"], op.get("at", 0), op["name"]] if how == "popinsert" else
                 ["swap", op["pos"], op.get("at", 0)] if how == "swap" else
                 ["add", op["pos"], op["name"]] if how == "add" else
                 ["remove", op["pos"]] if how == "remove" else
                 ["reverse"] if how == "reverse" else ["assign", op["names"]])
            w.append(["mutate", op["schema"], m])
        elif k == "append":
            w.append(["append", op["frame"], op["dict"], op.get("probes", []), op.get("default")])
        elif k == "rowclass":
            w.append(["rowclass", op["schema"], op["dict"], op["probes"], op["default"]])
        elif k == "reread":
            w.append(["reread", op["frame"]])
        else:
            n = op.get("n") if op["how"] == "slice" else None
            w.append(["derive", op["frame"], op["how"], -1 if n is None else n])
    return w


def bound_matches(case, out, mouts):
    """The Lean machine's per-op outputs against the implementation's."""
    if len(mouts) != len(case["ops"]):
        return False
    for op, o, mo in zip(case["ops"], out["ops"], mouts):
        k = op["op"]
        if "op_raised" in o:
            return k not in ("append", "rowclass", "reread", "names")
        if o.get("skip"):
            ok = mo == ["skip"]
        elif k == "ctx":
            ok = mo == ["ctx"]
        elif k == "schema":
            ok = mo == ["schema"]
        elif k in ("names", "mutate"):
            ok = mo[0] == "names" and mo[1] == o["names"]
        elif k == "fnames":
            ok = mo[0] == "names"
        elif k in ("bound", "reread"):
            ok = mo[0] == "frame" and wire.same(mo[1], o["rows"])
        elif k == "derive":
            ok = mo[0] == "frame"
            if ok and not wire.same(mo[1], o["rows"]):
                return True  # which rows an operator selects is C03's business; nothing after it is comparable
        elif k == "append":
            if "refused" in o:
                ok = mo == ["refused"]
            else:
                last = o["last"]
                ok = mo[0] == "appended" and wire.same(mo[1], o["rows"])
                if ok and not last.get("unread"):
                    ok = ("row" in last and wire.same(mo[2], view(last, "as_map"))
                          and wire.same(mo[3], view(last, "as_dict")) and wire.same(mo[4], last["gets"]))
        else:
            ok = mo[0] == "row" and "row" in o and wire.same(mo[1], o["row"])
            if ok and not o.get("unread"):
                ok = wire.same(mo[2], view(o, "as_map")) and wire.same(mo[3], view(o, "as_dict")) and wire.same(mo[4], o["gets"])
        if not ok:
            return False
    return True


def bound_mirror_check(ctx, case, out, mouts):
    """Lean machine vs. the Python mirror of the specification, implementation out of the picture (records are
    accepted when their keys are exactly the column names: the columns made here have no type and are nullable)."""
    exp = bound_expected(case["ops"])
    bad = None
    for op, e, mo in zip(case["ops"], exp, mouts):
        k = op["op"]
        if e is None:
            continue
        if k in ("names", "fnames"):
            continue  # what a read of the names returns is not this property's business (model vs. implementation only)
        if k == "mutate":
            if mo != ["names", e["names"]]:
                bad = (op, mo, e)
        elif k in ("bound", "reread", "derive"):
            if not (mo[0] == "frame" and wire.same(mo[1], e["rows"])):
                bad = (op, mo, e)
        elif k == "append":
            if e["accepted"]:
                if not (mo[0] == "appended" and wire.same(mo[1], e["rows"]) and wire.same(mo[2], [[f, v] for f, v in zip(e["names"], e["row"])])):
                    bad = (op, mo, e)
            elif mo != ["refused"]:
                bad = (op, mo, e)
        elif k == "rowclass":
            want = [op["dict"].get(f, None) for f in e["names"]]
            if not (mo[0] == "row" and wire.same(mo[1], want) and wire.same(mo[2], [[f, v] for f, v in zip(e["names"], want)])):
                bad = (op, mo, want)
        if bad:
            break
    if bad is None:
        return
    if model_is_spec():
        raise InfraError("C02 schema-session model differs from the specification mirror on %r: %r vs %r" % bad)
    ctx.disagree(ordered(case), out, mouts, what="the model assembled from the changed source statements differs from the specification")



# ----------------------------------------------------------------------------- records at the size limit

DOCUMENTED_LIMIT = 16 * 1024 * 1024  # "Record length cannot exceed 16Mb": the packed values of one record
SIZED_VIAS = ("dicts", "names", "schema")
SIZED_READS = {"first": ["as_map", "as_dict", "values", "keys"], "then": ["keys", "values", "as_dict", "as_map"]}


def big_value(big):
    n = big["len"]
    return b"x" * n if big.get("as") == "bytes" else "x" * n


def packed_size(cells):
    """The size of the packed values of a record, computed without orso (ormsgpack, as the source's own `packb`)."""
    import ormsgpack

    return len(ormsgpack.packb(tuple(cells)))


def sized_record(case):
    d = dict(case["dict"])
    d[case["big"]["key"]] = big_value(case["big"])
    return d


def compact(x):
    """An output as it goes into a report: long text / bytes by their length."""
    if isinstance(x, (str, bytes)) and len(x) > 256:
        return {"__long__": type(x).__name__, "len": len(x)}
    if isinstance(x, (list, tuple)):
        return [compact(v) for v in x]
    if isinstance(x, dict):
        return {k: compact(v) for k, v in x.items()}
    return x


def impl_sized(case):
    """append(dict) of a record whose packed values are at / just below / just past a size threshold of the source
    (as_bytes is reached from append through nbytes).  Judged here, where the long value still exists; the output
    carries lengths only."""
    from orso import DataFrame
    from orso.schema import FlatColumn, RelationSchema

    fields, via = list(case["fields"]), case["via"]
    d = sized_record(case)
    want = [d.get(f, None) for f in fields]
    out = {"packed": packed_size(want)}
    try:
        if via == "dicts":
            df = DataFrame([{f: None for f in fields}])
            prev = [[None for _ in fields]]
        else:
            schema = RelationSchema(name="t", columns=[FlatColumn(name=f) for f in fields]) if via == "schema" else list(fields)
            df = DataFrame(rows=[], schema=schema)
            prev = []
    except Exception as e:
        return {"setup_raised": type(e).__name__}
    try:
        df.append(dict(d))
    except Exception as e:
        out["raised"] = type(e).__name__
        out["rows_kept"] = wire.same([canon(tuple(r)) for r in df._rows], prev)
        out["clause"] = None
        if out["packed"] <= DOCUMENTED_LIMIT:
            out["clause"] = ("append(dict) raised %s for a record whose packed values do not exceed the stated limit (16 MiB)"
                             % out["raised"])
        elif not out["rows_kept"]:
            out["clause"] = "append(dict) stored a row that is not the record's row"
        return out
    rows = [canon(tuple(r)) for r in df._rows]
    out["rowcount"] = df.rowcount
    if not wire.same(rows, prev + [want]) or df.rowcount != len(prev) + 1:
        out["clause"] = "append(dict) did not add exactly the record's row"
        out["rows"] = compact(rows)
        return out
    probes = frame_probes(fields) + [case["big"]["key"]]
    v = last_views(df, probes, "dflt", SIZED_READS)
    out["clause"] = judge_views(fields, want, v, probes, "dflt")
    out["last"] = compact(v)
    return out


def oracle_sized(case, out):
    if "setup_raised" in out:
        return None
    return out.get("clause")


def sized_thresholds():
    """Every size threshold of the source's record guard: the stated limit and whatever orso.row has now as
    MAXIMUM_RECORD_SIZE, each minus/plus the header size and one."""
    ts, header = {DOCUMENTED_LIMIT}, 14
    try:
        import orso.row as r

        if isinstance(getattr(r, "MAXIMUM_RECORD_SIZE", None), int) and 0 < r.MAXIMUM_RECORD_SIZE <= 64 * 1024 * 1024:
            ts.add(r.MAXIMUM_RECORD_SIZE)
        if isinstance(getattr(r, "HEADER_SIZE", None), int) and 0 < r.HEADER_SIZE < 4096:
            header = r.HEADER_SIZE
    except Exception:
        pass
    offs = sorted({-header - 1, -header, -header + 1, -15, -14, -13, -1, 0, 1})
    return sorted(ts), offs


def sized_case(via, fields, small, key, packed, as_):
    """The case whose record packs to exactly `packed` bytes (None when that is not reachable with one long value)."""
    probe = {"kind": "sized", "via": via, "fields": fields, "dict": small, "big": {"as": as_, "key": key, "len": 70000}}
    d = sized_record(probe)
    base = packed_size([d.get(f, None) for f in fields])
    n = 70000 + packed - base
    if n < 65536 or n > 80 * 1024 * 1024:
        return None
    probe["big"]["len"] = n
    return probe


def exhaustive_sized(quick=True):
    ts, offs = sized_thresholds()
    for t in ts:
        for off in offs:
            for via in SIZED_VIAS:
                if quick and via != "dicts" and off not in (-14, -13, 0, 1):
                    continue
                fields = ["id", "body"]
                small = {"body": None, "id": 2} if via == "schema" else {"body": None, "unknown": True, "id": 2}
                c = sized_case(via, fields, small, "body", t + off, "str")
                if c:
                    yield c
            if off in (-14, 0, 1):
                c = sized_case("dicts", ["blob"], {}, "blob", t + off, "bytes")
                if c:
                    yield c

# ----------------------------------------------------------------------------- seventh pass: keys that are not plain text; values JSON renders
#
# A case is JSON: a key / a value that JSON cannot carry is a DESCRIPTOR, built into the object just before the call.

KEY_KINDS = ("str", "fresh", "enum", "strsub", "int", "bool", "none", "float", "date", "tuple", "bytes")
KEYED_ROUTES = ("frame", "row", "append")


class _Shown(str):
    """A text (a str) whose str() is another text."""
    shown = ""

    def __str__(self):
        return self.shown


def make_keys(records):
    """records: [[[key descriptor, value], ...], ...] -> the dictionaries.  All str-Enum members of one case are
    members of ONE class (`class Col(str, Enum)`); equal descriptors give equal keys, not always the same object."""
    import datetime
    import enum

    texts = []
    for rec in records:
        for kd, _ in rec:
            if kd["k"] == "enum" and kd["v"] not in texts:
                texts.append(kd["v"])
    col = enum.Enum("Col", {"M%d" % i: t for i, t in enumerate(texts)}, type=str) if texts else None

    def key(kd):
        k, v = kd["k"], kd.get("v")
        if k == "str":
            return v
        if k == "fresh":
            return "".join([c for c in v]) if len(v) > 1 else v  # equal to v, another object
        if k == "enum":
            return col(v)
        if k == "strsub":
            x = _Shown(v)
            x.shown = kd["shown"]
            return x
        if k == "int":
            return int(v)
        if k == "bool":
            return bool(v)
        if k == "none":
            return None
        if k == "float":
            return float(v)
        if k == "date":
            return datetime.date(*v)
        if k == "tuple":
            return tuple(v)
        if k == "bytes":
            return bytes.fromhex(v)
        raise ValueError(k)

    return [{key(kd): v for kd, v in rec} for rec in records]


def valid_keydesc(kd):
    k = kd["k"]
    v = kd.get("v")
    if k in ("str", "fresh", "enum"):
        return isinstance(v, str) and set(kd) == {"k", "v"}
    if k == "strsub":
        return isinstance(v, str) and isinstance(kd["shown"], str)
    if k == "int":
        return type(v) is int
    if k == "bool":
        return type(v) is bool
    if k == "none":
        return set(kd) == {"k"}
    if k == "float":
        return type(v) is float and math.isfinite(v)
    if k == "date":
        import datetime
        datetime.date(*v)
        return len(v) == 3 and all(type(x) is int for x in v)
    if k == "tuple":
        return isinstance(v, list) and all(type(x) in (int, str) for x in v)
    if k == "bytes":
        bytes.fromhex(v)
        return isinstance(v, str)
    return False


def _plain_cell(v):
    return v is None or type(v) in (bool, int, str) and (type(v) is not int or abs(v) < 2**62)


def valid_keyed(c):
    recs = c["records"]
    if c["route"] not in KEYED_ROUTES or not isinstance(recs, list) or not recs:
        return False
    for rec in recs:
        if not isinstance(rec, list):
            return False
        for kv in rec:
            if not (isinstance(kv, list) and len(kv) == 2 and valid_keydesc(kv[0]) and _plain_cell(kv[1])):
                return False
    ds = make_keys(recs)
    if any(len(d) != len(rec) for d, rec in zip(ds, recs)):
        return False  # two descriptors of one record are the same key: the record is not the dictionary written down
    if c["route"] == "row":
        return len(recs) == 1 and all(isinstance(f, str) for f in c["fields"])
    if c["route"] == "append":
        return len(recs) >= 2 and set(c) <= {"kind", "route", "records"}
    return set(c) <= {"kind", "route", "records"}


def impl_keyed(case):
    from orso import DataFrame
    from orso.row import Row

    ds = make_keys(case["records"])
    route = case["route"]
    try:
        if route == "row":
            fields = list(case["fields"])
            row = Row.create_class(fields)(ds[0])
            return {"names": fields, "first": views_of(row, keyed_probes(fields), "dflt")}
        build = ds if route == "frame" else ds[:-1]
        df = DataFrame(list(build))
        out = {"names": list(df.column_names), "rows": [canon(tuple(r)) for r in df], "rowcount": df.rowcount}
        out["views"] = frame_row_views(df, out["names"])
        if route == "append":
            df.append(ds[-1])
            out["after_append"] = [canon(tuple(r)) for r in df._rows]
            out["append_last"] = last_views(df, frame_probes(out["names"]), "dflt")
        return out
    except Exception as e:
        return {"raised": type(e).__name__}


def keyed_probes(fields):
    return list(dict.fromkeys(list(fields[:3]) + ["absent"]))


def _among(got, ok):
    return any(wire.same(got, x) for x in ok)


def oracle_keyed(case, out):
    """Only what the statement demands.  DataFrame(dictionaries): the columns are the first dictionary's keys (as
    text, in its order); position i of every row holds what that dictionary holds under the first dictionary's i-th
    KEY.  Row(dict) / append(dict): position i holds what the dictionary holds under field NAME i (Python's
    dictionary lookup of the text: a str-Enum member / str subclass equal to the name is that key).  Where the two
    readings differ (a later record that has no key equal to the first dictionary's key but one equal to the column's
    text; an appended record keyed by the first dictionary's non-text key) either value is accepted."""
    ds = make_keys(case["records"])
    route = case["route"]
    if "raised" in out:
        return ("building a row from a dictionary raised %s" if route == "row" else "DataFrame(dictionaries) raised %s") % out["raised"]
    if route == "row":
        fields = list(case["fields"])
        want = [ds[0].get(f, None) for f in fields]
        return judge_views(fields, want, out["first"], keyed_probes(fields), "dflt")
    build = ds if route == "frame" else ds[:-1]
    first = list(build[0])
    names = [str(k) for k in first]
    if out["names"] != names:
        return "columns are not those of the first dictionary"
    if out["rowcount"] != len(build) or len(out["rows"]) != len(build):
        return "not exactly one row per dictionary"
    for n, (r, d) in enumerate(zip(out["rows"], build)):
        if len(r) != len(names):
            return "a row is not as wide as the column list"
        for k, name, cell in zip(first, names, r):
            if k in d:
                ok = [d[k]]
            elif n and name in d:
                ok = [None, d[name]]
            else:
                ok = [None]
            if not _among(cell, ok):
                return "a row does not hold each field's value at that field's position"
    c = judge_frame_views(names, out["rows"], out.get("views"))
    if c:
        return c
    if route == "append":
        a = ds[-1]
        if len(out["after_append"]) != len(build) + 1 or not wire.same(out["after_append"][:-1], out["rows"]):
            return "append(dict) did not add exactly the record's row"
        last = out["after_append"][-1]
        if len(last) != len(names):
            return "a row is not as wide as the column list"
        for k, name, cell in zip(first, names, last):
            ok = [a.get(name, None)]
            if k in a:
                ok.append(a[k])
            if not _among(cell, ok):
                return "append(dict) did not add exactly the record's row"
        c = judge_views(names, last, out["append_last"], frame_probes(names), "dflt")
        if c:
            return c
    return None


VAL_KINDS = ("none", "bool", "int", "float", "str", "datetime", "time", "date", "decimal")


def make_val(vd):
    import datetime
    import decimal

    t, v = vd["t"], vd.get("v")
    if t == "none":
        return None
    if t == "bool":
        return bool(v)
    if t == "int":
        return int(v)
    if t == "float":
        return float.fromhex(v)
    if t == "str":
        return v
    if t == "datetime":
        tz = vd.get("tz")
        return datetime.datetime(*v, tzinfo=None if tz is None else datetime.timezone(datetime.timedelta(minutes=tz)))
    if t == "time":
        return datetime.time(*v)
    if t == "date":
        return datetime.date(*v)
    if t == "decimal":
        return decimal.Decimal(v)
    raise ValueError(t)


def enc_val(x):
    import datetime
    import decimal

    if x is None:
        return {"t": "none"}
    if type(x) is bool:
        return {"t": "bool", "v": x}
    if type(x) is int:
        return {"t": "int", "v": str(x)}
    if type(x) is float:
        return {"t": "float", "v": x.hex()}
    if type(x) is str:
        return {"t": "str", "v": x}
    if type(x) is datetime.datetime:
        off = x.utcoffset()
        d = {"t": "datetime", "v": [x.year, x.month, x.day, x.hour, x.minute, x.second, x.microsecond]}
        if off is not None:
            d["tz"] = int(off.total_seconds() // 60)
        return d
    if type(x) is datetime.time and x.tzinfo is None:
        return {"t": "time", "v": [x.hour, x.minute, x.second, x.microsecond]}
    if type(x) is datetime.date:
        return {"t": "date", "v": [x.year, x.month, x.day]}
    if type(x) is decimal.Decimal:
        return {"t": "decimal", "v": str(x)}
    return {"t": "other", "v": repr(x)[:80]}


def valid_valdesc(vd):
    if vd["t"] not in VAL_KINDS or not set(vd) <= {"t", "v", "tz"}:
        return False
    if "tz" in vd and not (vd["t"] == "datetime" and (vd["tz"] is None or type(vd["tz"]) is int and abs(vd["tz"]) < 1440)):
        return False
    if vd["t"] in ("datetime", "time", "date") and not all(type(x) is int for x in vd["v"]):
        return False
    x = make_val(vd)
    if vd["t"] == "int":
        return -(2**63) <= x < 2**64
    if vd["t"] == "float":
        return math.isfinite(x)
    if vd["t"] == "decimal":
        return x.is_finite()
    if vd["t"] == "str":
        return isinstance(x, str)
    return enc_val(x) == {k: v for k, v in vd.items() if not (k == "tz" and v is None)}


def valid_jsonval(c):
    return (c["route"] in KEYED_ROUTES and all(isinstance(f, str) for f in c["fields"]) and len(c["fields"]) == len(c["cells"])
            and (c["route"] == "row" or len(set(c["fields"])) == len(c["fields"]) >= 1)
            and all(valid_valdesc(v) for v in c["cells"]) and set(c) == {"kind", "route", "fields", "cells"})


def impl_jsonval(case):
    from orso import DataFrame
    from orso.row import Row

    fields = list(case["fields"])
    d = {}
    for f, vd in zip(fields, case["cells"]):
        d[f] = make_val(vd)
    try:
        if case["route"] == "row":
            row = Row.create_class(fields)(dict(d))
        elif case["route"] == "frame":
            row = list(DataFrame([dict(d)]))[0]
        else:
            df = DataFrame([dict(d)])
            df.append(dict(d))
            row = df._rows[-1]
        out = {"row": [enc_val(x) for x in tuple(row)], "as_dict": [[k, enc_val(v)] for k, v in row.as_dict.items()],
               "as_map": [[k, enc_val(v)] for k, v in row.as_map], "gets": [enc_val(row.get(f, "dflt")) for f in fields]}
    except Exception as e:
        return {"raised": type(e).__name__}
    try:
        out["json_text"] = bytes(row.as_json).decode("utf-8")
    except Exception as e:
        out["json_raised"] = type(e).__name__
    return out


def json_cell_is(v, js):
    """The JSON member read back names exactly the value the row holds (`default=str` / ISO text for what JSON has
    no literal for: read back with the type's own parser it is the value, to the microsecond and with its offset)."""
    import datetime
    import decimal

    try:
        if v is None or type(v) is bool:
            return js is v
        if type(v) is int:
            return type(js) is int and js == v
        if type(v) is float:
            return type(js) is float and js.hex() == v.hex()
        if type(v) is str:
            return type(js) is str and js == v
        if type(v) is datetime.datetime:
            p = datetime.datetime.fromisoformat(js)
            return type(js) is str and p.replace(tzinfo=None) == v.replace(tzinfo=None) and p.utcoffset() == v.utcoffset()
        if type(v) is datetime.time:
            return type(js) is str and datetime.time.fromisoformat(js) == v
        if type(v) is datetime.date:
            return type(js) is str and "T" not in js and datetime.date.fromisoformat(js) == v
        if type(v) is decimal.Decimal:
            return type(js) in (str, int) and decimal.Decimal(js) == v
    except Exception:
        return False
    return False


def canonical_json_cell(v):
    """The rendering the unchanged tree gives (orjson: ISO 8601 with the microseconds when there are any; str() for
    what it hands to `default`)."""
    import datetime
    import decimal

    if isinstance(v, (datetime.datetime, datetime.time, datetime.date)):
        return v.isoformat()
    if isinstance(v, decimal.Decimal):
        return str(v)
    return v


JSON_CLAUSE = "as_json does not reproduce the field-to-value association"


def time_five_digits(v, js):
    """Open finding C02-K01: the installed orjson writes a time of day with 10000..99999 microseconds with FIVE
    fractional digits (01:02:03.071265 -> "01:02:03.71265", which reads as .712650).  Exactly that text, nothing else."""
    import datetime

    return (type(v) is datetime.time and v.tzinfo is None and 10000 <= v.microsecond <= 99999
            and js == "%02d:%02d:%02d.%d" % (v.hour, v.minute, v.second, v.microsecond))


def known_time_rendering(case, failure):
    """The failure is the JSON clause on a row of values, and every member that does not name its value is a time
    of day written as C02-K01 says (any other loss on the same row - the seconds only, another digit - is reported)."""
    try:
        case = core.unjson(case)  # a replay writes a dictionary whose keys are not in sorted order as its item list
        if case.get("kind") == "sequence":
            case = case["cases"][-1]
        out = core.unjson(failure.get("impl") or {})
        if case.get("kind") != "jsonval" or failure.get("clause") != JSON_CLAUSE or "json_text" not in out:
            return False
        d = {f: make_val(vd) for f, vd in zip(case["fields"], case["cells"])}
        js = json.loads(out["json_text"])
        if not isinstance(js, dict) or set(js) != set(d):
            return False
        bad = [f for f in d if not json_cell_is(d[f], js[f])]
        return bool(bad) and all(time_five_digits(d[f], js[f]) for f in bad)
    except Exception:
        return False


def oracle_jsonval(case, out):
    fields = list(case["fields"])
    d = {}
    for f, vd in zip(fields, case["cells"]):
        d[f] = enc_val(make_val(vd))
    if "raised" in out:
        return "building a row from a dictionary raised %s" % out["raised"]
    want = [d[f] for f in fields]
    if out["row"] != want:
        return "a field's value is not at that field's position (or absent field not null / extra key not ignored)"
    if out["as_map"] != [[f, v] for f, v in zip(fields, want)]:
        return "as_map does not reproduce the field-to-value association"
    if out["as_dict"] != [[k, v] for k, v in d.items()]:
        return "as_dict does not reproduce the field-to-value association"
    if out["gets"] != want:
        return "get(name, default) returned neither the field's value nor the default"
    if "json_raised" in out:
        return "as_json raised %s" % out["json_raised"]
    try:
        js = json.loads(out["json_text"])
    except Exception:
        return "as_json does not reproduce the field-to-value association"
    if not isinstance(js, dict) or set(js) != set(d) or not all(json_cell_is(make_val(d[f]), js[f]) for f in d):
        return "as_json does not reproduce the field-to-value association"
    return None



# ----------------------------------------------------------------------------- one case, any kind

IMPL = {"row": (impl_row, oracle_row), "frame": (impl_frame, oracle_frame), "append": (impl_append, oracle_append),
        "ctx": (impl_ctx, lambda c, o: None), "session": (impl_session, oracle_session),
        "bound": (impl_bound, oracle_bound), "sized": (impl_sized, oracle_sized),
        "keyed": (impl_keyed, oracle_keyed), "jsonval": (impl_jsonval, oracle_jsonval)}


def run_case(case):
    """(implementation output, failing clause or None).  Never raises for anything the implementation does."""
    if case["kind"] == "sequence":
        out, clause = None, None
        for sub in case["cases"]:
            out, clause = run_case(sub)
            if clause is not None:
                break
        return out, clause
    impl, oracle = IMPL[case["kind"]]
    out = impl(case)
    return out, oracle(case, out)


# ----------------------------------------------------------------------------- model


def session_wire(ops):
    w = []
    for op in ops:
        k = op["op"]
        if k == "ctx":
            w.append(["ctx"])
        elif k == "frame":
            w.append(["frame", op["dicts"], SOURCE_CLASS[source_kind(op)]])
        elif k == "rows":
            w.append(["rows", op["fields"], op["rows"]])
        elif k == "append":
            w.append(["append", op["frame"], op["dict"], op.get("probes", []), op.get("default")])
        elif k == "row":
            w.append(["row", op["fields"], op["dict"], op["probes"], op["default"]])
        elif k == "reread":
            w.append(["reread", op["frame"]])
        else:
            n = op.get("n") if op["how"] == "slice" else None
            w.append(["derive", op["frame"], op["how"], -1 if n is None else n])
    return w


def views_line(case):
    """The same row as an object: the reads, the caller's changes and the reads after them, on the model of the
    views' objects (Model/DictViews.lean with the decorators / return expressions of the working tree)."""
    rd = case.get("reads") or {}
    return "C02 views " + wire.line(case["fields"], case["dict"], list(rd.get("first", VIEWS)), list(rd.get("then", VIEWS)))


def json_subset(v):
    """Cells whose JSON text is inside the model (Model/DictJson.lean on C07's JSON model): null, booleans,
    integers in orjson's 64-bit range, text, lists of those.  Floats (orjson's shortest rendering), bytes and
    nested dictionaries are outside it."""
    if v is None or isinstance(v, (bool, str)):
        return True
    if isinstance(v, int):
        return -(2**63) <= v < 2**64
    if isinstance(v, list):
        return all(json_subset(x) for x in v)
    return False


def json_line(case):
    want = [case["dict"].get(f, None) for f in case["fields"]]
    if not all(json_subset(v) for v in want):
        return None
    return "C02 json " + wire.line(case["fields"], case["dict"])


def compare_json(case, out, mo):
    """The TEXT of as_json, byte for byte, against the model's rendering of the dictionary view."""
    if not mo.startswith("ok "):
        raise InfraError("model rejected the JSON text of %r: %r" % (case, mo))
    m = wire.dec_all(mo[3:])
    texts = [o["json_text"] for o in (out, out.get("after", {})) if isinstance(o, dict) and "json_text" in o]
    if m[0] != "text" or not texts:
        return None, m
    if all(x == m[1] for x in texts):
        return True, m

    def members(text):
        return sorted(json.loads(text, object_pairs_hook=lambda ps: {"__members__": [[k, v] for k, v in ps]})["__members__"],
                      key=lambda kv: json.dumps(kv, sort_keys=True))

    try:
        # the order of the members, white space between the tokens and the choice among equivalent escapes are the
        # serialiser's options, not part of the association: such a text is counted, not reported
        if all(members(x) == members(m[1]) for x in texts):
            return "same members", m
    except Exception:
        pass
    return False, m


def compare_views(case, out, mo):
    if not mo.startswith("ok "):
        raise InfraError("model rejected the views of %r: %r" % (case, mo))
    m = wire.dec_all(mo[3:])
    rd = case.get("reads") or {}
    first, then = list(rd.get("first", VIEWS)), list(rd.get("then", VIEWS))
    if "row" not in out or "views_raised" in out.get("after", {}):
        return True, m
    n = len(first)
    for names, got, src in ((first, m[0][:n], out), (then, m[1], out["after"])):
        for name, mv in zip(names, got):
            if name == "as_json":
                continue  # the serialised text is judged by the oracle on the parsed object
            if not wire.same(mv, src.get(OUT_KEY[name])):
                return False, m
    return True, m


def model_line(case):
    k = case["kind"]
    if k == "row":
        return "C02 row " + wire.line(case["fields"], case["dict"], case["probes"], case["default"], bool(case.get("mapping")))
    if k == "frame":
        return "C02 frame " + wire.line(case["dicts"], SOURCE_CLASS[source_kind(case)])
    if k == "sized":
        d = sized_record(case)
        return "C02 sized " + wire.line(packed_size([d.get(f, None) for f in case["fields"]]))
    if k == "append":
        return "C02 append " + wire.line(case["fields"], case["rows"], case["dict"], bool(case.get("mapping")))
    if k == "session":
        return "C02 session " + wire.line(session_wire(case["ops"]))
    if k == "bound":
        return "C02 bound " + wire.line(bound_wire(case["ops"]))
    return None


def compare_model(case, out, mo):
    if not mo.startswith("ok "):
        raise InfraError("model rejected %r: %r" % (case, mo))
    m = wire.dec_all(mo[3:])
    k = case["kind"]
    if k == "row":
        ok = ("row" in out and wire.same(m[0], out["row"]) and wire.same(m[1], view(out, "as_map")) and wire.same(m[2], view(out, "as_dict"))
              and wire.same(m[3], out["gets"]) and wire.same(m[4], view(out, "keys")) and wire.same(m[5], view(out, "values"))
              and wire.same(m[6], view(out, "as_dict")))  # the object as_json serialises is the dictionary view
    elif k == "frame":
        if m[0] == "StopIteration":
            ok = out.get("raised") == "StopIteration"
        else:
            ok = "raised" not in out and m[0] == out["names"] and wire.same(m[1], out["rows"])
    elif k == "append":
        ok = ("setup_raised" in out or out.get("raised") in VALIDATION_ERRORS  # the schema's validation is not in this model (C03)
              or (out.get("raised") == "TypeError" and (case.get("mapping") or "dict") not in MAPPING_IS_MUTABLE
                  and (case["schema_bound"] or case.get("via") == "arrow"))
              or ("raised" not in out and wire.same(m[0], out["rows"])))
    elif k == "bound":
        ok = bound_matches(case, out, m[0])
    elif k == "sized":
        ok = "setup_raised" in out or m[0] == ("refused" if out.get("raised") == "DataError" else "stored")
    else:
        ok = session_matches(case, out, m[0])
    return ok, m


def session_matches(case, out, mouts):
    """The Lean state machine's per-op outputs against the implementation's (derived frames by mirror semantics)."""
    if len(mouts) != len(case["ops"]):
        return False
    for op, o, mo in zip(case["ops"], out["ops"], mouts):
        k = op["op"]
        if "op_raised" in o:
            return k in ("rows", "derive")  # nothing after it is defined; C02 does not judge these two
        if k == "ctx":
            ok = mo == ["ctx"]
        elif o.get("skip"):
            ok = mo == ["skip"]
        elif k in ("frame", "rows", "reread", "derive"):
            ok = mo[0] == "frame" and mo[1] == o["names"] and wire.same(mo[2], o["rows"])
        elif k == "append":
            last = o["last"]
            ok = (mo[0] == "appended" and wire.same(mo[1], o["rows"]) and "row" in last and wire.same(mo[2], view(last, "as_map"))
                  and wire.same(mo[3], view(last, "as_dict")) and wire.same(mo[4], last["gets"]))
        else:
            ok = (mo[0] == "row" and "row" in o and wire.same(mo[1], o["row"]) and wire.same(mo[2], view(o, "as_map"))
                  and wire.same(mo[3], view(o, "as_dict")) and wire.same(mo[4], o["gets"]))
        if not ok:
            return False
    return True


_MODEL_IS_SPEC = None


def model_is_spec():
    """True when every statement the extractor lifted from the working tree has the text the proofs were
    written against: then the assembled model IS the specification (theorems of Props/C02.lean) and a
    difference from the Python mirror can only be a bug of this harness or of the model."""
    global _MODEL_IS_SPEC
    if _MODEL_IS_SPEC is None:
        try:
            from ..extract import GEN_DIR
            from ..extractors import c02 as x

            g = json.load(open(os.path.join(GEN_DIR, "generated.json")))
            _MODEL_IS_SPEC = all(g.get(k) == v for k, v in x.PINNED.items())
        except Exception:
            _MODEL_IS_SPEC = False
    return _MODEL_IS_SPEC


def mirror_check(ctx, case, out, m):
    """Model vs. the Python mirror of the specification, implementation out of the picture.  With the source
    statements unchanged a difference is a harness/model bug (exit 2, never a VIOLATION); with changed
    statements the model follows the code, and a difference from the specification is a correspondence finding."""
    if case["kind"] == "bound":
        return bound_mirror_check(ctx, case, out, m[0])
    if case["kind"] != "session":
        return
    bad = None
    exp = session_expected(case["ops"])
    for op, e, mo in zip(case["ops"], exp, m[0]):
        if op["op"] in ("frame", "rows", "reread", "derive") and e is not None:
            if not (mo[0] == "frame" and mo[1] == e["names"] and wire.same(mo[2], e["rows"])):
                bad = (op, mo, e)
        elif op["op"] == "append" and e is not None:
            if not (mo[0] == "appended" and wire.same(mo[1], e["rows"])):
                bad = (op, mo, e)
        elif op["op"] == "row":
            want = [op["dict"].get(f, None) for f in op["fields"]]
            if not (mo[0] == "row" and wire.same(mo[1], want)):
                bad = (op, mo, want)
        if bad:
            break
    if bad is None:
        return
    if model_is_spec():
        raise InfraError("C02 session model differs from the specification mirror on %r: %r vs %r" % bad)
    ctx.disagree(ordered(case), out, m, what="the model assembled from the changed source statements differs from the specification")


def text_dict(d):
    return isinstance(d, dict) and all(isinstance(x, str) for x in d)


def valid_reads(c):
    r = c.get("reads")
    if r is None:
        return True
    return (isinstance(r, dict) and set(r) <= {"first", "then"}
            and all(isinstance(r[k], list) and all(n in VIEWS for n in r[k]) for k in r))


def valid_mapping(c):
    return (c.get("mapping") or "dict") in MAPPINGS and (c.get("dmapping") or "dict") in MAPPINGS


def valid_op(op):
    k = op["op"]
    if not valid_mapping(op):
        return False
    if k == "ctx":
        return op["what"] in CTX_KINDS and all(isinstance(f, str) for f in op["fields"])
    if k == "frame":
        return isinstance(op["dicts"], list) and all(text_dict(d) for d in op["dicts"]) and op.get("source", "list") in SOURCES
    if k == "rows":
        w = len(op["fields"])
        return all(isinstance(f, str) for f in op["fields"]) and all(isinstance(r, list) and len(r) == w for r in op["rows"])
    if k == "append":
        return (isinstance(op["frame"], int) and op["frame"] >= 0 and text_dict(op["dict"]) and valid_reads(op)
                and (op.get("from_row") is None or (isinstance(op["from_row"], int) and op["from_row"] >= 0))
                and all(isinstance(p, str) for p in op.get("probes", [])))
    if k == "row":
        return (all(isinstance(f, str) for f in op["fields"]) and text_dict(op["dict"]) and valid_reads(op)
                and all(isinstance(p, str) for p in op["probes"]))
    if k == "reread":
        return isinstance(op["frame"], int) and op["frame"] >= 0
    if k == "derive":
        return (isinstance(op["frame"], int) and op["frame"] >= 0 and op["how"] in ("slice", "query", "add")
                and (op.get("n") is None or (isinstance(op["n"], int) and op["n"] >= 0)))
    return False


def valid_bound_op(op):
    k = op["op"]
    nat = lambda x: isinstance(x, int) and not isinstance(x, bool) and x >= 0  # noqa: E731
    if k == "ctx":
        return op["what"] in CTX_KINDS and all(isinstance(f, str) for f in op["fields"])
    if k == "schema":
        return isinstance(op["fields"], list) and all(isinstance(f, str) for f in op["fields"])
    if k == "bound":
        return nat(op["schema"]) and isinstance(op["rows"], list) and all(isinstance(r, list) for r in op["rows"])
    if k == "names":
        return nat(op["schema"]) and op["how"] in NAME_READS
    if k == "fnames":
        return nat(op["frame"]) and op["how"] in FRAME_READS
    if k == "mutate":
        how = op["how"]
        if how not in MUTATIONS or not nat(op["schema"]):
            return False
        if how == "assign":
            return isinstance(op["names"], list) and all(isinstance(x, str) for x in op["names"])
        if not nat(op["pos"]) or not nat(op.get("at", 0)):
            return False
        return how in ("swap", "remove", "reverse") or isinstance(op["name"], str)
    if k == "append":
        return (nat(op["frame"]) and text_dict(op["dict"]) and valid_reads(op) and op.get("from_row") is None
                and all(isinstance(p, str) for p in op.get("probes", [])) and op.get("unread") in (None, True))
    if k == "rowclass":
        return (nat(op["schema"]) and text_dict(op["dict"]) and valid_reads(op) and all(isinstance(p, str) for p in op["probes"])
                and op.get("unread") in (None, True))
    if k == "reread":
        return nat(op["frame"])
    if k == "derive":
        return nat(op["frame"]) and op["how"] in ("slice", "query", "add") and (op.get("n") is None or nat(op["n"]))
    return False


def valid_case(c):
    try:
        k = c["kind"]
        if k == "bound":
            return isinstance(c["ops"], list) and all(valid_bound_op(op) for op in c["ops"])
        if k == "row":
            return (all(isinstance(f, str) for f in c["fields"]) and text_dict(c["dict"]) and valid_reads(c)
                    and all(isinstance(p, str) for p in c["probes"]))
        if k == "frame":
            return (all(text_dict(d) for d in c["dicts"]) and (c.get("append") is None or text_dict(c["append"]))
                    and c.get("source", "list") in SOURCES and valid_mapping(c))
        if k == "append":
            w = len(c["fields"])
            bound = c["schema_bound"] or c.get("via") == "arrow"
            if bound and len(set(c["fields"])) != w:
                return False
            if c.get("via") == "arrow" and not all(type(x) is int and abs(x) < 2**62 for r in c["rows"] for x in r):
                return False
            return (all(isinstance(f, str) for f in c["fields"]) and all(len(r) == w for r in c["rows"]) and text_dict(c["dict"])
                    and valid_reads(c) and all(isinstance(p, str) for p in c.get("probes", [])) and valid_mapping(c)
                    and c.get("derived") in (None, "head", "slice", "select", "query"))
        if k == "ctx":
            return c["what"] in CTX_KINDS and all(isinstance(f, str) for f in c["fields"])
        if k == "sized":
            b = c["big"]
            return (c["via"] in SIZED_VIAS and all(isinstance(f, str) for f in c["fields"]) and text_dict(c["dict"])
                    and isinstance(b["key"], str) and b["key"] in c["fields"] and b.get("as", "str") in ("str", "bytes")
                    and type(b["len"]) is int and 0 <= b["len"] <= 80 * 1024 * 1024
                    and (c["via"] != "schema" or (len(set(c["fields"])) == len(c["fields"])
                                                  and set(c["dict"]) | {b["key"]} == set(c["fields"]))))
        if k == "session":
            return isinstance(c["ops"], list) and all(valid_op(op) for op in c["ops"])
        if k == "keyed":
            return valid_keyed(c)
        if k == "jsonval":
            return valid_jsonval(c)
        if k == "sequence":
            return len(c["cases"]) >= 1 and all(x["kind"] != "sequence" and valid_case(x) for x in c["cases"])
    except Exception:
        return False
    return False


# ----------------------------------------------------------------------------- pristine interpreter


class Isolate:
    """Client of harness/c02_worker.py: evaluates a list of cases, in order, in a new forked interpreter."""

    def __init__(self):
        self.p = None
        self.calls = 0
        self.failed = None

    def _start(self):
        env = dict(os.environ)
        env["PYTHONPATH"] = core.VERIF + (os.pathsep + env["PYTHONPATH"] if env.get("PYTHONPATH") else "")
        env["ORSO_REPO"] = core.REPO
        self.p = subprocess.Popen([sys.executable, "-m", "harness.c02_worker"], stdin=subprocess.PIPE,
                                  stdout=subprocess.PIPE, stderr=subprocess.DEVNULL, cwd=core.VERIF, env=env)
        self.buf = b""
        r = self._readline(120)
        if not r or not r.get("ready"):
            raise RuntimeError("worker did not start")

    def _readline(self, timeout):
        fd = self.p.stdout.fileno()
        end = time.time() + timeout
        while b"\n" not in self.buf:
            left = end - time.time()
            if left <= 0:
                return None
            rd, _, _ = select.select([fd], [], [], left)
            if not rd:
                return None
            chunk = os.read(fd, 1 << 16)
            if not chunk:
                return None
            self.buf += chunk
        line, self.buf = self.buf.split(b"\n", 1)
        return json.loads(line)

    def close(self):
        if self.p is not None:
            try:
                self.p.kill()
                self.p.wait(5)
            except Exception:
                pass
            self.p = None

    def run(self, cases, timeout=90):
        """List of {"clause", "out"} per case, or None when the pristine interpreter is not available."""
        if self.failed:
            return None
        for attempt in (0, 1):
            try:
                if self.p is None or self.p.poll() is not None:
                    self._start()
                self.p.stdin.write((json.dumps({"cases": [core._jsonable(c) for c in cases]}, default=repr) + "\n").encode())
                self.p.stdin.flush()
                r = self._readline(timeout)
                self.calls += 1
                if r is not None and "results" in r:
                    return r["results"]
                self.close()
                if r is not None and "error" in r and attempt == 1:
                    self.failed = r["error"]
            except Exception as e:
                self.close()
                if attempt == 1:
                    self.failed = "%s: %s" % (type(e).__name__, e)
        self.failed = self.failed or "no answer from the pristine interpreter"
        return None


ISO = Isolate()


def _joint_variants(x):
    """Candidates that change every record of a frame together."""
    if isinstance(x.get("dicts"), list) and x["dicts"] and all(isinstance(d, dict) for d in x["dicts"]):
        # every cell a small number; the appended record gone; half of the columns gone from every record
        if any(v not in (0, 1, None) for d in x["dicts"] for v in d.values()):
            y = dict(x)
            y["dicts"] = [{a: i for a in d} for i, d in enumerate(x["dicts"])]
            yield y
        ks = list(x["dicts"][0])
        if len(ks) > 8:
            for keep in (set(ks[: len(ks) // 2]), set(ks[len(ks) // 2:]), set(ks[: len(ks) - 1 - len(ks) // 8])):
                y = dict(x)
                y["dicts"] = [{a: b for a, b in d.items() if a in keep} for d in x["dicts"]]
                if isinstance(x.get("append"), dict):
                    y["append"] = {a: b for a, b in x["append"].items() if a in keep}
                yield y
        # a column together with its key in every record (and in the appended one)
        for k in list(x["dicts"][0]):
            y = dict(x)
            y["dicts"] = [{a: b for a, b in d.items() if a != k} for d in x["dicts"]]
            if isinstance(x.get("append"), dict):
                y["append"] = {a: b for a, b in x["append"].items() if a != k}
            yield y
        for k in list(x["dicts"][0]):
            if any(d.get(k) not in (0, None) for d in x["dicts"]):
                y = dict(x)
                y["dicts"] = [({a: (i if a == k else b) for a, b in d.items()}) for i, d in enumerate(x["dicts"])]
                yield y


def _drop_key_variants(x):
    """Structural candidates core.shrink does not make: a data dictionary with one key removed."""
    if isinstance(x, list):
        for i, v in enumerate(x):
            for c in _drop_key_variants(v):
                yield x[:i] + [c] + x[i + 1:]
    elif isinstance(x, dict):
        structural = "kind" in x or "op" in x
        if structural:
            yield from _joint_variants(x)
        for k in list(x):
            if structural and k not in ("dict", "dicts", "append", "ops", "cases"):
                continue
            if not structural:
                y = dict(x)
                del y[k]
                yield y
            for c in _drop_key_variants(x[k]):
                y = dict(x)
                y[k] = c
                yield y
        if structural and x.get("kind") == "append" and isinstance(x.get("fields"), list):
            # a field together with its column and its key (a bound frame refuses a record with other keys)
            for i, f in enumerate(x["fields"]):
                try:
                    y = dict(x)
                    y["fields"] = x["fields"][:i] + x["fields"][i + 1:]
                    y["rows"] = [r[:i] + r[i + 1:] for r in x["rows"]]
                    y["dict"] = {k: v for k, v in x["dict"].items() if k != f}
                    yield y
                except Exception:
                    pass
            for k in x["dict"]:
                if x["dict"][k] not in (0, None):
                    y = dict(x)
                    y["dict"] = dict(x["dict"], **{k: 0})
                    yield y
        if (structural and isinstance(x.get("dicts"), list) and len(x["dicts"]) > 1
                and any(a == b for a, b in zip(x["dicts"], x["dicts"][1:]))):
            # the same record twice: both copies have to shrink together
            for d in x["dicts"]:
                for v in [{}] + [{k: 0} for k in d] + [{k: d[k]} for k in d]:
                    y = dict(x)
                    y["dicts"] = [dict(v), dict(v)]
                    yield y
        if structural:
            for k in ("mapping", "dmapping", "derived", "iterator", "source", "reads", "shared", "from_row", "lazy", "append", "unread"):
                if x.get(k) or (k == "append" and x.get(k) is not None):
                    y = dict(x)
                    del y[k]
                    yield y


def _walk(x, path=()):
    yield path, x
    if isinstance(x, list):
        for i, v in enumerate(x):
            yield from _walk(v, path + (i,))
    elif isinstance(x, dict):
        for k, v in x.items():
            yield from _walk(v, path + (k,))


def _replaced(x, path, v):
    if not path:
        return v
    if isinstance(x, list):
        return x[:path[0]] + [_replaced(x[path[0]], path[1:], v)] + x[path[0] + 1:]
    y = dict(x)
    y[path[0]] = _replaced(x[path[0]], path[1:], v)
    return y


def prereduce(case, still, budget=300):
    """First pass of the reduction, linear in the size of the case: every list (operations, cases, records, rows,
    field lists, list-valued cells), outermost first, loses each element it can lose — one trial per element.
    (core.shrink restarts its enumeration after every success and spends its budget before a long case is short.)"""
    cur, tries = case, 0
    done = set()
    progress = True
    while progress and tries < budget:
        progress = False
        for path, node in _walk(cur):
            if not isinstance(node, list) or not node or path in done:
                continue
            done.add(path)
            i = len(node) - 1
            while i >= 0 and tries < budget:
                cand = _replaced(cur, path, node[:i] + node[i + 1:])
                tries += 1
                try:
                    ok = still(cand)
                except Exception:
                    ok = False
                if ok:
                    cur, node, progress = cand, node[:i] + node[i + 1:], True
                i -= 1
            if progress:
                done = {p for p in done if p[:len(path)] != path or p == path}
                break  # the paths below this list have moved: walk again
    return cur


def _keys_pass(cur, still, budget):
    """Removal of dictionary keys / optional flags / joint candidates, to a fixpoint (bounded)."""
    total = 0
    for _ in range(40):
        progress = False
        tries = 0
        for c in _drop_key_variants(cur):
            tries += 1
            total += 1
            if tries > budget or total > 3 * budget:
                break
            try:
                if still(c):
                    cur, progress = c, True
                    break
            except Exception:
                continue
        if not progress:
            break
    return cur


def reduce_case(case, still, budget=250):
    """One linear pass over the lists, removal of dictionary keys / optional flags (records of a frame together),
    core.shrink, the keys again (bounded)."""
    cur = prereduce(case, still)
    cur = _keys_pass(cur, still, budget)
    cur = shrink(cur, still, budget=budget)
    cur = _keys_pass(cur, still, budget)
    return shrink(cur, still, budget=60)


HISTORY = []  # every case evaluated in this interpreter so far, in order


def report(ctx, case, clause, out):
    """A case failed in this interpreter: confirm in a pristine one, find what has to come first, reduce."""
    if any(v.get("sig") == clause for v in ctx.violations):
        ctx.hit("violation-dup:" + clause)
        return
    if ctx.replaying:
        ctx.fail(ordered(case), clause, impl=out)
        return
    if known_time_rendering(case, {"clause": clause, "impl": out}):
        ctx.fail(ordered(case), clause, impl=out)  # an open finding: counted, not reduced again on every run
        return
    deadline = time.time() + 30

    def fails(seq):
        r = ISO.run(seq)
        return r is not None and r[-1]["clause"] == clause

    def last_out(seq):
        r = ISO.run(seq)
        return r[-1]["out"] if r else None

    first = ISO.run([case])
    if first is None:
        ctx.note("isolation_unavailable", ISO.failed)
        still = lambda c2: valid_case(c2) and run_case(c2)[1] == clause  # noqa: E731
        c_min = reduce_case(case, still, budget=300)
        ctx.fail(ordered(c_min), clause, impl=run_case(c_min)[0], detail="reduced in the checking interpreter (no pristine interpreter available)")
        return
    if first[-1]["clause"] == clause:
        ctx.hit("failure:self-contained")
        c_min = reduce_case(case, lambda c2: valid_case(c2) and time.time() < deadline and fails([c2]), budget=250)
        ctx.fail(ordered(c_min), clause, impl=last_out([c_min]), detail="fails as the first operation of a new interpreter")
        return
    # history dependent: which earlier operations of this interpreter does it need?
    ctx.hit("failure:needs-earlier-operations")
    hist = list(HISTORY)
    prefix = None
    for k in (4, 32, 256, 2048, len(hist)):
        cand = hist[-k:] if k else []
        if fails(cand + [case]):
            prefix = cand
            break
        if k >= len(hist):
            break
    if prefix is None:
        ctx.fail(ordered(case), clause, impl=out,
                 detail="fails in the checking interpreter after %d earlier cases; not reproduced by replaying them in a new one" % len(hist))
        return
    # ddmin on the prefix
    n = 2
    while len(prefix) >= 2 and time.time() < deadline:
        size = max(1, len(prefix) // n)
        chunks = [prefix[i:i + size] for i in range(0, len(prefix), size)]
        reduced = False
        for ch in chunks:  # a single chunk suffices?
            if len(ch) < len(prefix) and fails(ch + [case]):
                prefix, n, reduced = ch, 2, True
                break
        if not reduced:
            for i in range(len(chunks)):  # or the complement of one
                comp = [x for j, chx in enumerate(chunks) if j != i for x in chx]
                if len(comp) < len(prefix) and fails(comp + [case]):
                    prefix, n, reduced = comp, max(n - 1, 2), True
                    break
        if not reduced:
            if size == 1:
                break
            n = min(len(prefix), n * 2)
    seq = {"kind": "sequence", "cases": prefix + [case]}
    seq = reduce_case(seq, lambda c2: valid_case(c2) and time.time() < deadline + 20 and fails(c2["cases"]), budget=250)
    ctx.fail(ordered(seq), clause, impl=last_out(seq["cases"]),
             detail="the last operation fails only after the earlier ones of this sequence (same interpreter); alone it passes")


# ----------------------------------------------------------------------------- evaluation


def classify(ctx, c):
    k = c["kind"]
    ctx.hit("kind:" + k)
    if k == "row":
        ctx.hit("fields:%s" % (len(c["fields"]) if len(c["fields"]) <= 6 else "7-16" if len(c["fields"]) < 17 else "17+"))
        ctx.hit("dup-fields" if len(set(c["fields"])) != len(c["fields"]) else "nodup-fields")
        ctx.hit("extra-keys" if set(c["dict"]) - set(c["fields"]) else "no-extra")
        ctx.hit("absent-fields" if set(c["fields"]) - set(c["dict"]) else "all-present")
        ctx.hit("mapping:" + (c.get("mapping") or "dict"))
        seen = SEEN_CTX.get(tuple(c["fields"]))
        if seen:
            ctx.hit("row-after-other-feature-same-fields")
    elif k == "frame":
        ctx.hit("frame-source:%s(%s)" % (source_kind(c), SOURCE_CLASS[source_kind(c)]))
        ctx.hit("frame-records-held-as:" + (c.get("dmapping") or "dict"))
        if c.get("append") is not None:
            ctx.hit("append-record:%s->dicts" % (c.get("mapping") or "dict"))
        if c["dicts"] and len(c["dicts"][0]) > 16:
            ctx.hit("frame-wide:%d" % len(c["dicts"][0]))
        if c.get("shared") and any(list(a.items()) == list(b.items()) for a, b in zip(c["dicts"], c["dicts"][1:])):
            ctx.hit("same-dictionary-object-twice")
    elif k == "sized":
        ctx.hit("sized-via:" + c["via"] + ":" + c["big"].get("as", "str"))
    elif k == "keyed":
        ctx.hit("keyed-route:" + c["route"])
        for kd in {x[0]["k"] for rec in c["records"][:1] for x in rec}:
            ctx.hit("keyed-first-dictionary-key:%s:%s" % (kd, c["route"]))
    elif k == "jsonval":
        ctx.hit("jsonval-route:" + c["route"])
        for vd in c["cells"]:
            us = vd["v"][-1] if vd["t"] in ("datetime", "time") else None
            ctx.hit("jsonval:" + vd["t"] + ("" if us is None else ":microseconds=" + ("0" if us == 0 else "nonzero"))
                    + (":offset" if vd.get("tz") is not None else ""))
    elif k == "ctx":
        ctx.hit("ctx:" + c["what"])
        SEEN_CTX.setdefault(tuple(c["fields"]), set()).add(c["what"])
    elif k == "append":
        ctx.hit("append-via:" + (c.get("via") or ("schema" if c["schema_bound"] else "names")) + (":lazy" if c.get("lazy") else ""))
        ctx.hit("append-record:%s->%s%s" % (c.get("mapping") or "dict", c.get("via") or ("schema" if c["schema_bound"] else "names"),
                                            ":derived" if c.get("derived") else ""))
        if c.get("derived"):
            ctx.hit("append-to-derived:" + c["derived"])
    elif k == "bound":
        ver, read_at, made_at, schema_of = [], [], [], []
        for op in c["ops"]:
            o = op["op"]
            ctx.hit("bound-op:" + o + (":" + op["how"] if o in ("mutate", "names", "fnames") else ""))
            if o == "schema":
                ver.append(0)
                read_at.append(None)
            elif o in ("bound", "names", "mutate", "rowclass") and ver:
                si = op["schema"] % len(ver)
                if o == "mutate":
                    ver[si] += 1
                    if read_at[si] is not None and read_at[si] < ver[si]:
                        ctx.hit("bound:names-read-then-schema-edited")
                else:
                    if o == "bound":
                        made_at.append(ver[si])
                        schema_of.append(si)
                    if o == "rowclass" and ver[si]:
                        ctx.hit("bound:row-built-after-an-edit-of-the-schema" + ("-and-an-earlier-read" if read_at[si] is not None and read_at[si] < ver[si] else ""))
                    if read_at[si] is None or o != "rowclass":
                        read_at[si] = ver[si] if read_at[si] is None else read_at[si]
            elif o in ("append", "derive", "fnames") and made_at:
                fi = op["frame"] % len(made_at)
                si = schema_of[fi]
                if o == "derive":
                    made_at.append(ver[si])
                    schema_of.append(si)
                elif o == "append":
                    if ver[si] == 0:
                        ctx.hit("bound:append-schema-never-edited")
                    elif made_at[fi] < ver[si]:
                        ctx.hit("bound:append-to-a-frame-made-BEFORE-the-last-edit")
                    else:
                        ctx.hit("bound:append-to-a-frame-made-AFTER-the-last-edit"
                                + ("-names-read-before-it" if read_at[si] is not None and read_at[si] < ver[si] else ""))
        ctx.hit("bound-ops:%d" % min(len(c["ops"]), 14))
    elif k == "session":
        made, dict_after = {}, False
        for op in c["ops"]:
            ctx.hit("session-op:" + op["op"] + (":" + op["what"] if op["op"] == "ctx" else ""))
            if op["op"] == "rows" and op.get("lazy"):
                ctx.hit("session:frame-backed-by-a-generator")
            if op["op"] == "frame":
                ctx.hit("frame-source:%s(%s)" % (source_kind(op), SOURCE_CLASS[source_kind(op)]))
            if op.get("from_row") is not None:
                ctx.hit("session:append-of-a-row's-own-dictionary-view")
            if op.get("shared") and any(a == b for a, b in zip(op.get("dicts", []), op.get("dicts", [])[1:])):
                ctx.hit("same-dictionary-object-twice")
            if op["op"] == "ctx" and op["what"] in ("arrow", "tuples"):
                made[tuple(op["fields"])] = True
                made[frozenset(op["fields"])] = True
            elif op["op"] == "row":
                if tuple(op["fields"]) in made:
                    ctx.hit("session:dict-row-after-tuples-only-class-same-fields")
                elif frozenset(op["fields"]) in made:
                    ctx.hit("session:dict-row-after-tuples-only-class-permuted-fields")
        ctx.hit("session-ops:%d" % min(len(c["ops"]), 12))


SEEN_CTX = {}


def observe(ctx, c, out):
    """Measured distribution of what the implementation handed out: which views returned an object the caller
    could change (and did), how many rows had every view read three times, which appends the schema refused."""
    def one(v, plan):
        if isinstance(v, dict) and "changed" in v:
            ctx.hit("row-views-read-changed-reread")
            ctx.hit("views-changeable:" + (",".join(v["changed"]) or "none"))
            if plan:
                ctx.hit("reads-plan:first=%d" % len(plan.get("first", VIEWS)))
                missing = [n for n in VIEWS if n not in plan.get("first", VIEWS)]
                if missing:
                    ctx.hit("view-first-read-after-change")

    if not isinstance(out, dict):
        return
    k = c["kind"]
    if k == "sized" and "packed" in out:
        ctx.hit("sized:packed-values-minus-stated-limit:%+d:%s" % (out["packed"] - DOCUMENTED_LIMIT,
                                                                 "refused" if "raised" in out else "stored"))
    if k == "row":
        one(out, c.get("reads"))
    elif k == "frame":
        for v in out.get("views") or []:
            one(v, None)
        one(out.get("append_last"), None)
        if "iterations" in out:
            ctx.hit("frame-source-iterations-started:%d" % out["iterations"])
    elif k == "append":
        one(out.get("last"), c.get("reads"))
        if out.get("raised") in VALIDATION_ERRORS:
            ctx.hit("append-refused-by-validation:" + (c.get("via") or "schema"))
        elif (c["schema_bound"] or c.get("via")) and set(c["dict"]) != set(c["fields"]) and "raised" not in out:
            ctx.hit("append-bound-other-keys-accepted")
    elif k == "bound":
        for op, o in zip(c["ops"], out.get("ops", [])):
            if "op_raised" in o:
                ctx.hit("bound:op-raised:%s:%s" % (op["op"], o["op_raised"]))
            if op["op"] == "rowclass":
                one(o, op.get("reads"))
            elif op["op"] == "append":
                if "refused" in o:
                    ctx.hit("bound:append-refused-by-validation")
                elif "last" in o:
                    ctx.hit("bound:append-accepted" + (":row-left-unread" if o["last"].get("unread") else ""))
                    one(o.get("last"), op.get("reads"))
        hv = out.get("held")
        if isinstance(hv, list) and hv:
            ctx.hit("bound:earlier-rows-read-again-at-the-end")
            kinds = [op["op"] for op in c["ops"]]
            for i, _ in hv:
                later = kinds[i + 1:]
                if "mutate" in later:
                    ctx.hit("bound:earlier-row-read-again-after-an-edit-of-a-schema-object"
                            + ("-and-a-later-append" if "append" in later[later.index("mutate"):] else ""))
                if c["ops"][i].get("unread"):
                    ctx.hit("bound:earlier-row-first-read-after-later-operations")
    elif k == "session":
        for op, o in zip(c["ops"], out.get("ops", [])):
            if op["op"] == "row":
                one(o, op.get("reads"))
            elif op["op"] == "append":
                one(o.get("last"), op.get("reads"))
            elif op["op"] in ("frame", "reread", "derive"):
                for v in o.get("views") or []:
                    one(v, None)
                if op["op"] == "derive" and o.get("views"):
                    ctx.hit("derived-frame-row-views")


def evaluate(ctx, cases):
    lines = [(i, model_line(c)) for i, c in enumerate(cases)]
    lines = [(i, l) for i, l in lines if l is not None]
    mouts = dict(zip([i for i, _ in lines], ctx.model.batch([l for _, l in lines])))
    vl = [i for i, c in enumerate(cases) if c["kind"] == "row"]
    vouts = dict(zip(vl, ctx.model.batch([views_line(cases[i]) for i in vl]))) if vl else {}
    jl = [(i, json_line(cases[i])) for i in vl]
    jl = [(i, l) for i, l in jl if l is not None]
    jouts = dict(zip([i for i, _ in jl], ctx.model.batch([l for _, l in jl]))) if jl else {}
    for i, c in enumerate(cases):
        out, clause = run_case(c)
        nontrivial = bool(c.get("fields") or c.get("dicts") or c.get("ops") or c.get("cases") or c.get("records"))
        ctx.case(c, nontrivial)
        classify(ctx, c)
        observe(ctx, c, out)
        if clause is not None:
            report(ctx, c, clause, out)
            HISTORY.append(c)
            continue
        HISTORY.append(c)
        if i in mouts:
            ok, m = compare_model(c, out, mouts[i])
            mirror_check(ctx, c, out, m)
            if not ok:
                ctx.disagree(ordered(c), out, m)
        if i in vouts:
            ok, m = compare_views(c, out, vouts[i])
            if not ok:
                ctx.disagree(ordered(c), out, m, what="the objects the views hand out: model and implementation differ")
        if i in jouts:
            ok, m = compare_json(c, out, jouts[i])
            ctx.hit({None: "json-text-not-compared", True: "json-text:identical-to-the-model's", False: "json-text:differs",
                     "same members": "json-text:same-members-other-layout"}[ok])
            if ok is False:
                ctx.disagree(ordered(c), out, m, what="the text of as_json: model and implementation differ")


def evaluate_cold(ctx, cases):
    """Each case as the very first operation of a new interpreter (first-use behaviour)."""
    for c in cases:
        r = ISO.run([c])
        if r is None:
            ctx.note("isolation_unavailable", ISO.failed)
            return
        ctx.case(c, True)
        ctx.hit("cold:" + c["kind"])
        if r[-1]["clause"] is not None:
            clause = r[-1]["clause"]
            if any(v.get("sig") == clause for v in ctx.violations):
                continue
            c_min = reduce_case(c, lambda c2: valid_case(c2) and (ISO.run([c2]) or [{"clause": None}])[-1]["clause"] == clause, budget=200)
            rr = ISO.run([c_min])
            ctx.fail(ordered(c_min), clause, impl=rr[-1]["out"] if rr else None, detail="fails as the first operation of a new interpreter")


# ----------------------------------------------------------------------------- generators


def gen_dict(rng, fields, pool=NAMES):
    keys = [f for f in dict.fromkeys(fields) if rng.random() < 0.75]
    keys += [k for k in rng.sample(pool, rng.randint(0, 3)) if k not in keys]
    rng.shuffle(keys)
    return {k: gen_pyval(rng, 2) for k in keys}


def gen_fields(rng):
    n = rng.choice([0, 1, 2, 3, 4, 6])
    r = rng.random()
    if r < 0.02:
        return ["f%d" % i for i in range(rng.choice([17, 64, 255, 256, 300]))]  # wide rows
    if r < 0.25:
        return [rng.choice(SMALL) for _ in range(n)]  # duplicates likely
    if r < 0.5:
        return rng.sample(SMALL, min(n, 4))  # small pool: the same list comes back often
    if r < 0.6:
        return [gen_text(rng, 6) for _ in range(n)]
    return rng.sample(NAMES, min(n, len(NAMES)))


def gen_mapping(rng, mutable_only=False):
    """The kind of object the record is held in: 65 % a plain dict, otherwise any of the other kinds."""
    r = rng.random()
    if r < 0.65:
        return None
    kinds = [m for m in MAPPINGS[1:] if not mutable_only or m in MAPPING_IS_MUTABLE]
    return rng.choice(kinds)


def gen_reads(rng):
    """Which views are read before the caller changes what it was handed, and in which order all are read after."""
    r = rng.random()
    if r < 0.6:
        return None
    first = [v for v in VIEWS if rng.random() < 0.6]
    rng.shuffle(first)
    then = list(VIEWS)
    rng.shuffle(then)
    return {"first": first, "then": then}


def gen_row_case(rng):
    fields = gen_fields(rng)
    d = gen_dict(rng, fields)
    probes = list(dict.fromkeys(fields))[:4] + rng.sample(NAMES, 2) + ["absent"]
    c = {"kind": "row", "fields": fields, "dict": d, "probes": probes, "default": rng.choice([None, 0, "dflt", [1]])}
    m = gen_mapping(rng)
    if m:
        c["mapping"] = m
    rd = gen_reads(rng)
    if rd:
        c["reads"] = rd
    return c


def gen_source(rng, c):
    """How the caller holds the sequence of dictionaries it gives to the constructor."""
    r = rng.random()
    if r >= 0.3:
        c["source"] = "iter" if r < 0.45 else rng.choice(SOURCES[2:])
    return c


def gen_frame_case(rng):
    n = rng.choice([0, 1, 1, 2, 3, 4, 6])
    first_keys = rng.sample(NAMES, rng.randint(0, 4)) if rng.random() < 0.6 else rng.sample(SMALL, rng.randint(0, 4))
    if rng.random() < 0.015:
        first_keys = ["f%d" % i for i in range(rng.choice([17, 64, 255, 256, 257, 300]))]  # wide frames
        rng.shuffle(first_keys)
        n = min(n, 2)
    dicts = []
    for i in range(n):
        if i == 0:
            dicts.append({k: gen_pyval(rng, 1) for k in first_keys})
        else:
            dicts.append(gen_dict(rng, first_keys))
    if len(dicts) > 1 and rng.random() < 0.2:
        j = rng.randrange(1, len(dicts))
        dicts[j] = dict(dicts[j - 1])  # the same record twice in a row
    c = {"kind": "frame", "dicts": dicts}
    gen_source(rng, c)
    if rng.random() < 0.3 and c.get("source") not in SOURCE_REUSES_RECORDS:
        c["shared"] = True
    dm = gen_mapping(rng)
    if dm and c.get("source") != "refill":
        c["dmapping"] = dm
    if dicts and rng.random() < 0.5:
        c["append"] = gen_dict(rng, first_keys)
        m = gen_mapping(rng)
        if m:
            c["mapping"] = m
    return c


def gen_append_case(rng):
    n = rng.choice([0, 1, 2, 3, 4])
    fields = rng.sample(NAMES, n) if rng.random() < 0.5 else rng.sample(SMALL, min(n, 4))
    r = rng.random()
    def spoil(d, value):
        """A record the schema's validation should refuse: a field missing, a key too many, a value of another type."""
        w = rng.random()
        if w < 0.35 and d:
            d.pop(rng.choice(list(d)))
        elif w < 0.7:
            d[rng.choice([n for n in NAMES if n not in d])] = value()
        elif d:
            d[rng.choice(list(d))] = rng.choice([None, "text", 1.5, [1]])
        return d

    if r < 0.2 and fields:
        rows = [[rng.randint(-5, 5) for _ in fields] for _ in range(rng.randint(1, 3))]
        keys = list(fields)
        rng.shuffle(keys)
        d = {k: rng.randint(-9, 9) for k in keys}
        if rng.random() < 0.35:
            d = spoil(d, lambda: rng.randint(-9, 9))
        c = {"kind": "append", "fields": fields, "rows": rows, "dict": d, "schema_bound": True, "via": "arrow"}
        m = gen_mapping(rng)
        if m and rng.random() < 0.6:
            c["mapping"] = m
        if rng.random() < 0.3:
            c["derived"] = rng.choice(["head", "slice", "select", "query"])
        return c
    rows = [[gen_pyval(rng, 1) for _ in fields] for _ in range(rng.randint(0, 3))]
    bound = r < 0.6
    if bound:
        keys = list(fields)
        rng.shuffle(keys)
        d = {k: gen_pyval(rng, 2) for k in keys}
        if rng.random() < 0.35:
            d = spoil(d, lambda: gen_pyval(rng, 1))
    else:
        d = gen_dict(rng, fields)
    c = {"kind": "append", "fields": fields, "rows": rows, "dict": d, "schema_bound": bound}
    if rng.random() < 0.25:
        c["lazy"] = True
    m = gen_mapping(rng)
    if m and (not bound or rng.random() < 0.5):
        c["mapping"] = m
    if rng.random() < 0.3:
        c["derived"] = rng.choice(["head", "slice", "select", "query"] if len(set(fields)) == len(fields) else ["head", "slice", "query"])
    rd = gen_reads(rng)
    if rd:
        c["reads"] = rd
    return c


def gen_ctx_case(rng, fields=None):
    if fields is None:
        fields = gen_fields(rng)
    return {"kind": "ctx", "what": rng.choice(CTX_KINDS), "fields": list(fields)}


def variants(rng, base):
    """The same field list again, permuted, a sub-list, a super-list, with a repeated name."""
    r = rng.random()
    if r < 0.4 or not base:
        return list(base)
    if r < 0.55:
        p = list(base)
        rng.shuffle(p)
        return p
    if r < 0.7:
        return list(base[: rng.randint(0, len(base))])
    if r < 0.85:
        return list(base) + [rng.choice([n for n in NAMES if n not in base])]
    return list(base) + [rng.choice(base)]


def gen_session_case(rng):
    base = rng.sample(SMALL if rng.random() < 0.5 else NAMES, rng.randint(1, 4))
    ops = []
    n = rng.choice([2, 3, 4, 6, 8, 12])
    for _ in range(n):
        r = rng.random()
        if r < 0.22:
            ops.append({"op": "ctx", "what": rng.choice(CTX_KINDS), "fields": variants(rng, base)})
        elif r < 0.37:
            fk = variants(rng, base)
            fk = list(dict.fromkeys(fk))
            k = rng.choice([0, 1, 1, 2, 3])
            dicts = [{f: gen_pyval(rng, 1) for f in fk}] + [gen_dict(rng, fk) for _ in range(max(k - 1, 0))] if k else []
            if len(dicts) > 1 and rng.random() < 0.3:
                dicts[1] = dict(dicts[0])
            fop = gen_source(rng, {"op": "frame", "dicts": dicts})
            dm = gen_mapping(rng)
            if dm and fop.get("source") != "refill":
                fop["dmapping"] = dm
            ops.append(fop)
            if rng.random() < 0.4:
                ops[-1]["shared"] = True
        elif r < 0.45:
            f = variants(rng, base)
            ops.append({"op": "rows", "fields": f, "rows": [[gen_pyval(rng, 1) for _ in f] for _ in range(rng.randint(0, 2))]})
            if rng.random() < 0.3:
                ops[-1]["lazy"] = True
        elif r < 0.65:
            op = {"op": "append", "frame": rng.randint(0, 5), "dict": gen_dict(rng, variants(rng, base)),
                  "probes": list(base[:2]) + ["absent"], "default": rng.choice([None, 0, "dflt"])}
            if rng.random() < 0.2:
                fr = session_frames(ops)
                tgt = fr[op["frame"] % len(fr)] if fr else None
                if tgt and tgt["rows"]:
                    j = rng.randrange(len(tgt["rows"]))
                    op["dict"] = dict(zip(tgt["names"], tgt["rows"][j]))
                    op["from_row"] = j
            m = gen_mapping(rng)
            if m:
                op["mapping"] = m
            rd = gen_reads(rng)
            if rd:
                op["reads"] = rd
            ops.append(op)
        elif r < 0.83:
            f = variants(rng, base)
            op = {"op": "row", "fields": f, "dict": gen_dict(rng, f), "probes": list(dict.fromkeys(f))[:3] + ["absent"],
                  "default": rng.choice([None, 0, "dflt"])}
            m = gen_mapping(rng)
            if m:
                op["mapping"] = m
            rd = gen_reads(rng)
            if rd:
                op["reads"] = rd
            ops.append(op)
        elif r < 0.91:
            ops.append({"op": "reread", "frame": rng.randint(0, 5)})
        else:
            how = rng.choice(["slice", "slice", "query", "add"])
            op = {"op": "derive", "frame": rng.randint(0, 5), "how": how}
            if how == "slice" and rng.random() < 0.6:
                op["n"] = rng.randint(0, 3)
            ops.append(op)
    return {"kind": "session", "ops": ops}


def bound_state(ops):
    """(column names of every schema object, schema index of every frame, names each schema ever had) after `ops`."""
    schemas, frames, former = [], [], []
    for op in ops:
        k = op["op"]
        if k == "schema":
            schemas.append(list(op["fields"]))
            former.append(list(op["fields"]))
        elif k in ("bound", "mutate") and schemas:
            si = op["schema"] % len(schemas)
            if k == "mutate":
                schemas[si] = mutated(schemas[si], op)
                former[si] += [x for x in schemas[si] if x not in former[si]]
            else:
                frames.append(si)
        elif k == "derive" and frames:
            frames.append(frames[op["frame"] % len(frames)])
    return schemas, frames, former


def gen_mutation(rng, pool, si, names):
    how = rng.choice(["rename", "rename", "replace", "replace", "popinsert", "popinsert", "swap", "add", "remove", "reverse", "assign"])
    m = {"op": "mutate", "schema": si, "how": how}
    if how == "assign":
        k = rng.random()
        m["names"] = (rng.sample(pool, min(len(names), len(pool))) if k < 0.5 else  # as many columns, other names
                      rng.sample(list(names), len(names)) if k < 0.7 else rng.sample(pool, rng.randint(0, min(3, len(pool)))))
        return m
    m["pos"] = rng.randint(0, 3)
    if how in ("swap", "popinsert"):
        m["at"] = rng.randint(0, 3)
    if how in ("rename", "replace", "popinsert", "add"):
        m["name"] = rng.choice(pool)
    return m


def gen_bound_case(rng):
    """One or two schema objects; frames made on them, names read in every way, the objects edited, dictionaries
    appended to frames made before and after the edits, free-standing rows built — in any order."""
    pool = SMALL if rng.random() < 0.6 else NAMES
    ops = [{"op": "schema", "fields": rng.sample(pool, rng.randint(0, min(3, len(pool))))}]
    for _ in range(rng.choice([3, 4, 6, 8, 12])):
        schemas, frames, former = bound_state(ops)
        si = rng.randrange(len(schemas))
        names = schemas[si]
        r = rng.random()
        needs_frame = 0.30 <= r < 0.35 or 0.55 <= r < 0.80 or 0.90 <= r < 0.98
        if r < 0.05:
            ops.append({"op": "schema", "fields": rng.sample(pool, rng.randint(0, min(3, len(pool))))})
        elif r < 0.20 or (needs_frame and not frames):
            op = {"op": "bound", "schema": si, "rows": [[gen_pyval(rng, 1) for _ in names] for _ in range(rng.choice([0, 0, 1, 2]))]}
            if rng.random() < 0.25:
                op["lazy"] = True
            ops.append(op)
        elif r < 0.30:
            ops.append({"op": "names", "schema": si, "how": rng.choice(NAME_READS)})
        elif r < 0.35:
            ops.append({"op": "fnames", "frame": rng.randint(0, 5), "how": rng.choice(FRAME_READS)})
        elif r < 0.55:
            ops.append(gen_mutation(rng, pool, si, names))
        elif r < 0.80:
            fi = rng.randint(0, 5)
            fs = frames[fi % len(frames)]
            cur = schemas[fs]
            keys = list(dict.fromkeys(cur))
            rng.shuffle(keys)
            d = {k: gen_pyval(rng, 2) for k in keys}
            w = rng.random()
            if w < 0.08 and d:
                d.pop(rng.choice(list(d)))  # a record the validation refuses: a field missing …
            elif w < 0.16:
                d[rng.choice([n for n in NAMES if n not in d])] = gen_pyval(rng, 1)  # … a key too many …
            elif w < 0.24:
                d = {k: gen_pyval(rng, 1) for k in former[fs][: len(cur)]}  # … the names the schema used to have
            gone = [x for x in former[fs] if x not in cur]
            op = {"op": "append", "frame": fi, "dict": d, "probes": list(cur[:2]) + gone[:1] + ["absent"],
                  "default": rng.choice([None, 0, "dflt"])}
            m = gen_mapping(rng, mutable_only=True)  # a schema's validation refuses read-only mappings (TypeError)
            if m and rng.random() < 0.5:
                op["mapping"] = m
            rd = gen_reads(rng)
            if rd:
                op["reads"] = rd
            elif rng.random() < 0.4:
                op["unread"] = True
            ops.append(op)
        elif r < 0.90:
            gone = [x for x in former[si] if x not in names]
            op = {"op": "rowclass", "schema": si, "dict": gen_dict(rng, names + gone[:1]),
                  "probes": list(dict.fromkeys(names))[:3] + gone[:1] + ["absent"], "default": rng.choice([None, 0, "dflt"])}
            rd = gen_reads(rng)
            if rd:
                op["reads"] = rd
            elif rng.random() < 0.3:
                op["unread"] = True
            ops.append(op)
        elif r < 0.93:
            ops.append({"op": "reread", "frame": rng.randint(0, 5)})
        elif r < 0.98:
            how = rng.choice(["slice", "slice", "query", "add"])
            op = {"op": "derive", "frame": rng.randint(0, 5), "how": how}
            if how == "slice" and rng.random() < 0.6:
                op["n"] = rng.randint(0, 3)
            ops.append(op)
        else:
            ops.append({"op": "ctx", "what": rng.choice(CTX_KINDS), "fields": list(names)})
    return {"kind": "bound", "ops": ops}


def exhaustive_bound():
    """One schema object with columns a, b and a frame on it; then every way of reading its names (or none) x every
    edit of the object (rename, replace, pop + insert, swap, reverse, add, remove, a new column list) x every way a
    dictionary meets it afterwards (a free-standing row, a frame made now, the frame made before, a frame derived
    from that one), the dictionary's keys in the reverse of the column order."""
    readers = [None, {"op": "names", "schema": 0, "how": "column_names"}, {"op": "names", "schema": 0, "how": "iter"},
               {"op": "rowclass", "schema": 0, "dict": {"b": 1, "a": 2}, "probes": ["a"], "default": None},
               {"op": "bound", "schema": 0, "rows": []}, {"op": "fnames", "frame": 0, "how": "select"},
               {"op": "fnames", "frame": 0, "how": "column_names"}, {"op": "derive", "frame": 0, "how": "query"},
               {"op": "append", "frame": 0, "dict": {"b": 1, "a": 2}, "probes": ["a"], "default": None},
               {"op": "append", "frame": 0, "dict": {"b": 1, "a": 2}, "probes": ["a", "b", "c"], "default": "dflt", "unread": True}]
    edits = [{"how": "rename", "pos": 0, "name": "c"}, {"how": "rename", "pos": 1, "name": "c"}, {"how": "rename", "pos": 0, "name": "b"},
             {"how": "replace", "pos": 0, "name": "c"}, {"how": "replace", "pos": 1, "name": "a"},
             {"how": "popinsert", "pos": 0, "at": 0, "name": "c"}, {"how": "popinsert", "pos": 0, "at": 1, "name": "c"},
             {"how": "popinsert", "pos": 1, "at": 0, "name": "c"}, {"how": "swap", "pos": 0, "at": 1}, {"how": "reverse", "pos": 0},
             {"how": "add", "pos": 0, "name": "c"}, {"how": "add", "pos": 2, "name": "c"}, {"how": "remove", "pos": 0},
             {"how": "remove", "pos": 1}, {"how": "assign", "names": ["b", "a"]}, {"how": "assign", "names": ["c", "d"]},
             {"how": "assign", "names": ["a"]}]
    for rd in readers:
        for ed in edits:
            m = dict(ed, op="mutate", schema=0)
            after = mutated(["a", "b"], m)
            d = {n: i for i, n in enumerate(reversed(list(dict.fromkeys(after))))}
            probes = ["a", "b", "c", "q"]
            for target in ("rowclass", "new", "old", "derived"):
                ops = [{"op": "schema", "fields": ["a", "b"]}, {"op": "bound", "schema": 0, "rows": [[1, 2]]}]
                if rd is not None:
                    ops.append(dict(rd))
                ops.append(m)
                if target == "rowclass":
                    ops.append({"op": "rowclass", "schema": 0, "dict": d, "probes": probes, "default": "dflt"})
                else:
                    if target == "new":
                        ops.append({"op": "bound", "schema": 0, "rows": []})
                    elif target == "derived":
                        ops.append({"op": "derive", "frame": 0, "how": "slice", "n": 1})
                    fi = 0 if target == "old" else len([o for o in ops if o["op"] in ("bound", "derive")]) - 1
                    ops.append({"op": "append", "frame": fi, "dict": d, "probes": probes, "default": "dflt"})
                    ops.append({"op": "reread", "frame": fi})
                yield {"kind": "bound", "ops": ops}


def exhaustive_small():
    """All field lists of length <= 3 over {a,b,c} (duplicates included) x all dictionaries over subsets of
    {a,b,c,z} in two key orders."""
    vals = {"a": 1, "b": "x", "c": None, "z": 2.5}
    for n in range(0, 4):
        for fields in itertools.product("abc", repeat=n):
            for r in range(0, 5):
                for ks in itertools.combinations("abcz", r):
                    for order in (ks, tuple(reversed(ks))):
                        yield {"kind": "row", "fields": list(fields), "dict": {k: vals[k] for k in order},
                               "probes": ["a", "b", "c", "z", "q"], "default": "dflt"}
                        if len(ks) < 2:
                            break


def exhaustive_reads():
    """Every subset of the five views as the ones read BEFORE the caller changes what it was handed (all five are
    read after, in reverse order), for the empty, a one-field, a two-field and a repeated-name field list."""
    d = {"b": [2], "a": 1, "z": 9}
    for fields in ([], ["a"], ["a", "b"], ["a", "a"]):
        for r in range(len(VIEWS) + 1):
            for first in itertools.combinations(VIEWS, r):
                yield {"kind": "row", "fields": list(fields), "dict": d, "probes": ["a", "b", "q"], "default": "dflt",
                       "reads": {"first": list(first), "then": list(reversed(VIEWS))}}


def exhaustive_sessions():
    """Every ordered pair (other feature for field list F1, dictionary operation for field list F2) with F1, F2
    over the field lists of length <= 2 over {a,b} and their permutations / sub- / super-lists."""
    lists = [list(p) for n in range(0, 3) for p in itertools.product("ab", repeat=n)]
    d = {"b": 2, "a": 1, "z": 9}
    for what in CTX_KINDS:
        for f1 in lists:
            for f2 in lists:
                ops = [{"op": "ctx", "what": what, "fields": f1},
                       {"op": "row", "fields": f2, "dict": d, "probes": ["a", "b", "q"], "default": "dflt"},
                       {"op": "rows", "fields": f2, "rows": []},
                       {"op": "append", "frame": 0, "dict": d, "probes": ["a"], "default": None}]
                if len(set(f2)) == len(f2) and f2:
                    ops += [{"op": "frame", "dicts": [{k: 0 for k in f2}]}, {"op": "append", "frame": 1, "dict": d},
                            {"op": "reread", "frame": 1}]
                yield {"kind": "session", "ops": ops}


def exhaustive_sources():
    """Every way of holding the sequence (list, tuple, iterator, generator, dict view, deque, old sequence protocol,
    iterable-only object, counting container, record reader over one cursor, queue drainer) x 1..4 dictionaries, as a
    flat frame case (with a dictionary appended afterwards) and as the first operation of a session."""
    for kind in SOURCES:
        for n in (1, 2, 3, 4):
            dicts = [{"a": 0, "b": "x"}, {"b": 1, "a": None, "z": 9}, {"a": 2}, {}][:n]
            yield {"kind": "frame", "dicts": dicts, "source": kind, "append": {"b": 5, "a": 4}}
            yield {"kind": "session", "ops": [{"op": "frame", "dicts": dicts, "source": kind},
                                              {"op": "append", "frame": 0, "dict": {"b": 5}, "probes": ["a", "b"], "default": None},
                                              {"op": "reread", "frame": 0}]}


def exhaustive_mappings():
    """Every kind of object a record may be held in x every kind of frame it can meet: a free-standing row class, the
    constructor (first and later records), append to a frame built from dictionaries, to a names-only frame (also lazily
    backed), to a schema-bound and an Arrow-derived frame, to frames derived from those by head / slice / select / query,
    and as operations of a session (frame of such records, append, row).  The record has its keys in another order than the
    fields, one key that is not a field and (when the frame allows it) one field missing."""
    rec = {"b": 2, "zz": 9, "a": 1}
    full = {"c": 3, "b": 2, "a": 1}
    for m in MAPPINGS:
        mk = {} if m == "dict" else {"mapping": m}
        dmk = {} if m == "dict" else {"dmapping": m}
        yield dict({"kind": "row", "fields": ["a", "b", "c"], "dict": rec, "probes": ["a", "c", "zz", "absent"], "default": "dflt"}, **mk)
        yield dict({"kind": "row", "fields": [], "dict": rec, "probes": ["a"], "default": None}, **mk)
        for src in ("list", "gen", "reader", "edit"):
            yield dict({"kind": "frame", "dicts": [{"a": 0, "b": "x", "c": None}, rec, {}], "source": src, "append": rec}, **mk, **dmk)
        for derived in (None, "head", "slice", "select", "query"):
            dv = {"derived": derived} if derived else {}
            yield dict({"kind": "append", "fields": ["a", "b", "c"], "rows": [[0, 0, 0]], "dict": rec, "schema_bound": False}, **mk, **dv)
            yield dict({"kind": "append", "fields": ["a", "b", "c"], "rows": [[0, 0, 0]], "dict": full, "schema_bound": True}, **mk, **dv)
            yield dict({"kind": "append", "fields": ["a", "b", "c"], "rows": [[0, 0, 0]], "dict": full, "schema_bound": True, "via": "arrow"},
                       **mk, **dv)
        yield dict({"kind": "append", "fields": ["a", "b", "c"], "rows": [[0, 0, 0]], "dict": rec, "schema_bound": False, "lazy": True}, **mk)
        yield {"kind": "session", "ops": [
            dict({"op": "frame", "dicts": [{"a": 0, "b": "x"}, rec]}, **dmk),
            dict({"op": "append", "frame": 0, "dict": rec, "probes": ["a", "b", "zz"], "default": None}, **mk),
            {"op": "derive", "frame": 0, "how": "slice", "n": 2},
            dict({"op": "append", "frame": 1, "dict": rec, "probes": ["a", "b", "zz"], "default": None}, **mk),
            dict({"op": "row", "fields": ["b", "a"], "dict": rec, "probes": ["a", "zz"], "default": 0}, **mk),
            {"op": "reread", "frame": 0}, {"op": "reread", "frame": 1}]}


KEY_POOL = [{"k": "str", "v": "a"}, {"k": "str", "v": "id"}, {"k": "str", "v": "1"}, {"k": "str", "v": "Col.M0"}, {"k": "str", "v": "None"},
            {"k": "fresh", "v": "id"}, {"k": "fresh", "v": "name"}, {"k": "enum", "v": "id"}, {"k": "enum", "v": "name"},
            {"k": "strsub", "v": "id", "shown": "ID"}, {"k": "strsub", "v": "a", "shown": "b"}, {"k": "strsub", "v": "b", "shown": "b"},
            {"k": "int", "v": 1}, {"k": "int", "v": 2023}, {"k": "int", "v": -1}, {"k": "bool", "v": True}, {"k": "bool", "v": False},
            {"k": "none"}, {"k": "float", "v": 1.5}, {"k": "float", "v": 2023.0}, {"k": "date", "v": [2024, 2, 29]},
            {"k": "tuple", "v": [1, "x"]}, {"k": "tuple", "v": []}, {"k": "bytes", "v": "6964"}, {"k": "bytes", "v": ""}]


def keyed_cases(k1, k2):
    """Two keys: a frame of four records (both keys, the other order, one key, none), the same with the last record
    appended, and the first record as a free-standing row under the keys' texts and under str(key)."""
    recs = [[[k1, 1], [k2, "x"]], [[k2, "y"], [k1, 2]], [[k1, 3]], [], [[k2, "z"], [k1, 4]]]
    yield {"kind": "keyed", "route": "frame", "records": recs[:4]}
    yield {"kind": "keyed", "route": "append", "records": recs}
    yield {"kind": "keyed", "route": "append", "records": [recs[0], recs[2]]}
    try:
        keys = list(make_keys([recs[0]])[0])
    except Exception:
        return
    texts = [str.__str__(k) if isinstance(k, str) else str(k) for k in keys]
    for fields in ([str(k) for k in keys], texts, list(reversed(texts)) + ["absent"]):
        yield {"kind": "keyed", "route": "row", "records": [recs[0]], "fields": fields}


def exhaustive_keyed():
    for k1 in KEY_POOL:
        for k2 in KEY_POOL:
            if k1 is not k2:
                for c in keyed_cases(k1, k2):
                    if valid_case(c):
                        yield c


def gen_keyed_case(rng):
    pool = list(KEY_POOL)
    for _ in range(3):
        t = rng.choice(["id", "a", "é", "", "a b", gen_text(rng, 4)])
        pool.append(rng.choice([{"k": "enum", "v": t}, {"k": "strsub", "v": t, "shown": rng.choice(NAMES)}, {"k": "fresh", "v": t},
                                {"k": "int", "v": rng.randrange(-3, 3000)}, {"k": "date", "v": [rng.randrange(1, 9999), rng.randrange(1, 13), rng.randrange(1, 29)]},
                                {"k": "tuple", "v": [rng.randrange(3) for _ in range(rng.randrange(3))]}]))
    for _ in range(20):
        first = rng.sample(pool, rng.randrange(1, 5))
        recs = []
        for _ in range(rng.randrange(1, 5)):
            ks = rng.sample(first, rng.randrange(0, len(first) + 1)) + rng.sample(pool, rng.randrange(0, 2))
            rng.shuffle(ks)
            recs.append([[k, rng.choice([None, True, 0, rng.randrange(100), gen_text(rng, 3)])] for k in ks])
        recs[0] = [[k, rng.choice([0, rng.randrange(1, 100), gen_text(rng, 3)])] for k in first]
        route = rng.choice(KEYED_ROUTES)
        c = {"kind": "keyed", "route": route, "records": recs}
        if route == "row":
            try:
                ks = list(make_keys([recs[0]])[0])
            except Exception:
                continue
            c["records"] = [recs[0]]
            c["fields"] = [rng.choice([str(k), str.__str__(k) if isinstance(k, str) else str(k), rng.choice(NAMES)]) for k in ks + ks[:1]]
            rng.shuffle(c["fields"])
        elif route == "append" and len(recs) < 2:
            recs.append(list(reversed(recs[0])))
        if valid_case(c):
            return c
    return {"kind": "keyed", "route": "frame", "records": [[[{"k": "int", "v": 1}, 1]]]}


def _dt(*v, tz=None):
    d = {"t": "datetime", "v": list(v)}
    if tz is not None:
        d["tz"] = tz
    return d


VAL_POOL = ([_dt(2024, 2, 29, 23, 59, 59, us, tz=tz) for us in (0, 1, 250000, 999999) for tz in (None, 0, -330, 60)]
            + [_dt(1, 1, 1, 0, 0, 0, 1), _dt(9999, 12, 31, 23, 59, 59, 999999), _dt(1970, 1, 1, 0, 0, 0, 0)]
            + [{"t": "time", "v": [h, m, sec, us]} for (h, m, sec) in ((6, 30, 0), (23, 59, 59), (0, 0, 0)) for us in (0, 1, 250000, 999999)]
            + [{"t": "date", "v": v} for v in ([1, 1, 1], [2024, 2, 29], [9999, 12, 31])]
            + [{"t": "float", "v": x.hex()} for x in (0.1 + 0.2, 5e-324, 1.7976931348623157e308, -0.0, 1e22, 1 / 3, 2.0**53 + 2, 1e-7,
                                                        123456.78901234567, 0.1, 1.0, -1.5e300)]
            + [{"t": "int", "v": str(x)} for x in (0, 2**53 - 1, 2**53, 2**53 + 1, -2**53 - 1, -2**53 + 1, 2**63 - 1, 2**63, 2**63 + 1,
                                                     -2**63, -2**63 + 1, 2**64 - 1, 10**18 + 1)]
            + [{"t": "decimal", "v": v} for v in ("1.10", "1E+3", "-0.000", "123456789012345678901234567890.123456789", "0", "7")]
            + [{"t": "str", "v": v} for v in ("", "ann", "2024-02-29T23:59:59", "é\"\\\n")]
            + [{"t": "none"}, {"t": "bool", "v": True}, {"t": "bool", "v": False}])


def exhaustive_jsonval():
    for vd in VAL_POOL:
        for route in KEYED_ROUTES:
            yield {"kind": "jsonval", "route": route, "fields": ["v"], "cells": [vd]}
    for i in range(0, len(VAL_POOL), 5):
        chunk = VAL_POOL[i: i + 5]
        for route in KEYED_ROUTES:
            yield {"kind": "jsonval", "route": route, "fields": ["f%d" % j for j in range(len(chunk))], "cells": chunk}


def gen_valdesc(rng):
    r = rng.random()
    if r < 0.3:
        us = rng.choice([0, 1, 999999, rng.randrange(10**6), rng.randrange(1000) * 1000])
        return _dt(rng.randrange(1, 10000), rng.randrange(1, 13), rng.randrange(1, 29), rng.randrange(24), rng.randrange(60),
                   rng.randrange(60), us, tz=rng.choice([None, None, 0, rng.randrange(-14 * 60, 14 * 60 + 1)]))
    if r < 0.45:
        return {"t": "time", "v": [rng.randrange(24), rng.randrange(60), rng.randrange(60), rng.choice([0, 1, 999999, rng.randrange(10**6)])]}
    if r < 0.55:
        return {"t": "date", "v": [rng.randrange(1, 10000), rng.randrange(1, 13), rng.randrange(1, 29)]}
    if r < 0.7:
        x = rng.choice([rng.random(), rng.uniform(-1e6, 1e6), rng.random() * 10.0**rng.randrange(-300, 300), float(rng.randrange(2**53, 2**62))])
        return {"t": "float", "v": x.hex()}
    if r < 0.85:
        e = rng.choice([53, 63, 64, 31, 32])
        return {"t": "int", "v": str(max(-2**63, min(2**64 - 1, rng.choice([1, -1]) * (2**e + rng.randrange(-2, 3)))))}
    if r < 0.95:
        return {"t": "decimal", "v": "%s%d.%s" % (rng.choice(["", "-"]), rng.randrange(10**rng.randrange(1, 25)), "%0*d" % (rng.randrange(1, 12), rng.randrange(1000)))}
    return rng.choice(VAL_POOL)


def gen_jsonval_case(rng):
    route = rng.choice(KEYED_ROUTES)
    n = rng.randrange(1, 5)
    fields = rng.sample(NAMES, n) if route != "row" else [rng.choice(NAMES) for _ in range(n)]
    c = {"kind": "jsonval", "route": route, "fields": fields, "cells": [gen_valdesc(rng) for _ in range(n)]}
    if route == "row":  # a repeated name: the dictionary holds the last cell written under it
        last = {f: v for f, v in zip(fields, c["cells"])}
        c["cells"] = [last[f] for f in fields]
    return c if valid_case(c) else {"kind": "jsonval", "route": "row", "fields": ["v"], "cells": [rng.choice(VAL_POOL)]}



def gen_any(rng):
    r = rng.random()
    if r < 0.04:
        return gen_keyed_case(rng)
    if r < 0.07:
        return gen_jsonval_case(rng)
    r = rng.random()
    if r < 0.38:
        return gen_row_case(rng)
    if r < 0.55:
        return gen_frame_case(rng)
    if r < 0.68:
        return gen_append_case(rng)
    if r < 0.78:
        return gen_ctx_case(rng)
    if r < 0.86:
        return gen_bound_case(rng)
    return gen_session_case(rng)


def run(ctx):
    ctx.note("rule", "Row(dict) / DataFrame(dicts) / append(dict) cases, sessions of such operations on several live frames, "
             "and other row-class-creating features in between, all in one interpreter; on every row the views are read, read "
             "again, every changeable object handed out is changed by the caller, and all are read once more; the caller's own "
             "dictionaries are emptied after use; non-trivial = at least one field, dictionary or operation; distinct by "
             "canonical JSON")
    try:
        cases = list(exhaustive_small())
        for i in range(0, len(cases), 4000):
            evaluate(ctx, cases[i: i + 4000])
        # the same scope again after every other feature has made its row classes for exactly these field lists
        warm = [{"kind": "ctx", "what": w, "fields": list(f)} for n in range(0, 4) for f in itertools.product("abc", repeat=n)
                for w in CTX_KINDS]
        evaluate(ctx, warm)
        for i in range(0, len(cases), 4000):
            evaluate(ctx, cases[i: i + 4000])
        sess = list(exhaustive_sessions())
        evaluate(ctx, sess)
        bnd = list(exhaustive_bound())
        evaluate(ctx, bnd)
        ctx.note("exhaustive_bound", "%d sessions on one schema object: every way of reading its names (or none) x every edit of the "
                 "object x every way a dictionary meets it afterwards (free-standing row, frame made after, frame made before, frame "
                 "derived from that one)" % len(bnd))
        srcs = list(exhaustive_sources())
        evaluate(ctx, srcs)
        ctx.note("exhaustive_sources", "%d frames / sessions: each of %d ways of holding the sequence of dictionaries given to the "
                 "constructor (%s) x 1..4 dictionaries" % (len(srcs), len(SOURCES), ", ".join(SOURCES)))
        mps = list(exhaustive_mappings())
        evaluate(ctx, mps)
        ctx.note("exhaustive_mappings", "%d cases: each of %d kinds of object a record may be held in (%s) x a free-standing row "
                 "class, the constructor (list / generator / record reader / producer that edits what it handed over), append to a "
                 "frame of dictionaries, a names-only frame (also lazily backed), a schema-bound and an Arrow-derived frame, each of "
                 "those also derived by head / slice / select / query, and a session" % (len(mps), len(MAPPINGS), ", ".join(MAPPINGS)))
        szd = list(exhaustive_sized(ctx.scale(True, False)))
        evaluate(ctx, szd)
        ctx.note("exhaustive_sized", "%d appends of a record whose packed values are at / one below / one past every size threshold "
                 "of the source's record guard (stated limit %d; thresholds %r, offsets %r), on a frame of dictionaries, a names-only "
                 "frame and a schema-bound frame" % ((len(szd), DOCUMENTED_LIMIT) + sized_thresholds()))
        kyd = list(exhaustive_keyed())
        evaluate(ctx, kyd)
        ctx.note("exhaustive_keyed", "%d cases: every ordered pair of %d keys that are not (all) plain text (str-Enum members, str "
                 "subclasses with their own __str__, equal-but-not-identical texts, int / bool / None / float / date / tuple / bytes "
                 "keys, and the texts their str() gives) as the keys of the first dictionary x DataFrame(dictionaries) of four "
                 "records, the same with a record appended, Row(dict) under the keys' texts" % (len(kyd), len(KEY_POOL)))
        jvs = list(exhaustive_jsonval())
        evaluate(ctx, jvs)
        ctx.note("exhaustive_jsonval", "%d rows: each of %d values JSON has no literal for or renders at a limit (date-times / times "
                 "with 0, 1, 250000, 999999 microseconds, naive and with offsets; dates; floats needing 17 digits, subnormal, "
                 "largest, -0.0; integers at +-2**53+-1, +-2**63, 2**64-1; Decimals) x Row(dict) / DataFrame(dictionaries) / append; "
                 "the JSON text is parsed and every member read back with the value's own parser must BE the row's value"
                 % (len(jvs), len(VAL_POOL)))
        rds = list(exhaustive_reads())
        evaluate(ctx, rds)
        ctx.note("exhaustive_reads", "%d rows: every subset of the %d views read before the caller changes every changeable object "
                 "it was handed, all views read after, for 4 field lists" % (len(rds), len(VIEWS)))
        ctx.note("exhaustive_scope", "all field lists of length <= 3 over 3 names (duplicates included) x all dictionaries over "
                 "subsets of 4 keys in two insertion orders (%d cases), once in a fresh interpreter state and once after each of %d "
                 "other features created its row class for every one of those field lists; %d sessions: every (other feature, "
                 "field list) followed by every dictionary operation for every field list of length <= 2 over 2 names; then random"
                 % (len(cases), len(CTX_KINDS), len(sess)))
        cold = [gen_any(ctx.rng) for _ in range(ctx.scale(60, 600))]
        evaluate_cold(ctx, [c for c in cold if c["kind"] != "ctx"])
        n = ctx.scale(16000, 160000)
        done = 0
        while done < n and ctx.time_left() > 5:
            batch = [gen_any(ctx.rng) for _ in range(2000)]
            evaluate(ctx, batch)
            done += len(batch)
        ctx.note("isolated_interpreter_runs", ISO.calls)
    finally:
        ISO.close()


def intensify(ctx):
    try:
        for _ in range(5):
            evaluate(ctx, [gen_any(ctx.rng) for _ in range(3000)])
            if ctx.violations:
                return
    finally:
        ISO.close()


def replay(ctx, case):
    evaluate(ctx, [case])


KNOWN_PREDICATES = {"time_of_day_five_fraction_digits": known_time_rendering}
