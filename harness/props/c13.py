"""C13 — Streaming histogram conserves mass, order, bounds and mean.

A case is a program over histogram registers:

    ["new", r, cap]  ["upd", r, value, count]  ["add", a, b]  ["merge", a, b]
    ["add", a, b, form]   (the same addition written another way: form in ADD_FORMS — `a += b`, `operator.iadd`,
                           `operator.add`, `a.__add__(b)`, `sum([b], a)`, `functools.reduce(operator.add, [a, b])`;
                           the model's operation is the same "add": one clause, every spelling)
    ["bulk", r, [values...], "f8"|"i8"]  ["dl", r, s]   (s := load(**r.dump()))
    ["ld2", r, s, t]   (d := r.dump(); s := load(**d); t := load(**d) — one dump loaded twice)
    ["updl", r, value, count]   (update of the object that was the LEFT operand of the last `+`/merge on r: on the
                                 code as it is that object IS the sum, so this is `upd`; if `+` returns a new object
                                 the left operand lives on as a second histogram and is judged as one)

run in mode "f" (the code as shipped: numpy.float64 caster, values are floats) or in mode "q"
(exact arithmetic: the module's `_caster` patched to the identity, values are Fractions, the dump
dtype replaced by `object`).  Three things are compared:

* oracle: the property's clauses evaluated on the implementation's own state after every
  operation (order, capacity, mass, bounds, mean, dump/load, and equality with a Python mirror of
  the reference algorithm while no tie occurred); what is exactly open finding K01 (see `k01_detail`)
  is recorded and the run goes on, so the operations after it are still judged;
* correspondence: implementation vs. the Lean faithful machine (bit-for-bit in "f" until a dump
  turns bins into float128, exactly in "q");
* infrastructure: Lean reference machine vs. the Python mirror (implementation out of the
  picture) -> InfraError.
"""
import json
import math
import os
from fractions import Fraction

from .. import core, wire
from ..core import InfraError, shrink

TOL = 1e-9
NEAR = 1e-7  # relative to the scale of the centres: what counts as a near tie once float128 bins are involved
_GEN = None


def gen_const(key, default):
    global _GEN
    if _GEN is None:
        try:
            _GEN = json.load(open(os.path.join(core.LEAN, "OrsoVerif", "Generated", "generated.json")))
        except Exception:
            _GEN = {}
    return _GEN.get(key, default)


# --------------------------------------------------------------------------- values


def vin(mode, x):
    """Case value -> the Python value handed to the implementation."""
    if mode == "q":
        if isinstance(x, list):
            return Fraction(x[0], x[1])
        return Fraction(x)
    if isinstance(x, int) and not isinstance(x, bool):
        return x  # update(h, 5): a Python int is a legal value; the stored centre is _caster(5)
    return float(x)


def vwire(mode, x):
    """Python value (float / Fraction / numpy scalar) -> wire value."""
    if mode == "q":
        x = Fraction(x)
        return [x.numerator, x.denominator]
    return float(x)


def vexact(x):
    """Exact rational of an implementation value (float, numpy scalar, longdouble, Fraction, int)."""
    if isinstance(x, Fraction):
        return x
    if isinstance(x, int):
        return Fraction(x)
    try:
        import numpy

        if isinstance(x, numpy.longdouble) and not isinstance(x, numpy.float64):
            # 80-bit value: split so the conversion stays exact
            hi = float(x)
            lo = float(x - numpy.longdouble(hi))
            return Fraction(hi) + Fraction(lo)
        if isinstance(x, numpy.integer):
            return Fraction(int(x))
    except ImportError:
        pass
    return Fraction(float(x))


class Patched:
    """Exact mode: identity caster and an object dtype for dump()."""

    def __init__(self, mode):
        self.mode = mode

    def __enter__(self):
        from orso.profiler import distogram as D

        self.D = D
        self.saved = (D._caster, D.numpy)
        if self.mode == "q":
            import numpy

            class _NP:
                float128 = object

                def __getattr__(self, k):
                    return getattr(numpy, k)

            D._caster = lambda x: x
            D.numpy = _NP()
        return D

    def __exit__(self, *a):
        self.D._caster, self.D.numpy = self.saved


# --------------------------------------------------------------------------- mirror of the reference


class Ref:
    """Python mirror of the reference algorithm (Model/Distogram.lean stage 1)."""

    def __init__(self, cap):
        self.bins = []
        self.min = None
        self.max = None
        self.cap = cap
        self.tie = False
        # a NEAR tie (float runs only): two candidate gaps, or a value and a centre, closer than NEAR of the scale of the
        # centres.  After a dump() the implementation computes in numpy.float128 and this mirror in float64: as long as
        # no decision was that close both make the same decisions and the bins agree up to rounding.
        self.near = False

    def copy(self):
        r = Ref(self.cap)
        r.bins = list(self.bins)
        r.min, r.max, r.tie, r.near = self.min, self.max, self.tie, self.near
        return r

    def to_longdouble(self):
        """What dump() does to the histogram it dumps (and so to every copy loaded from that dump): the centres become
        numpy.float128.  Later merges of such a centre are then computed in extended precision here as in the code."""
        import numpy

        self.bins = [(numpy.longdouble(v), f) for v, f in self.bins]

    def update(self, v, c):
        b = self.bins
        if not isinstance(v, (Fraction, float, int)):
            v = float(v)  # update() inserts _caster(value): a float128 centre of another histogram arrives as its float64
        i = 0
        while i < len(b) and b[i][0] < v:
            i += 1
        thr = None
        if not isinstance(v, Fraction) and b:
            thr = NEAR * max(abs(b[0][0]), abs(b[-1][0]), abs(v))
            if (i < len(b) and 0 < b[i][0] - v <= thr) or (i > 0 and v - b[i - 1][0] <= thr):
                self.near = True  # an exact hit (or the order) could depend on the precision of the centre
        if i < len(b) and b[i][0] == v:
            b[i] = (b[i][0], b[i][1] + c)
        else:
            b.insert(i, (v, c))
        n = len(b)
        for _ in range(n):
            if len(b) <= self.cap:
                break
            gaps = [b[j + 1][0] - b[j][0] for j in range(len(b) - 1)]
            if not gaps:
                break
            m = min(gaps)
            k = gaps.index(m)
            if gaps.count(m) > 1:
                self.tie = True
            if thr is not None and sum(1 for g in gaps if g - m <= thr) > 1:
                self.near = True
            (v1, f1), (v2, f2) = b[k], b[k + 1]
            c0 = (v1 * f1 + v2 * f2) / (f1 + f2)
            b[k : k + 2] = [(min(max(c0, v1), v2), f1 + f2)]  # kept within the pair (the identity in exact arithmetic)
        self.min = v if self.min is None or v < self.min else self.min
        self.max = v if self.max is None or self.max < v else self.max


def _omin(a, b):
    if a is None:
        return b
    if b is None:
        return a
    return b if b < a else a


def _omax(a, b):
    if a is None:
        return b
    if b is None:
        return a
    return b if a < b else a


# --------------------------------------------------------------------------- ledger


class Ledger:
    """What was inserted into a register, in exact arithmetic."""

    def __init__(self, cap):
        self.weight = 0
        self.wsum = Fraction(0)
        self.lo = None
        self.hi = None
        self.scale = Fraction(0)
        self.bare = False  # went through the bare merge(): bounds only within the true range
        self.f128 = False  # a dump() turned the bins into numpy.float128
        self.loaded_with = None  # number of bins at load time
        self.cap = cap
        # open finding C13-K01, exactly as the unchanged tree behaves: a register loaded with more bins than load()'s
        # limit stays above the limit *until the first update that inserts a bin* (that update's _trim loops back to the
        # limit); exact-hit / in-place updates keep it there and make it differ from the reference (which trims at once).
        self.over_open = False  # loaded above the limit and no bin has been inserted since
        self.ref_excused = False  # a non-inserting update ran while above the limit: reference divergence is K01
        self.excuse = None  # (loaded_with, limit) of the register whose K01 episode excuses the reference clause

    def copy(self):
        l = Ledger(self.cap)
        l.__dict__.update(self.__dict__)
        return l

    def put(self, v, c):
        v = vexact(v)
        self.weight += int(c)
        self.wsum += v * int(c)
        self.see(v)

    def see(self, v):
        v = vexact(v)
        self.lo = v if self.lo is None or v < self.lo else self.lo
        self.hi = v if self.hi is None or v > self.hi else self.hi
        self.scale = max(self.scale, abs(v))

    def absorb(self, o):
        self.weight += o.weight
        self.wsum += o.wsum
        if o.lo is not None:
            self.see(o.lo)
            self.see(o.hi)
        self.scale = max(self.scale, o.scale)
        self.f128 = self.f128 or o.f128
        if o.ref_excused and not self.ref_excused:
            self.ref_excused, self.excuse = True, o.excuse
        self.bare = self.bare or o.bare


# --------------------------------------------------------------------------- open finding K01, observed on the implementation


class WatchedBins(list):
    """The bin list of a register loaded above its limit: counts `insert` / `append`, i.e. the updates that put a
    new bin into the histogram (exact-hit and in-place updates only assign to an existing position).  If a refactor
    replaces the list object the count is lost and the register simply stays 'not known to have inserted' — the
    looser reading of K01, never an alarm."""

    ins = 0

    def insert(self, i, x):
        self.ins += 1
        return list.insert(self, i, x)

    def append(self, x):
        self.ins += 1
        return list.append(self, x)


def watch(h):
    if not isinstance(h.bins, WatchedBins):
        w = WatchedBins(h.bins)
        h.bins = w
    return h.bins.ins, h.bins


def inserted_since(h, n0):
    """True / False, or None when the watched list was replaced (not observable) — also by a copy of itself: copying
    a list subclass goes through `append`, which is not an insertion by `update`."""
    n0, lst = n0
    if h.bins is not lst:
        return None
    return h.bins.ins > n0


CENTRE_OUTSIDE = "bounds: a bin centre lies outside [min, max]"


def k01_detail(kind, d):
    """Is this failure exactly what the unchanged tree does because load() forgets the configured maximum?"""
    if not isinstance(d, dict):
        return False
    lw, lim = d.get("loaded_with"), d.get("limit")
    if lw is None or lim is None or not lw > lim:
        return False
    if kind == "capacity":
        # above the limit only until the first inserting update after the load; until then the bins are the loaded ones
        return d.get("inserted_since_load") is False and d.get("bins") == lw
    if kind == "reference":
        # only after an exact-hit / in-place update ran while the register was above the limit
        return d.get("noninserting_update_above_limit") is True
    return False


# --------------------------------------------------------------------------- running a program


# element types of the arrays handed to bulkload(): numpy dtype (and the legal range of an integer kind).  Whatever the
# array holds, update() stores numpy.float64(value): the case values of an integer kind are integers float64 represents
# exactly (so the inserted value IS the stored one and every clause stays exact), those of "f4" are float32 values.
INT_KINDS = {"i8": ("int64", -2 ** 63, 2 ** 63 - 1), "i4": ("int32", -2 ** 31, 2 ** 31 - 1), "i2": ("int16", -2 ** 15, 2 ** 15 - 1),
             "u1": ("uint8", 0, 255), "u2": ("uint16", 0, 2 ** 16 - 1), "u4": ("uint32", 0, 2 ** 32 - 1)}
FLOAT_KINDS = {"f8": "float64", "f4": "float32", "f2": "float16"}


def bulk_parts(mode, values, kind, cap, factor):
    """What numpy hands to update() — numpy is a parameter of the model.
    Returns (array given to bulkload, model op tail, [(value, count)] inserted, lo, hi)."""
    import numpy

    if mode == "q":
        arr = numpy.array([vin("q", v) for v in values], dtype=object)
    elif kind in INT_KINDS:
        arr = numpy.array([int(v) for v in values], dtype=INT_KINDS[kind][0])
    else:
        arr = numpy.array([float(v) for v in values], dtype=FLOAT_KINDS[kind])
    uniq, cnts = numpy.unique(arr, return_counts=True)
    lo, hi = arr.min(), arr.max()
    if len(uniq) > cap * factor:
        if mode == "q":
            raise InfraError("exact-mode bulk load above the threshold is not generated")
        # a float16 / float32 array is binned as the float64 array of the same values (C13-F07: its edges would otherwise
        # be float16 / float32 numbers and their midpoints computed in that type)
        src = arr.astype("float64") if (arr.dtype.kind == "f" and arr.dtype.itemsize < 8) else arr
        cnts, edges = numpy.histogram(src, cap * factor, density=False)
        mids = [(edges[i] + edges[i + 1]) / 2 for i in range(len(edges) - 1)]
        ins = [(m, int(c)) for m, c in zip(mids, cnts) if c > 0]
        tail = ["bulkh", [vwire(mode, e) for e in edges], [vwire(mode, int(c)) for c in cnts], vwire(mode, lo), vwire(mode, hi)]
        return arr, tail, ins, lo, hi, "above" + (" (one past the threshold)" if len(uniq) == cap * factor + 1 else "")
    ins = [(u, int(c)) for u, c in zip(uniq, cnts)]
    tail = ["bulkp", [[vwire(mode, u), vwire(mode, int(c))] for u, c in ins], vwire(mode, lo), vwire(mode, hi)]
    return arr, tail, ins, lo, hi, "below" + (" (exactly at the threshold)" if len(uniq) == cap * factor else "")


def snap_impl(mode, h):
    bins = [[vwire(mode, v), int(f)] for v, f in h.bins]
    return bins, (None if h.min is None else vwire(mode, h.min)), (None if h.max is None else vwire(mode, h.max))


def snap_ref(mode, r):
    bins = [[vwire(mode, v), int(f)] for v, f in r.bins]
    return bins, (None if r.min is None else vwire(mode, r.min)), (None if r.max is None else vwire(mode, r.max))


def check_state(mode, h, L, op_kind, known):
    """The property's clauses on one implementation histogram. Returns (clause, detail) or None; what is exactly the
    open finding K01 is appended to `known` and the remaining clauses are still judged."""
    bins = h.bins
    # exact arithmetic where the clause is exact; in float mode order is judged on the stored numbers themselves and
    # only the two outer centres are converted (the mean is compared at a tolerance, so it is evaluated in floats)
    vals = [vexact(v) for v, _ in bins] if mode == "q" else [v for v, _ in bins]
    for i in range(len(vals) - 1):
        if not vals[i] < vals[i + 1]:
            return "order: bins are not strictly increasing", {"at": i}
    if len(bins) > h._bin_count:
        d = {"bins": len(bins), "limit": int(h._bin_count), "loaded_with": L.loaded_with,
             "inserted_since_load": None if L.loaded_with is None else (not L.over_open)}
        if L.over_open and k01_detail("capacity", d):
            known.append(("capacity: more bins than the configured maximum", d))
        else:
            return "capacity: more bins than the configured maximum", d
    if any(not (f > 0) for _, f in bins):
        return "mass: a bin has a non-positive count", None
    total = sum(int(f) for _, f in bins)
    if total != L.weight:
        return "mass: counts do not sum to the inserted weight", {"counts": total, "inserted": L.weight}
    if L.weight == 0:
        return None
    if h.min is None or h.max is None:
        return "bounds: minimum or maximum missing", None
    mn, mx = vexact(h.min), vexact(h.max)
    if L.bare:
        if not (L.lo <= mn and mx <= L.hi):
            return "bounds: merge() bounds outside the true range", {"min": float(mn), "max": float(mx), "true": [float(L.lo), float(L.hi)]}
    elif mn != L.lo or mx != L.hi:
        return "bounds: reported minimum/maximum are not those of the inserted values", {
            "min": float(mn), "max": float(mx), "true": [float(L.lo), float(L.hi)]}
    if vals:
        first, last = vexact(vals[0]), vexact(vals[-1])
        if not (mn <= first and last <= mx):
            exc = max(mn - first, last - mx, Fraction(0))
            ref = max(abs(first), abs(last), abs(mn), abs(mx))
            return CENTRE_OUTSIDE, {"min": float(mn), "max": float(mx), "first": float(first), "last": float(last),
                                    "float128_bins": bool(mode == "f" and L.f128), "relative_excess": float(exc / ref) if ref else None}
    mean_t = L.wsum / L.weight
    if mode == "q":
        mean_b = sum(v * int(f) for v, (_, f) in zip(vals, bins)) / total
        if mean_b != mean_t:
            return "mean: weighted mean of the bins differs from the true mean", {"bins": str(mean_b), "true": str(mean_t)}
    else:
        mean_b = math.fsum(float(v) * int(f) for v, f in bins) / total
        mt = float(mean_t)
        if not abs(mean_b - mt) <= TOL * max(float(L.scale), abs(mt)):
            return "mean: weighted mean of the bins differs from the true mean", {"bins": mean_b, "true": mt}
    return None


def same_bins(mode, a, b, loose=False):
    """a, b: [[wire value, int count]]."""
    if len(a) != len(b):
        return False
    for (v1, f1), (v2, f2) in zip(a, b):
        if int(f1) != int(f2):
            return False
        if not same_val(mode, v1, v2, loose):
            return False
    return True


def same_bins_abs(a, b, tol):
    """Float bins equal in counts, centres within an absolute tolerance."""
    return len(a) == len(b) and all(int(f1) == int(f2) and abs(float(v1) - float(v2)) <= tol for (v1, f1), (v2, f2) in zip(a, b))


def same_val(mode, v1, v2, loose=False):
    if v1 is None or v2 is None:
        return v1 is None and v2 is None
    if mode == "q":
        return Fraction(*v1) == Fraction(*v2) if isinstance(v1, list) else v1 == v2
    if loose:
        return abs(v1 - v2) <= TOL * max(abs(v1), abs(v2), 1e-300)
    return wire.fbits(float(v1)) == wire.fbits(float(v2))


def native_bins(h):
    """The bins as the implementation holds them (numpy scalars are immutable: a shallow copy is a snapshot)."""
    return [(v, f) for v, f in h.bins]


def native_diff(a, b):
    """First difference between two native bin lists compared at FULL precision (numpy.float128 centres are not
    rounded to float64 first), or None."""
    if len(a) != len(b):
        return {"bins": [len(a), len(b)]}
    for i, ((v1, f1), (v2, f2)) in enumerate(zip(a, b)):
        if int(f1) != int(f2):
            return {"at": i, "counts": [int(f1), int(f2)]}
        if vexact(v1) != vexact(v2):
            return {"at": i, "centres": [vshow(v1), vshow(v2)], "types": [type(v1).__name__, type(v2).__name__]}
    return None


def native_val_diff(a, b):
    if a is None or b is None:
        return None if (a is None and b is None) else [vshow(a), vshow(b)]
    return None if vexact(a) == vexact(b) else [vshow(a), vshow(b)]


def vshow(x):
    """A value at full precision, as text (for failure details)."""
    if x is None:
        return None
    q = vexact(x)
    try:
        import numpy

        if isinstance(x, numpy.floating):
            return "%s = %s/%s" % (numpy.format_float_positional(x, unique=True), q.numerator, q.denominator)
    except Exception:
        pass
    return str(q)


# Every way the unchanged tree lets a caller write "+ of independently built histograms".  All of them resolve to
# Distogram.__add__ (the class defines neither __iadd__ nor __radd__: `a += b` falls back to __add__; `sum(parts)`
# WITHOUT a start value is `0 + part` and raises TypeError on the unchanged tree, so it is not a form of the operation).
# The bare `merge(a, b)` is a different, documented operation ("merge" op, bounds within the true range only).
ADD_FORMS = ("iadd", "op.iadd", "op.add", "dunder", "sum", "reduce")


def do_add(left, right, form):
    import functools
    import operator

    if form is None:
        return left + right
    if form == "iadd":
        acc = left
        acc += right
        return acc
    if form == "op.iadd":
        return operator.iadd(left, right)
    if form == "op.add":
        return operator.add(left, right)
    if form == "dunder":
        return left.__add__(right)
    if form == "sum":
        return sum([right], left)
    if form == "reduce":
        return functools.reduce(operator.add, [left, right])
    raise InfraError("bad form of + %r" % (form,))


JSON_DIFFERS = "dumpload: the histogram loaded back from dumps() (the JSON text of dump()) differs from the dumped one"


def json_carried(x):
    """The number JSON text carries for a stored number: an integer exactly, anything else as the float64 it is (or, for
    a numpy.float128 centre that dump() made, the float64 nearest to it — JSON has no wider number; recorded as a hit)."""
    import numpy

    if isinstance(x, (int, numpy.integer)) and not isinstance(x, (bool, numpy.bool_)):
        return Fraction(int(x))
    return Fraction(float(x))


def json_route(D, h, hits):
    """The TEXT route of persistence: h.dumps() -> JSON -> load().  Called right after dump() (so dumps()' own dump()
    changes nothing any more).  Returns (clause, detail) or None."""
    import orjson

    before = (native_bins(h), h.min, h.max)
    try:
        text = h.dumps()
        d = orjson.loads(text)
        g = D.load([tuple(b) for b in d["bins"]], d["min"], d["max"])
    except Exception as e:
        return "dumpload: dumps() -> JSON -> load() raised " + type(e).__name__, {"error": type(e).__name__, "message": str(e)[:200]}
    after = (native_bins(h), h.min, h.max)
    dd = native_diff(before[0], after[0])
    if dd is None and (native_val_diff(before[1], after[1]) or native_val_diff(before[2], after[2])):
        dd = {"min": native_val_diff(before[1], after[1]), "max": native_val_diff(before[2], after[2])}
    if dd is not None:
        return "dumpload: dumps() changed the histogram it dumped", dd
    for tn in sorted(set(type(x).__name__ for x in (h.min, h.max))):
        hits.append("dl:json-route bound class = " + tn)
    if any(vexact(v) != json_carried(v) for v, _ in before[0]):
        hits.append("dl:json-route centre that float64 cannot represent (carried as the nearest float64)")
    if len(g.bins) != len(before[0]):
        return JSON_DIFFERS, {"bins": [len(before[0]), len(g.bins)], "text": text[:300].decode("ascii", "replace")}
    for i, ((v1, f1), (v2, f2)) in enumerate(zip(before[0], g.bins)):
        if isinstance(f2, bool) or json_carried(f1) != vexact(f2):
            return JSON_DIFFERS, {"at": i, "counts": [vshow(f1), vshow(f2)]}
        if isinstance(v2, bool) or json_carried(v1) != vexact(v2):
            return JSON_DIFFERS, {"at": i, "centres": [vshow(v1), vshow(v2)], "stored_as": type(v1).__name__}
    for name, x, y in (("min", before[1], g.min), ("max", before[2], g.max)):
        if y is None or isinstance(y, bool) or json_carried(x) != vexact(y):
            return JSON_DIFFERS, {name: [vshow(x), vshow(y)], "stored_as": type(x).__name__,
                                  "text": text[-120:].decode("ascii", "replace")}
    hits.append("dl:json-route judged")
    return None


class Ghost:
    """The left operand of a `+` / merge that returned a *different* object: a second live histogram.  It is either
    left unchanged by the addition or it is the sum — judged against both ledgers, must satisfy one."""

    def __init__(self, reg, obj, before, total):
        self.reg, self.obj, self.cands = reg, obj, [before, total]
        self.snap = None


class Outcome:
    def __init__(self):
        self.fail = None  # (clause, detail, step)
        self.known = []  # (clause, detail, step): failures that are exactly open finding K01; the run goes on
        self.hits = []
        self.snaps = []  # (step, reg, impl snapshot, ledger flags)
        self.model_ops = []
        self.outs = []  # per op: "ok" | ["err", class]
        self.hists = {}
        self.ledgers = {}
        self.refs = {}
        self.stopped = None
        self.ghosts = {}  # register -> Ghost (left operand object of the last `+` that returned a new object)
        self.skip_model = False  # an operation on a ghost has no counterpart in the model: oracle only


def run_impl(case, keep=False):
    """Run a program on the real code with the oracle evaluated after every operation."""
    mode = case["mode"]
    prog = case["prog"]
    every = case.get("snap_every", 1)
    factor = gen_const("distogram.bulk_factor", 5)
    out = Outcome()
    ctx_hits = out.hits
    H, L, R = out.hists, out.ledgers, out.refs
    S = {}  # register -> fingerprint of its state after the last operation that addressed it
    with Patched(mode) as D:
        for step, op in enumerate(prog):
            k = op[0]
            if k == "updl" and op[1] not in out.ghosts:
                op, k = ["upd"] + list(op[1:]), "upd"  # the left operand IS the sum (the code as it is)
                ctx_hits.append("updl:left-operand-is-the-sum")
            touched = None
            also = []  # further registers this operation addressed (dump/load: the dumped one and every target)
            err = None
            watched = None
            if k in ("upd", "add", "merge", "bulk") and op[1] in L and L[op[1]].over_open:
                watched = (op[1], watch(H[op[1]]))
            try:
                if k == "new":
                    _, r, cap = op
                    H[r] = D.Distogram(cap)
                    L[r] = Ledger(cap)
                    R[r] = Ref(cap)
                    out.model_ops.append(["new", r, cap])
                    touched = r
                elif k == "upd":
                    _, r, v, c = op
                    v = vin(mode, v)
                    out.model_ops.append(["upd", r, vwire(mode, v), vwire(mode, c)])
                    pre_len = len(H[r].bins)
                    pre_hit = any(b[0] == v for b in H[r].bins)
                    res = D.update(H[r], v, c)
                    H[r] = res
                    post_len = len(res.bins)
                    ctx_hits.append("upd:exact-hit" if pre_hit else "upd:insert" if post_len == pre_len + 1 else
                                    "upd:full(in-place or insert + 1 merge)" if post_len == pre_len else
                                    "upd:insert + %s merges" % ("2" if pre_len + 1 - post_len == 2 else ">2"))
                    L[r].put(v, c)
                    R[r].update(v if mode == "q" else float(v), c)  # a Python int is stored as numpy.float64(value), not as an int
                    touched = r
                elif k == "updl":
                    # the left operand of the last `+` on r lives on as an object of its own: update it
                    _, r, v, c = op
                    g = out.ghosts[r]
                    v = vin(mode, v)
                    out.skip_model = True
                    g.obj = D.update(g.obj, v, c)
                    for Lc in g.cands:
                        Lc.put(v, c)
                    g.snap = None
                    ctx_hits.append("updl:left-operand-is-a-second-object")
                elif k in ("add", "merge"):
                    a, b = op[1], op[2]
                    form = op[3] if len(op) > 3 else None
                    out.model_ops.append([k, a, b])
                    old, l_before = H[a], L[a].copy()
                    if k == "add":
                        res = do_add(H[a], H[b], form)
                        ctx_hits.append("add:form=" + (form or "a + b"))
                    else:
                        res = D.merge(H[a], H[b])
                    H[a] = res
                    L[a].absorb(L[b])
                    if k == "merge":
                        L[a].bare = True
                    if res is old:
                        out.ghosts.pop(a, None)
                    else:
                        out.ghosts[a] = Ghost(a, old, l_before, L[a].copy())
                        ctx_hits.append("add:returned-a-new-object(left operand judged as a second histogram)")
                    rb = R[b]
                    R[a].tie = R[a].tie or rb.tie
                    R[a].near = R[a].near or rb.near
                    for v, f in list(rb.bins):
                        R[a].update(v, f)
                    if k == "add":
                        R[a].min, R[a].max = _omin(R[a].min, rb.min), _omax(R[a].max, rb.max)
                    touched = a
                elif k == "bulk":
                    _, r, values, kind = op
                    if not values:
                        out.model_ops.append(None)
                        H[r].bulkload(__import__("numpy").array([], dtype="float64"))
                        touched = r
                    else:
                        arr, tail, ins, lo, hi, path = bulk_parts(mode, values, kind, int(H[r]._bin_count), factor)
                        out.model_ops.append([tail[0], r] + tail[1:])
                        ctx_hits.append("bulk:" + path)
                        if mode == "f":
                            ctx_hits.append("bulk:dtype=%s%s%s" % (arr.dtype, " into-empty" if not H[r].bins else " into-used",
                                                                   " distinct<=limit" if len(ins) <= int(H[r]._bin_count) else ""))
                            big = max(abs(float(lo)), abs(float(hi)))
                            if arr.dtype.kind in "iu" and big * max(c for _, c in ins) >= 2.0 ** 63:
                                ctx_hits.append("bulk:integer array with |value| * count >= 2**63")
                            if arr.dtype == "float32" and big * max(c for _, c in ins) > 3.4e38:
                                ctx_hits.append("bulk:float32 array with |value| * count beyond the float32 range")
                        H[r].bulkload(arr)
                        if mode == "f":
                            # observation only (the statement speaks of the bins' values, not of their Python class): what the
                            # histogram holds after the load — numpy.float64 on the code as it is (float128 after a dump())
                            for tn in sorted(set(type(v).__name__ for v, _ in H[r].bins)):
                                ctx_hits.append("bulk:stored centre class after the load = " + tn)
                        for v, c in ins:
                            L[r].put(v, c)
                            R[r].update(v if mode == "q" else float(v), c)
                        L[r].see(lo)
                        L[r].see(hi)
                        lo2 = lo if mode == "q" else float(lo)
                        hi2 = hi if mode == "q" else float(hi)
                        R[r].min, R[r].max = _omin(R[r].min, lo2), _omax(R[r].max, hi2)
                        touched = r
                elif k in ("dl", "ld2"):
                    r, targets = op[1], op[2:]
                    for s in targets:
                        out.model_ops.append(["dl", r, s])
                    before = snap_impl(mode, H[r]) if H[r].bins else None
                    nat0 = (native_bins(H[r]), H[r].min, H[r].max)  # the histogram as it is, at its own precision
                    d = H[r].dump()
                    handed = ([(v, f) for v, f in d["bins"]], d["min"], d["max"])  # what dump() hands out
                    loaded = [D.load(d["bins"], d["min"], d["max"]) for _ in targets]  # one dump, one or two loads
                    if mode == "f":
                        L[r].f128 = True
                        R[r].to_longdouble()
                    if any(type(v).__name__ in ("longdouble", "float128") for v, _ in nat0[0]):
                        ctx_hits.append("dl:of-a-histogram-already-holding-float128-bins")
                        if any(float(v) != v for v, _ in nat0[0]):
                            ctx_hits.append("dl:with-a-centre-float64-cannot-represent")
                    # dump/load preserves bins and bounds — compared at the FULL precision of what dump() hands out (a later
                    # dump of a histogram whose bins an earlier dump() turned into numpy.float128 carries centres that are
                    # not float64 values; float() of both sides would hide a load() that rounds them)
                    nat = [("dump() changed the histogram it dumped", nat0, (native_bins(H[r]), H[r].min, H[r].max)),
                           ("dump() hands out bins/bounds that are not the histogram's", nat0, handed)]
                    nat += [("the loaded histogram differs from the dump it was loaded from", handed, (native_bins(h2), h2.min, h2.max))
                            for h2 in loaded]
                    for what, x, y in nat:
                        dd = native_diff(x[0], y[0])
                        if dd is None:
                            bd = [native_val_diff(x[1], y[1]), native_val_diff(x[2], y[2])]
                            dd = {"min": bd[0], "max": bd[1]} if any(bd) else None
                        if dd is not None and out.fail is None:
                            dd["compared"] = "at full precision"
                            out.fail = ("dumpload: " + what, dd, step)
                    if mode == "f" and out.fail is None:
                        # the text route: dumps() -> JSON -> load() must give the same bins and bounds back
                        jb = json_route(D, H[r], ctx_hits)
                        if jb is not None:
                            out.fail = (jb[0], jb[1], step)
                    got_all = [("dumped histogram changed by dump()", snap_impl(mode, H[r]))]
                    for s, h2 in zip(targets, loaded):
                        H[s] = h2
                        L[s] = L[r].copy()
                        L[s].cap = int(h2._bin_count)
                        L[s].loaded_with = len(h2.bins)
                        L[s].over_open = len(h2.bins) > int(h2._bin_count)
                        R[s] = R[r].copy()
                        R[s].cap = int(h2._bin_count)
                        got_all.append(("loaded histogram differs from the dumped one", snap_impl(mode, h2)))
                    # dump/load preserves bins and bounds (of the dumped histogram, and the dump does not change it)
                    for what, got in got_all:
                        if out.fail is None and not (same_bins(mode, before[0], got[0]) and same_val(mode, before[1], got[1]) and same_val(mode, before[2], got[2])):
                            out.fail = ("dumpload: " + what, {"before": before, "after": got}, step)
                    for _ in targets[1:]:
                        out.outs.append("ok")  # one implementation step, two model steps
                    touched = targets[-1]
                    also = [r] + list(targets[:-1])
                else:
                    raise InfraError("bad op %r" % (op,))
            except InfraError:
                raise
            except Exception as e:
                err = type(e).__name__
            if err is not None:
                out.outs.append(["err", err])
                # update(count < 1) and dump() of an empty histogram raise ValueError by construction
                expected = err == "ValueError" and ((k == "upd" and not (op[3] >= 1)) or (k in ("dl", "ld2") and not H[op[1]].bins))
                if not expected and out.fail is None:
                    out.fail = ("raised: %s raised %s" % (k, err), {"op": k, "error": err,
                                "empty_operand": bool(k == "add" and not H[op[2]].bins),
                                "empty_dump": bool(k in ("dl", "ld2") and not H[op[1]].bins)}, step)
                out.stopped = step
                break
            out.outs.append("ok")
            if watched is not None:
                ins = inserted_since(H[watched[0]], watched[1])
                Lw = L[watched[0]]
                if ins is True:
                    Lw.over_open = False  # that update's _trim loops back to the limit on the unchanged tree
                    ctx_hits.append("k01:inserting-op-after-over-limit-load")
                else:
                    ctx_hits.append("k01:non-inserting-op-above-limit" if ins is False else "k01:insertion-not-observable")
                if ins is not True or k != "upd":
                    Lw.ref_excused = True  # an exact-hit / in-place update (may have) run above the limit
                    Lw.excuse = (Lw.loaded_with, Lw.cap)
            if out.fail is None and touched is not None:
                known = []
                bad = check_state(mode, H[touched], L[touched], k, known)
                out.known.extend((cl, d, step) for cl, d in known)
                if bad is None and not R[touched].tie:
                    # reference clause: unique closest pair at every step so far
                    ib = snap_impl(mode, H[touched])[0]
                    rb = snap_ref(mode, R[touched])[0]
                    if L[touched].f128:
                        # after a dump() the implementation's bins are numpy.float128 and this mirror computes in float64:
                        # the reference clause is judged up to rounding (1e-9 of the data's scale), unless some decision
                        # of the history was a near tie (then a different merge is legitimate)
                        agree = same_bins_abs(ib, rb, TOL * float(L[touched].scale))
                        if R[touched].near:
                            ctx_hits.append("reference:after-dump(float128) near tie in the history - not judged")
                            if not agree:
                                out.f128_divergence = True
                        else:
                            ctx_hits.append("reference:after-dump(float128) judged up to rounding")
                    else:
                        agree = same_bins(mode, ib, rb)
                    if not agree and not (L[touched].f128 and R[touched].near):
                        ex = L[touched].excuse or (L[touched].loaded_with, int(H[touched]._bin_count))
                        d = {"impl": ib, "reference": rb, "loaded_with": ex[0], "limit": ex[1],
                             "noninserting_update_above_limit": L[touched].ref_excused}
                        cl = "reference: bins differ from the reference algorithm although no tie occurred"
                        if L[touched].ref_excused and k01_detail("reference", d):
                            out.known.append((cl, d, step))
                        else:
                            bad = (cl, d)
                if bad is None and mode == "q" and L[touched].ref_excused and not L[touched].over_open:
                    # back within the limit after a K01 episode: the reference clause is judged again from this state on
                    hh = H[touched]
                    R[touched].bins = [(v, int(f)) for v, f in hh.bins]
                    R[touched].min, R[touched].max, R[touched].tie = hh.min, hh.max, False
                    L[touched].ref_excused, L[touched].excuse = False, None
                    out.model_ops.append(["rsync", touched])
                    ctx_hits.append("k01:reference-rebased-after-episode")
                if bad is not None:
                    out.fail = (bad[0], bad[1], step)
            if out.fail is None:
                # the other histograms this operation addressed (the dumped one, the first of two loaded copies) ...
                known = []
                for t in also:
                    bad = check_state(mode, H[t], L[t], k, known)
                    if bad is not None and out.fail is None:
                        out.fail = (bad[0], dict(bad[1] or {}, register=t), step)
                out.known.extend((cl, d, step) for cl, d in known)
            if out.fail is None:
                # ... and every histogram it did NOT address: still the histogram its own history made it
                bad = bystanders(mode, out, S, set([touched] + also), k, ctx_hits)
                if bad is not None:
                    out.fail = (bad[0], bad[1], step)
            if out.fail is not None:
                out.stopped = step
                break
            if touched is not None and (step % every == every - 1 or step == len(prog) - 1):
                out.model_ops.append(["snap", touched])
                out.snaps.append((step, touched, snap_impl(mode, H[touched]), snap_ref(mode, R[touched]),
                                  R[touched].tie, L[touched].f128))
    return out


def fingerprint(h):
    return (list(h.bins), h.min, h.max)


def same_fp(h, fp):
    def eq(a, b):
        return (a is None and b is None) or (a is not None and b is not None and bool(a == b))

    return fp is not None and bool(h.bins == fp[0]) and eq(h.min, fp[1]) and eq(h.max, fp[2])


def bystanders(mode, out, S, addressed, k, hits):
    """Operand reuse: after an operation, every histogram it did not address must still be what its own history made it
    (`a + b` must leave b alone; a loaded copy must not move when its source is updated; ...), and a left operand that
    `+` did not return must be the unchanged operand or the sum.  Only histograms whose state moved are re-judged, with
    the property's own clauses."""
    for r, h in out.hists.items():
        if r in addressed or r not in S:
            S[r] = fingerprint(h)
            continue
        if same_fp(h, S[r]):
            continue
        bad = check_state(mode, h, out.ledgers[r], "bystander", [])
        S[r] = fingerprint(h)
        if bad is not None:
            return bad[0], dict(bad[1] or {}, register=r, note="this histogram changed although the operation (%s) did not address it" % k)
        hits.append("bystander:changed-but-every-clause-holds")
    for g in out.ghosts.values():
        if g.snap is not None and same_fp(g.obj, g.snap):
            continue
        res = [check_state(mode, g.obj, Lc, "left-operand", []) for Lc in g.cands]
        g.snap = fingerprint(g.obj)
        hits.append("left-operand-object:judged")
        if all(x is not None for x in res):
            return res[1][0], {"object": "left operand of the `+`/merge on register %s; the operation returned a different object, so this one "
                               "must be either the unchanged operand or the sum — it is neither" % g.reg,
                               "as_unchanged_operand": res[0][0], "as_sum": res[1][0], "detail": res[1][1],
                               "bins": [[vshow(v), int(f)] for v, f in g.obj.bins], "min": vshow(g.obj.min), "max": vshow(g.obj.max)}
    return None


def model_line(mode, model_ops):
    return "C13 run " + wire.line(mode, [op for op in model_ops if op is not None])


def dec_snap(mode, s):
    """Model snapshot -> (fbins, fmin, fmax, rbins, rmin, rmax, tie)."""
    def bins(bs):
        out = []
        for v, f in bs:
            if mode == "q":
                fr = Fraction(f[0], f[1])
                if fr.denominator != 1:
                    raise InfraError("model count is not integral: %r" % (f,))
                out.append([v, int(fr)])
            else:
                out.append([v, int(f)])
        return out

    return bins(s[1]), s[2], s[3], bins(s[4]), s[5], s[6], s[7]


def compare_with_model(ctx, case, out, mline_out):
    """Correspondence + infrastructure comparison for one case. Returns a disagreement or None."""
    mode = case["mode"]
    if out.skip_model:
        ctx.hit("model-correspondence-skipped(operation on a left operand that `+` did not return)")
        return None
    if not mline_out.startswith("ok "):
        raise InfraError("model rejected case: %r -> %r" % (json.dumps(core._jsonable(case))[:400], mline_out))
    mouts = wire.dec_all(mline_out[3:])[0]
    ops = [op for op in out.model_ops if op is not None]
    if len(mouts) != len(ops):
        raise InfraError("model returned %d outputs for %d ops" % (len(mouts), len(ops)))
    snaps = iter(out.snaps)
    impl_outs = iter(out.outs)
    for op, mo in zip(ops, mouts):
        if op[0] == "snap":
            step, reg, isnap, rsnap, rtie, f128 = next(snaps)
            fb, fmin, fmax, rb, rmin, rmax, tie = dec_snap(mode, mo)
            if f128:
                # float mode after a dump(): the implementation's bins are numpy.float128 and so are the mirror's (it follows the
                # conversion so that exact hits and merges are decided on the same numbers); neither is the float64 machine
                ctx.hit("snap:after-dump(float128)")
                continue
            # infrastructure: Lean reference vs. Python mirror (implementation not involved)
            if not (same_bins(mode, rb, rsnap[0]) and same_val(mode, rmin, rsnap[1]) and same_val(mode, rmax, rsnap[2]) and tie == rtie):
                # The Lean reference is assembled from arithmetic regenerated from the source, the mirror is fixed text:
                # they differ when the source's formula changed.  That is an infrastructure error only if the oracle is
                # silent on the whole run (decided in `settle_mirror`); with a failing input it is a consequence.
                if not hasattr(ctx, "mirror_mismatch"):
                    ctx.mirror_mismatch = "Lean reference and its Python mirror differ at step %d of %s: %s vs %s" % (
                        step, json.dumps(core._jsonable(case))[:300], repr((rb, rmin, rmax, tie))[:400], repr((rsnap, rtie))[:400])
                ctx.hit("lean-reference != python-mirror")
                continue
            if not (same_bins(mode, fb, isnap[0]) and same_val(mode, fmin, isnap[1]) and same_val(mode, fmax, isnap[2])):
                return {"step": step, "impl": isnap, "model": [fb, fmin, fmax]}
        elif op[0] == "rsync":
            if mo != ["ok"]:
                raise InfraError("model rejected rsync: %r" % (mo,))
        else:
            io = next(impl_outs, None)
            m = "ok" if mo == ["ok"] else mo
            if io is None:
                continue
            if (io == "ok") != (m == "ok") or (io != "ok" and io[1] != m[1]):
                return {"op": op[0], "impl": io, "model": m}
    return None


# --------------------------------------------------------------------------- validity / shrinking


def valid_case(c):
    if not isinstance(c, dict) or c.get("mode") not in ("f", "q") or not isinstance(c.get("prog"), list) or not c["prog"]:
        return False
    regs = {}
    for op in c["prog"]:
        if not isinstance(op, list) or not op:
            return False
        k = op[0]
        if k == "new":
            if len(op) != 3 or not isinstance(op[2], int) or not 2 <= op[2] <= 64 or not isinstance(op[1], int) or op[1] in regs:
                return False
            regs[op[1]] = True
        elif k in ("upd", "updl"):
            if len(op) != 4 or op[1] not in regs or not isinstance(op[3], int) or op[3] < 1 or not _valid_val(c["mode"], op[2]):
                return False
        elif k in ("add", "merge"):
            if len(op) not in ((3, 4) if k == "add" else (3,)) or op[1] not in regs or op[2] not in regs or op[1] == op[2]:
                return False
            if len(op) == 4 and op[3] not in ADD_FORMS:
                return False
        elif k == "bulk":
            if len(op) != 4 or op[1] not in regs or not isinstance(op[2], list) or not (op[3] in INT_KINDS or op[3] in FLOAT_KINDS):
                return False
            if not all(_valid_val(c["mode"], v) for v in op[2]):
                return False
            if c["mode"] == "f" and op[3] in INT_KINDS:
                # within the element type's range and exactly a float64 (the value update() stores is the value inserted)
                _, lo_k, hi_k = INT_KINDS[op[3]]
                if not all(v == int(v) and lo_k <= int(v) <= hi_k and float(int(v)) == int(v) for v in op[2]):
                    return False
            if c["mode"] == "f" and op[3] in ("f4", "f2") and not all(abs(float(v)) < (3.4e38 if op[3] == "f4" else 65520.0) for v in op[2]):
                return False
            if c["mode"] == "q" and len(set(map(repr, op[2]))) > 2 * 5:
                return False
        elif k == "dl":
            if len(op) != 3 or op[1] not in regs or not isinstance(op[2], int) or op[2] in regs:
                return False
            regs[op[2]] = True
        elif k == "ld2":
            if len(op) != 4 or op[1] not in regs or not all(isinstance(x, int) for x in op[2:]) or op[2] == op[3] or op[2] in regs or op[3] in regs:
                return False
            regs[op[2]] = regs[op[3]] = True
        else:
            return False
    return True


def _valid_val(mode, v):
    if mode == "q":
        if isinstance(v, int) and not isinstance(v, bool):
            return True
        return isinstance(v, list) and len(v) == 2 and all(isinstance(x, int) and not isinstance(x, bool) for x in v) and v[1] > 0
    if isinstance(v, int) and not isinstance(v, bool):
        # update(h, 10**18): legal; the inserted value is the float64 that is stored only if float64 represents the integer
        return abs(v) < 2 ** 1000 and float(v) == v
    return isinstance(v, float) and math.isfinite(v)


def _kind(clause):
    return clause.split(":")[0]


def evaluate(ctx, cases):
    outs = []
    lines = []
    for c in cases:
        o = run_impl(c)
        outs.append(o)
        lines.append(model_line(c["mode"], o.model_ops))
    mouts = ctx.model.batch(lines)
    for c, o, mo in zip(cases, outs, mouts):
        n_upd = sum(1 for op in c["prog"] if op[0] in ("upd", "updl", "bulk"))
        ctx.case(c, nontrivial=n_upd >= 2)
        record(ctx, c, o)
        seen_kinds = set()
        for clause, detail, step in o.known:
            if clause in seen_kinds:
                continue
            seen_kinds.add(clause)
            ck = dict(c)
            ck["prog"] = c["prog"][: step + 1]
            ctx.fail(ck, clause, impl=None, model=None, detail=detail)
        if o.fail is not None:
            clause, detail, step = o.fail
            kind = _kind(clause)

            def still(c2):
                if not valid_case(c2):
                    return False
                try:
                    o2 = run_impl(c2)
                except InfraError:
                    return False
                return o2.fail is not None and _kind(o2.fail[0]) == kind

            c_min = c
            failure0 = {"clause": clause, "impl": None, "model": None, "detail": detail}
            known = any(k.get("status") == "open" and core.match_known(ctx.prop_id, k, c, failure0) for k in ctx.known)
            if not ctx.replaying and not known:
                c_min = dict(c)
                c_min["prog"] = c["prog"][: step + 1]
                c_min["snap_every"] = 1
                if not still(c_min):
                    c_min = c
                c_min = shrink(c_min, still, budget=ctx.scale(250, 600))
            o2 = run_impl(c_min)
            f = o2.fail or o.fail
            ctx.fail(c_min, f[0], impl={"step": f[2], "state": {r: snap_impl(c_min["mode"], h) for r, h in o2.hists.items()}},
                     model=None, detail=f[1])
            continue
        dis = compare_with_model(ctx, c, o, mo)
        if dis is not None:
            ctx.disagree(c, dis.get("impl"), dis.get("model"), what="faithful machine and implementation differ: %s" % (
                "step %s" % dis["step"] if "step" in dis else "op " + dis["op"]))


def record(ctx, c, o):
    ctx.hit("mode:" + c["mode"])
    for op in c["prog"]:
        ctx.hit("op:" + op[0])
        if op[0] == "new":
            ctx.hit("cap:%s" % ("2-4" if op[2] <= 4 else "5-16" if op[2] <= 16 else "17-50" if op[2] <= 50 else "51-64"))
    if getattr(o, "f128_divergence", False):
        ctx.hit("after-dump float128 bins beyond tolerance of float64 reference (not compared)")
    if any(r.tie for r in o.refs.values()):
        ctx.hit("history-with-tie")
    else:
        ctx.hit("history-without-tie")
    ctx.hit("family:" + c.get("family", "?"))
    for h_ in o.hits:
        ctx.hit(h_)


# --------------------------------------------------------------------------- generators

FAMILIES = ["dense", "sparse", "repeated", "negative", "integral", "wide", "grid", "zero-edge", "zero-edge"]


ZERO_EDGE = [0, 0, 0, 0.5, 1, 2, 3, 10, 11, 20, 35, 50]


def gen_value(rng, fam):
    if fam == "zero-edge+":  # zero is the minimum
        return rng.choice([0.0, 0.0, -0.0] + [float(v) for v in ZERO_EDGE[3:]])
    if fam == "zero-edge-":  # zero is the maximum
        return rng.choice([0.0, -0.0, -0.0] + [-float(v) for v in ZERO_EDGE[3:]])
    if fam == "dense":
        return rng.uniform(0, 100)
    if fam == "sparse":
        return rng.choice([1.0, 10.0, 1000.0, 1e6]) * rng.randint(1, 9) + rng.choice([0.0, 0.5, 0.25])
    if fam == "repeated":
        return float(rng.choice([3, 7, 7, 7, 11, 20, 21, 22, 50]))
    if fam == "negative":
        return rng.uniform(-50, 50) if rng.random() < 0.7 else -float(rng.randint(0, 20))
    if fam == "integral":
        return float(rng.randint(-200, 200)) if rng.random() < 0.7 else rng.randint(-200, 200)  # sometimes a Python int
    if fam == "wide":
        return rng.choice([-1, 1, 1]) * 10 ** rng.uniform(-9, 12)
    return round(rng.uniform(-5, 5), 1)


def gen_qvalue(rng, fam):
    if fam in ("zero-edge+", "zero-edge-"):
        v = rng.choice(ZERO_EDGE)
        v = [int(v * 4), 4] if v != int(v) else int(v)
        if fam == "zero-edge-":
            v = [-v[0], v[1]] if isinstance(v, list) else -v
        return v
    if fam in ("dense", "grid"):
        return [rng.randint(-500, 500), rng.choice([1, 2, 3, 4, 5, 7, 10])]
    if fam == "sparse":
        return rng.choice([1, 10, 1000, 10**6]) * rng.randint(1, 9)
    if fam == "repeated":
        return rng.choice([3, 7, 7, 7, 11, 20, 21, 22, 50])
    if fam == "negative":
        return [rng.randint(-400, 100), rng.choice([1, 3, 8])]
    if fam == "integral":
        return rng.randint(-200, 200)
    return [rng.choice([-1, 1, 1]) * rng.randint(1, 999), 10 ** rng.randint(0, 9)] if rng.random() < 0.5 else rng.randint(1, 999) * 10 ** rng.randint(0, 12)


def gen_count(rng):
    r = rng.random()
    if r < 0.7:
        return 1
    if r < 0.93:
        return rng.randint(2, 6)
    return rng.randint(7, 1000)


def gen_cap(rng):
    r = rng.random()
    if r < 0.45:
        return rng.randint(2, 6)
    if r < 0.8:
        return rng.randint(7, 20)
    return rng.randint(21, 64)


def random_case(ctx, mode=None, size=None, want=None):
    rng = ctx.rng
    mode = mode or ("f" if rng.random() < 0.6 else "q")
    fam = rng.choice(FAMILIES)
    if fam == "zero-edge":
        fam = rng.choice(["zero-edge+", "zero-edge-"])
    gv = (lambda: gen_value(rng, fam)) if mode == "f" else (lambda: gen_qvalue(rng, fam))
    cap = gen_cap(rng)
    n = size if size is not None else rng.choice([3, 8, 20, 40, 80, 160])
    if mode == "q":
        n = min(n, 60)
    prog = [["new", 0, cap]]
    regs = {0: cap}
    nxt = 1
    want = want or rng.choice(["upd", "upd", "add", "bulk", "dl", "mix", "merge"])
    for i in range(n):
        r = rng.random()
        tgt = rng.choice(list(regs))
        if want in ("add", "mix", "merge") and r < 0.06 and len(prog) > 3:
            # an independently built histogram, then + (or the bare merge)
            b = nxt
            nxt += 1
            capb = gen_cap(rng)
            prog.append(["new", b, capb])
            for _ in range(rng.randint(0 if rng.random() < 0.1 else 1, 25)):
                prog.append(["upd", b, gv(), gen_count(rng)])
            if rng.random() < 0.3:
                prog.append(["bulk", b, [gv() for _ in range(rng.randint(1, min(30, capb * 5) if mode == "q" else 30))], "f8"])
            prog.append(["merge" if (want == "merge" or (want == "mix" and rng.random() < 0.3)) else "add", tgt, b])
            if rng.random() < 0.3:
                prog.append(["updl", tgt, gv(), gen_count(rng)])
        elif want in ("bulk", "mix") and r < 0.08:
            capt = regs[tgt]
            if mode == "q":
                pool = [gv() for _ in range(rng.randint(1, min(10, capt * 5)))]
                vals = [rng.choice(pool) for _ in range(rng.randint(1, 40))]
                kind = "f8"
            else:
                above = rng.random() < 0.5
                kind = "i8" if fam in ("integral", "repeated") and rng.random() < 0.5 else "f8"
                if above:
                    m = capt * 5 + rng.randint(1, 40)
                    vals = [gv() for _ in range(m + rng.randint(0, 50))]
                    if kind == "i8" or fam in ("repeated", "integral", "grid", "sparse"):
                        base = rng.randint(-300, 300)
                        vals = [float(base + j) for j in range(m)] + [float(base + rng.randint(0, m)) for _ in range(rng.randint(0, 30))]
                        rng.shuffle(vals)
                else:
                    vals = [gv() for _ in range(rng.randint(1, min(60, capt * 5)))]
                if kind == "i8":
                    vals = [float(int(v)) for v in vals]
            prog.append(["bulk", tgt, vals, kind])
        elif want in ("dl", "mix") and r < 0.05 and len(prog) > 2:
            s = nxt
            nxt += 1
            prog.append(["dl", tgt, s])
            regs[s] = 50
        else:
            prog.append(["upd", tgt, gv(), gen_count(rng)])
    c = {"mode": mode, "prog": prog, "family": fam}
    c["snap_every"] = 1 if len(prog) <= 30 else rng.choice([5, 11, 17])
    return c


def dl_heavy_case(ctx, mode=None):
    """Dump/load of a histogram that is (nearly) full for the loaded limit, then updates on both
    copies: the loaded cache of adjacent differences decides which bins merge next."""
    rng = ctx.rng
    mode = mode or ("f" if rng.random() < 0.5 else "q")
    fam = rng.choice(["dense", "negative", "integral", "wide", "grid", "sparse"])
    gv = (lambda: gen_value(rng, fam)) if mode == "f" else (lambda: gen_qvalue(rng, fam))
    default = gen_const("distogram.default_bin_count", 50)
    cap = rng.choice([default, default, rng.randint(max(2, default - 10), default), rng.randint(2, 64)])
    n0 = rng.randint(max(1, min(cap, default) - 6), min(cap, default) + rng.choice([0, 0, 5, 20]))
    prog = [["new", 0, cap]]
    for _ in range(n0):
        prog.append(["upd", 0, gv(), gen_count(rng)])
    prog.append(["dl", 0, 1])
    for _ in range(rng.randint(3, 25)):
        prog.append(["upd", rng.choice([1, 1, 1, 0]), gv(), gen_count(rng)])
    if rng.random() < 0.3:
        prog.append(["dl", 1, 2])
        for _ in range(rng.randint(1, 10)):
            prog.append(["upd", 2, gv(), gen_count(rng)])
    return {"mode": mode, "prog": prog, "family": "dl-heavy:" + fam, "snap_every": 7}


def over_limit_load_case(ctx, mode=None):
    """load() of a histogram that holds more bins than load()'s limit (configured maximum 51..64, more than the default
    limit of bins when dumped; also exactly at / one past the limit), then updates that hit a centre exactly, fall next
    to one (in place), or insert a new bin (new minimum / maximum / far inside a gap), `+`, bulk loads and a second
    dump/load: the loaded histogram is above its limit (open finding K01) exactly until the first inserting update,
    whose _trim must loop back to the limit — a second use of `_trim` with more than one bin to remove."""
    rng = ctx.rng
    mode = mode or ("f" if rng.random() < 0.5 else "q")
    default = gen_const("distogram.default_bin_count", 50)
    cap = rng.choice([default + 1, default + 2, 64, rng.randint(default + 1, 64), rng.randint(default + 1, 64)])
    nb = rng.choice([default, default + 1, default + 2, cap, cap, rng.randint(default, cap)])  # bins when dumped
    nb = min(nb, cap)
    shape = rng.choice(["quadratic", "random", "steps"])
    if shape == "quadratic":
        a, b = rng.randint(1, 5), rng.randint(0, 9)
        pts = [a * i * i + b * i + rng.choice([0, 0, 1]) for i in range(nb)]
    elif shape == "random":
        pts = rng.sample(range(-4000, 4000), nb)
    else:
        x, pts = rng.randint(-50, 50), []
        for i in range(nb):
            pts.append(x)
            x += rng.choice([2, 3, 5, 8, 13, 21, 34]) + i % 3
    pts = sorted(set(pts))
    scale = 1 if mode == "q" else rng.choice([1.0, 0.5, 0.125, 3.0])

    def val(x, frac=None):
        if mode == "q":
            return [int(x * frac[1] + frac[0]), frac[1]] if frac else int(x)
        return float(x) * scale + (float(frac[0]) / frac[1] * scale if frac else 0.0)

    order = list(pts)
    rng.shuffle(order)
    prog = [["new", 0, cap]]
    for x in order:
        prog.append(["upd", 0, val(x), gen_count(rng) if rng.random() < 0.3 else 1])
    extra = rng.choice([0, 0, 0, 1, 3])  # sometimes the source was already trimming at its own limit
    for _ in range(extra if len(pts) >= cap else 0):
        prog.append(["upd", 0, val(rng.choice(pts), (1, 2)), 1])
    prog.append(["dl", 0, 1])
    lo, hi = pts[0], pts[-1]
    reg, nxt = 1, 2
    for _ in range(rng.randint(1, 9)):
        r = rng.random()
        if r < 0.25:  # exact hit (the centre is still there unless the source trimmed)
            prog.append(["upd", reg, val(rng.choice(pts)), gen_count(rng)])
        elif r < 0.45:  # next to a centre, closer than any pair: in place
            prog.append(["upd", reg, val(rng.choice(pts[1:-1] or pts), (rng.choice([1, -1]), rng.choice([4, 8, 64]))), gen_count(rng)])
        elif r < 0.8:  # a new bin: new minimum / maximum / inside the widest gap
            how = rng.random()
            if how < 0.3:
                lo -= rng.randint(1, 500)
                prog.append(["upd", reg, val(lo), gen_count(rng)])
            elif how < 0.6:
                hi += rng.randint(1, 500)
                prog.append(["upd", reg, val(hi), gen_count(rng)])
            else:
                g, i = max((pts[i + 1] - pts[i], i) for i in range(len(pts) - 1))
                prog.append(["upd", reg, val(pts[i], (g * rng.choice([3, 4, 5]), 8)), gen_count(rng)])
        elif r < 0.87:
            b = nxt
            nxt += 1
            prog.append(["new", b, rng.choice([3, 8, default, 64])])
            for _ in range(rng.randint(0, 4)):
                prog.append(["upd", b, val(rng.choice(pts) if rng.random() < 0.5 else rng.randint(lo - 50, hi + 50)), gen_count(rng)])
            if rng.random() < 0.6:
                prog.append(["add", reg, b])
            else:
                prog.append(["add", b, reg])
                reg = b if rng.random() < 0.5 else reg
        elif r < 0.93:
            prog.append(["bulk", reg, [val(rng.choice(pts) if rng.random() < 0.5 else rng.randint(lo - 50, hi + 50)) for _ in range(rng.randint(1, 6))], "f8"])
        else:
            prog.append(["dl", reg, nxt])
            reg, nxt = nxt, nxt + 1
    return {"mode": mode, "prog": prog, "family": "over-limit-load", "snap_every": 5}


def reuse_case(ctx, mode=None):
    """One object used again after it was used: the same right operand added to two targets and updated in between,
    one dump loaded twice (two histograms from one list), a histogram dumped twice, the source updated after its copy
    was loaded, a sum added again."""
    rng = ctx.rng
    mode = mode or ("f" if rng.random() < 0.5 else "q")
    fam = rng.choice(["dense", "negative", "integral", "grid", "sparse", "repeated"])
    gv = (lambda: gen_value(rng, fam)) if mode == "f" else (lambda: gen_qvalue(rng, fam))
    prog, regs = [], []

    def fresh(n_upd):
        r = len(regs)
        regs.append(r)
        prog.append(["new", r, gen_cap(rng) if rng.random() < 0.7 else rng.randint(2, 4)])
        for _ in range(n_upd):
            prog.append(["upd", r, gv(), gen_count(rng)])
        return r

    a, b = fresh(rng.randint(1, 12)), fresh(rng.randint(1, 12))
    for _ in range(rng.randint(3, 9)):
        r = rng.random()
        x, y = rng.sample(regs, 2)
        if r < 0.3:
            prog.append([rng.choice(["add", "add", "merge"]), x, y])
            # the operands are used again: the left operand object, the right operand, the sum
            for _ in range(rng.randint(0, 3)):
                prog.append([rng.choice(["updl", "upd", "upd"]), rng.choice([x, x, y]), gv(), gen_count(rng)])
        elif r < 0.5:
            s, t = len(regs), len(regs) + 1
            regs.extend([s, t])
            prog.append(["ld2", x, s, t])
            for _ in range(rng.randint(1, 4)):
                prog.append(["upd", rng.choice([s, t, x]), gv(), gen_count(rng)])
        elif r < 0.6:
            s, t = len(regs), len(regs) + 1
            regs.extend([s, t])
            prog.append(["dl", x, s])
            prog.append(["upd", rng.choice([x, s]), gv(), 1])
            prog.append(["dl", x, t])
        elif r < 0.7:
            fresh(rng.randint(0, 6))
        else:
            prog.append(["upd", x, gv(), gen_count(rng)])
    return {"mode": mode, "prog": prog, "family": "reuse:" + fam, "snap_every": 1 if len(prog) <= 30 else 5}


def checkpoint_case(ctx, mode=None):
    """A running histogram that is checkpointed again and again: dump + load at (nearly) every point of its history,
    the stream going on in the original (whose bins the first dump() turned into numpy.float128, so every later merge
    yields centres float64 cannot represent) and/or in the restored copy, restored copies dumped again.  Small limits so
    that almost every value merges; values either ordinary or a cluster of neighbouring doubles (merged centres then
    differ by less than one float64 spacing: a load() that rounds makes them equal)."""
    rng = ctx.rng
    mode = mode or ("f" if rng.random() < 0.8 else "q")
    cap = rng.choice([2, 2, 3, 3, 4, 6, 10])
    style = rng.choice(["ulp", "ulp", "dense", "negative", "wide", "sparse", "integral"])
    if mode == "q":
        style = rng.choice(["dense", "negative", "integral"])
    gc = lambda: gen_count(rng)
    if style == "ulp":
        base = rng.choice([1.0, 1.0, 0.1, 3.0, -7.5, 1e10, 1e-8, 4.0 / 3.0])
        u = abs(base) * 2.0 ** -52
        gv = lambda: base + rng.randint(-12, 12) * u * rng.choice([0.5, 1, 1, 2])
        # large counts: the rounding error of `centre * count` is then several spacings of the centres themselves
        gc = lambda: rng.choice([1, 1, 1, 2, 3, 7, 1000, 124997, 999983])
    elif mode == "f":
        gv = lambda: gen_value(rng, style)
    else:
        gv = lambda: gen_qvalue(rng, style)
    prog = [["new", 0, cap]]
    for _ in range(rng.randint(1, cap + 2)):
        prog.append(["upd", 0, gv(), gc()])
    cur, nxt = 0, 1
    every = rng.choice([1, 1, 2, 3])
    for i in range(rng.randint(4, 18)):
        if i % every == 0:
            if rng.random() < 0.15:
                prog.append(["ld2", cur, nxt, nxt + 1])
                nxt += 2
            else:
                prog.append(["dl", cur, nxt])
                nxt += 1
            if rng.random() < 0.35:
                cur = nxt - 1  # restore: the stream goes on in the loaded copy
        r = rng.random()
        if r < 0.8:
            prog.append(["upd", cur, gv(), gc()])
        elif r < 0.9:
            prog.append(["bulk", cur, [gv() for _ in range(rng.randint(1, 6))], "f8"])
        else:
            prog.append(["new", nxt, rng.choice([2, 3, 8])])
            for _ in range(rng.randint(1, 4)):
                prog.append(["upd", nxt, gv(), 1])
            prog.append(["add", cur, nxt] if rng.random() < 0.7 else ["add", nxt, cur])
            nxt += 1
    prog.append(["dl", cur, nxt])
    return {"mode": mode, "prog": prog, "family": "checkpoint:" + style, "snap_every": 1 if len(prog) <= 30 else 5}


def tiny_load_case(ctx, mode=None):
    """Dump/load of a TINY histogram — one, two or three bins, so load() builds an empty / one-entry / two-entry cache of
    adjacent differences (`diffs = []`, `min_diff = inf` for a single bin) — followed by a LONG history on the loaded
    copy: filled to the loaded limit with distinct values (updates, small bulk loads or `+` of an independently built
    histogram), then values inside the range (far from / next to a centre), exact hits and new extremes, each of which
    must merge the closest adjacent pair; sometimes the original is fed the same values and the full copy is dumped and
    loaded once more.  A cache that is empty-but-not-None is the state no freshly built histogram is ever in."""
    rng = ctx.rng
    mode = mode or ("q" if rng.random() < 0.6 else "f")
    default = gen_const("distogram.default_bin_count", 50)
    n0 = rng.choice([1, 1, 1, 2, 2, 3])
    cap0 = rng.choice([default, rng.randint(max(2, n0), 64), rng.randint(max(2, n0), 64)])
    total = default + rng.randint(2, 14)  # distinct values after the load: fills the loaded copy and goes on
    span = rng.choice([4000, 20000, 10 ** 6])
    pts = rng.sample(range(-span, span), n0 + total)
    scale = 1 if mode == "q" else rng.choice([1.0, 0.5, 0.125, 3.0, 1e-3])
    den = rng.choice([1, 1, 2, 7])

    def val(x):
        if mode == "q":
            return x if den == 1 else [x, den]
        return float(x) * scale

    order = rng.random()
    if order < 0.25:
        # a monotone stream from the very first value on: after the load every value is an append (ascending) or an insert
        # at position 0 (descending) — the loaded cache and its minimum are only ever touched by that one path
        pts.sort(reverse=rng.random() < 0.4)
    first, later = pts[:n0], pts[n0:]
    if 0.25 <= order < 0.5:
        later[: default - n0] = sorted(later[: default - n0], reverse=rng.random() < 0.5)  # the fill arrives in order
    prog = [["new", 0, cap0]]
    if rng.random() < 0.2:
        # the tiny histogram comes from a bulk load (its bounds from the array, repeated values)
        prog.append(["bulk", 0, [val(x) for x in first] + [val(rng.choice(first)) for _ in range(rng.randint(0, 3))], "f8"])
    else:
        for x in first:
            prog.append(["upd", 0, val(x), gen_count(rng)])
    prog.append(["dl", 0, 1])
    both = cap0 >= 4 and rng.random() < 0.4  # the un-dumped original goes through the same history
    how = rng.random()
    fill, rest = later[: default - n0 - rng.choice([0, 0, 1])], None
    rest = later[len(fill):]
    nxt = 2
    if how < 0.7:
        for x in fill:
            c = gen_count(rng) if rng.random() < 0.2 else 1
            prog.append(["upd", 1, val(x), c])
            if both:
                prog.append(["upd", 0, val(x), c])
    elif how < 0.85:
        for i in range(0, len(fill), 9):
            chunk = [val(x) for x in fill[i:i + 9]]
            prog.append(["bulk", 1, chunk + [rng.choice(chunk)], "f8"])
            if both:
                prog.append(["bulk", 0, list(prog[-1][2]), "f8"])
    else:
        prog.append(["new", nxt, 64])
        for x in fill:
            prog.append(["upd", nxt, val(x), 1])
        prog.append(["add", 1, nxt])
        if both:
            prog.append(["add", 0, nxt])
        nxt += 1
    lo, hi = min(pts), max(pts)
    seen = list(first) + list(fill)
    for x in rest:
        r = rng.random()
        if r < 0.6:
            v = x  # somewhere inside the range, as far from a centre as it happens to be
        elif r < 0.7:
            v = rng.choice(seen)  # (probably) an exact hit
        elif r < 0.8:
            lo -= rng.randint(1, span // 10)
            v = lo
        elif r < 0.9:
            hi += rng.randint(1, span // 10)
            v = hi
        else:
            v = rng.choice(seen) + rng.choice([1, -1])  # right next to a centre: the legitimate in-place merge
        seen.append(v)
        c = gen_count(rng)
        prog.append(["upd", 1, val(v), c])
        if both:
            prog.append(["upd", 0, val(v), c])
    if rng.random() < 0.25:
        prog.append(["dl", 1, nxt])
        for _ in range(rng.randint(1, 4)):
            prog.append(["upd", nxt, val(rng.randint(lo, hi)), 1])
    return {"mode": mode, "prog": prog, "family": "tiny-load:%d-bin%s" % (n0, ":monotone" if order < 0.25 else ""), "snap_every": 7}


def zero_extreme_case(ctx, mode=None):
    """`+` (and merge / bulk load / update) around an exact zero bound — the truthiness trap: one operand's true
    minimum (or maximum) is exactly 0 / -0.0 / a numpy zero, it is compressed so that zero is no longer a centre of its
    own, and the other operand does not cover that bound."""
    rng = ctx.rng
    mode = mode or ("f" if rng.random() < 0.6 else "q")
    sgn = rng.choice([1, -1])  # +1: zero is the minimum of the zero operand; -1: zero is its maximum

    def val(x):
        x = sgn * x
        if mode == "q":
            return [int(x * 4), 4] if x != int(x) else int(x)
        return float(x)

    zero = 0 if mode == "q" else rng.choice([0.0, 0.0, -0.0])
    capz = rng.randint(2, 4)
    vals = [zero, val(rng.choice([0.25, 0.5, 1]))] + [val(v) for v in rng.sample(range(8, 60), rng.randint(capz, capz + 4))]
    rng.shuffle(vals)
    capo = rng.randint(2, 6)
    others = [val(rng.choice([3, 4, 5, 6, 7, 25, 40, 41.5])) for _ in range(rng.randint(1, 8))]
    zero_reg, other_reg = rng.choice([(1, 0), (1, 0), (0, 1)])  # mostly the zero operand on the right
    prog = []
    for reg in (0, 1):
        is_zero = reg == zero_reg
        prog.append(["new", reg, capz if is_zero else capo])
        src = vals if is_zero else others
        if rng.random() < 0.3:
            kind = "i8" if mode == "f" and all(float(v) == int(float(v)) for v in (src if mode == "f" else [])) and rng.random() < 0.5 else "f8"
            if mode == "q" and len(set(map(repr, src))) > 2 * 5:
                src = src[:8]
            prog.append(["bulk", reg, list(src), kind])
        else:
            for v in src:
                prog.append(["upd", reg, v, gen_count(rng)])
    how = rng.random()
    prog.append(["merge" if how < 0.1 else "add", 0, 1])
    for _ in range(rng.randint(0, 4)):
        r = rng.random()
        if r < 0.5:
            prog.append(["upd", 0, rng.choice(others), 1])
        elif r < 0.8:
            prog.append(["bulk", 0, [rng.choice(others) for _ in range(rng.randint(1, 6))], "f8"])
        else:
            prog.append(["dl", 0, 2])
            prog.append(["upd", 2, rng.choice(others), 1])
            break
    return {"mode": mode, "prog": prog, "family": "zero-extreme:" + ("min" if sgn > 0 else "max"), "snap_every": 1}


def typed_lattice(rng, kind):
    """(base, step, span): values base + k*step, 0 <= k < span, of the element type `kind`, at a magnitude where that
    type's own arithmetic stops agreeing with float64's (v*count beyond 2**63 for int64, beyond the range / the 24-bit
    significand of float32, the ends of the small integer types) — and sometimes at an ordinary magnitude.  Every value
    is exactly a float64, so on the code as it is (update() stores numpy.float64(value)) nothing is rounded on the way
    in."""
    if kind == "i8":
        how = rng.choice(["ns", "ns", "2**62", "-2**62", "1e18", "wide", "wide", "small"])
        if how == "wide":  # spread over the whole int64 range: a merged centre that is off moves the mean as well
            return -9 * 10 ** 18, 10 ** 17, 181
        if how == "ns":  # nanosecond timestamps at whole seconds / minutes / hours (multiples of 10**9 = 2**9 * 5**9)
            return rng.randint(1_200_000_000, 1_900_000_000) * 10 ** 9, 10 ** 9 * rng.choice([1, 1, 60, 3600]), 400
        if how == "2**62":
            return 2 ** 62 - 2 ** 20, 2 ** 10 * rng.choice([1, 3, 16]), 2000
        if how == "-2**62":
            return -(2 ** 62) - 2 ** 21, 2 ** 11 * rng.choice([1, 5]), 2000
        if how == "1e18":
            return rng.choice([1, -1, 3]) * 10 ** 18, 2 ** 12 * rng.choice([1, 7, 1000]), 1000
        return rng.randint(-1000, 1000), rng.choice([1, 7]), 400
    if kind == "i4":
        return rng.choice([2 ** 31 - 1 - 3000, -(2 ** 31), rng.randint(-10 ** 6, 10 ** 6)]), rng.choice([1, 2, 7]), 400
    if kind == "i2":
        return rng.choice([2 ** 15 - 1 - 400, -(2 ** 15), 0]), 1, 400
    if kind == "u1":
        return rng.choice([0, 56]), 1, 200
    if kind == "u2":
        return rng.choice([2 ** 16 - 1 - 400, 0]), 1, 400
    if kind == "u4":
        return rng.choice([2 ** 32 - 1 - 2800, 0, 2 ** 31 - 200]), rng.choice([1, 7]), 400
    return None


def typed_values(rng, kind, n):
    """n distinct values of the element type `kind` (ascending), see `typed_lattice`."""
    import numpy

    if kind in INT_KINDS:
        base, step, span = typed_lattice(rng, kind)
        vals = [base + k * step for k in sorted(rng.sample(range(span), n))]
        _, lo, hi = INT_KINDS[kind]
        if not all(lo <= v <= hi and float(v) == v for v in vals):
            raise InfraError("typed_values produced a value outside %s / not a float64: %r" % (kind, vals[:5]))
        return vals
    if kind == "f4":
        how = rng.choice(["3e38", "3e38", "-3e38", "2**24", "1e30", "ordinary"])
        if how in ("3e38", "-3e38"):  # next to the largest float32: v * count leaves float32 for count >= 2
            sg = 1.0 if how == "3e38" else -1.0
            vals = [sg * 3e38 * (1.0 - k / 4096.0) for k in rng.sample(range(400), n)]
        elif how == "2**24":  # where float32 stops representing every integer
            vals = [float(2 ** 24 - 300 + 2 * k) for k in rng.sample(range(400), n)]
        elif how == "1e30":
            vals = [1e30 * (1.0 + k / 512.0) for k in rng.sample(range(400), n)]
        else:
            vals = [rng.uniform(-100, 100) for _ in range(n)]
        return sorted(set(float(numpy.float32(v)) for v in vals))
    if kind == "f2":
        how = rng.choice(["65504", "65504", "2**11", "ordinary"])
        if how == "65504":  # next to the largest float16: the sum of two edges leaves float16
            vals = [65504.0 - 32.0 * k for k in rng.sample(range(400), n)]
        elif how == "2**11":  # where float16 stops representing every integer
            vals = [float(2 ** 11 - 300 + k) for k in rng.sample(range(400), n)]
        else:
            vals = [rng.randint(-800, 800) / 8.0 for _ in range(n)]
        return sorted(set(float(numpy.float16(v)) for v in vals))
    # float64 arrays at the magnitudes the integer kinds are tried at
    how = rng.choice(["1e18", "2**62", "ordinary"])
    if how == "1e18":
        return sorted(1e18 + 4096.0 * k for k in rng.sample(range(1000), n))
    if how == "2**62":
        return sorted(float(2 ** 62 + 2 ** 12 * k) for k in rng.sample(range(1000), n))
    return sorted(set(rng.uniform(-100, 100) for _ in range(n)))


def typed_bulk_case(ctx):
    """Bulk loads of arrays whose ELEMENT TYPE is not float64 — int64 / int32 / int16 / uint8 / uint16 / uint32 /
    float32 — holding few distinct values, each repeated (counts 2..20), at magnitudes where that type's arithmetic
    differs from float64's (int64 centre * count beyond 2**63: nanosecond timestamps, ids next to 2**62; float32 next to
    its largest value and around 2**24; the ends of the small integer types), into an empty histogram (mostly) or a used
    one, with at most `limit` distinct values (mostly), up to / one past `limit * 5`; then updates (Python ints or
    floats of the same lattice, exact hits and new values) that force the closest pairs of the loaded bins to merge,
    a second load, `+` of a second typed load, dump/load.  The streaming path stores numpy.float64(value) for whatever
    it is handed; a path that keeps the array's own scalars computes later centroids in that type."""
    rng = ctx.rng
    kind = rng.choice(["i8", "i8", "i8", "i8", "i4", "i2", "u1", "u2", "u4", "f4", "f4", "f2", "f8"])
    cap = rng.choice([2, 2, 3, 3, 4, 5, 8, rng.randint(2, 24)])
    r = rng.random()
    n = rng.randint(1, cap) if r < 0.7 else cap if r < 0.8 else rng.randint(cap + 1, cap * 5) if r < 0.95 else cap * 5 + 1
    n = min(n, 150)
    extra = rng.randint(1, cap + 4)
    pool = typed_values(rng, kind, n + extra)
    order = list(range(len(pool)))
    rng.shuffle(order)
    first = [pool[i] for i in sorted(order[:n])]
    later = [pool[i] for i in order[n:]]
    if not first:
        first, later = pool[:1], pool[1:]

    def rep():
        return rng.choice([1, 2, 2, 5, 8, 10, 20])

    def arr_of(vals):
        a = [v for v in vals for _ in range(rep())]
        rng.shuffle(a)
        return a

    def scalar(v):
        # update(h, value): a float, or (integer kinds) the Python int
        return v if (kind in INT_KINDS and rng.random() < 0.5) else float(v)

    prog = [["new", 0, cap]]
    if rng.random() < 0.15 and later:
        prog.append(["upd", 0, scalar(later.pop()), gen_count(rng)])  # the load goes into a histogram already in use
    prog.append(["bulk", 0, arr_of(first), kind])
    nxt = 1
    for v in later:
        q = rng.random()
        if q < 0.72:
            prog.append(["upd", 0, scalar(v), gen_count(rng)])
        elif q < 0.8:
            prog.append(["upd", 0, scalar(rng.choice(first)), gen_count(rng)])  # exact hit on a loaded centre (if still there)
        elif q < 0.9:
            prog.append(["bulk", 0, arr_of([v] + rng.sample(first, min(len(first), rng.randint(0, 2)))), kind])
        elif q < 0.96:
            prog.append(["new", nxt, rng.choice([2, 3, cap, 64])])
            prog.append(["bulk", nxt, arr_of([v] + rng.sample(first, min(len(first), rng.randint(0, 3)))), kind])
            prog.append(["add", 0, nxt] if rng.random() < 0.7 else ["add", nxt, 0])
            nxt += 1
        else:
            prog.append(["dl", 0, nxt])
            nxt += 1
    return {"mode": "f", "prog": prog, "family": "typed-bulk:" + kind, "snap_every": 1 if len(prog) <= 30 else 5}


def py_int_stream_case(ctx):
    """`update(h, value, count)` with Python ints of large magnitude (the int64 lattices of `typed_lattice`, each exactly
    a float64) and counts above 1, small limits: the stored centre is numpy.float64(value), so two inserted integers
    merge in float64 arithmetic (two roundings: the sum of products, then the quotient) — kept as Python ints they would
    merge exactly and be rounded once, which differs in the last bit at these magnitudes."""
    rng = ctx.rng
    cap = rng.choice([2, 2, 3, 3, 4, 5])
    vals = typed_values(rng, "i8", cap + rng.randint(1, 8))
    rng.shuffle(vals)
    prog = [["new", 0, cap]]
    for v in vals:
        prog.append(["upd", 0, v if rng.random() < 0.85 else float(v), rng.choice([1, 2, 3, 5, 7, 10, 100, 999])])
        if rng.random() < 0.1:
            prog.append(["upd", 0, rng.choice(vals), rng.choice([1, 3])])
    return {"mode": "f", "prog": prog, "family": "py-int-stream", "snap_every": 1}


def spell(ctx, c):
    """Every `+` of a generated program is written in one of the forms the unchanged tree supports (ADD_FORMS) about
    half of the time — the same operation of the model, the same clauses."""
    rng = ctx.rng
    prog = []
    for op in c["prog"]:
        if op[0] == "add" and len(op) == 3 and rng.random() < 0.5:
            op = list(op) + [rng.choice(ADD_FORMS)]
        prog.append(op)
    c = dict(c)
    c["prog"] = prog
    return c


def compressed_operand_case(ctx, mode=None):
    """`+` in every spelling with a RIGHT operand that has been compressed (more distinct values than its limit, so its
    true minimum / maximum is no longer a bin centre of its own) and reaches beyond the accumulator's range on one or
    both sides; then the sum is used again (another part folded in, an update, dump/load).  The sum's bounds must be
    the exact extremes of everything inserted — replaying the operand's bin centres alone cannot give them."""
    rng = ctx.rng
    mode = mode or ("f" if rng.random() < 0.6 else "q")
    fam = rng.choice(["dense", "negative", "integral", "sparse", "grid", "wide"])
    gv = (lambda: gen_value(rng, fam)) if mode == "f" else (lambda: gen_qvalue(rng, fam))
    prog = [["new", 0, gen_cap(rng)]]
    for _ in range(rng.randint(0 if rng.random() < 0.1 else 1, 8)):
        prog.append(["upd", 0, gv(), gen_count(rng)])
    nxt = 1
    for _ in range(rng.randint(1, 4)):
        capb = rng.randint(2, 5)
        prog.append(["new", nxt, capb])
        for _ in range(capb + rng.randint(1, 6)):
            prog.append(["upd", nxt, gv(), gen_count(rng)])
        prog.append(["add", 0, nxt, rng.choice(ADD_FORMS)] if rng.random() < 0.85 else ["add", 0, nxt])
        r = rng.random()
        if r < 0.3:
            prog.append(["upd", 0, gv(), 1])
        elif r < 0.4:
            prog.append(["dl", 0, nxt + 1])
            nxt += 1
        nxt += 1
    return {"mode": mode, "prog": prog, "family": "compressed-operand:" + fam, "snap_every": 1 if len(prog) <= 30 else 5}


def small_exhaustive(ctx):
    """All update histories of length <= L over a tiny value alphabet, caps 2..3, exact mode."""
    import itertools

    alphabet = [0, 1, 2, 4, 7, [5, 2]]
    L = ctx.scale(4, 5)
    for cap in (2, 3):
        for n in range(1, L + 1):
            for hist in itertools.product(range(len(alphabet)), repeat=n):
                prog = [["new", 0, cap]] + [["upd", 0, alphabet[i], 1 + (j % 2) * (i % 3)] for j, i in enumerate(hist)]
                yield {"mode": "q", "prog": prog, "family": "exhaustive", "snap_every": 1}


BOUNDARY = [
    # every spelling of `+` with a compressed right operand that reaches beyond the accumulator on both sides
    # (its extremes 1 and 51 are merged into the centres 1.5 and 50.5)
] + [
    {"mode": m, "family": "boundary", "prog": [["new", 0, 4]] + [["upd", 0, w(v), 1] for v in (10, 11, 12, 13)] + [["new", 1, 3]]
     + [["upd", 1, w(v), 1] for v in (1, 2, 30, 50, 51)] + [["add", 0, 1, form], ["upd", 0, w(20), 1]]}
    for form in ADD_FORMS for m, w in (("f", float), ("q", int))
] + [
    # the text route of dump/load after a bulk load above the threshold of every element type (the bounds are then the
    # array's own scalars, or float64 for float16 / float32 arrays), at values that are not short decimals
    {"mode": "f", "family": "boundary", "prog": [["new", 0, 2], ["bulk", 0, vals, kind], ["dl", 0, 1], ["upd", 1, vals[3], 2]]}
    for kind, vals in (("f4", [float(__import__("numpy").float32(0.1 + 0.37 * k)) for k in range(13)]),
                       ("f2", [float(__import__("numpy").float16(0.1 + 0.37 * k)) for k in range(13)]),
                       ("f8", [0.1 + 0.37 * k for k in range(13)]),
                       ("i8", [2 ** 62 + 2 ** 12 * k for k in range(13)]), ("u1", [3 * k for k in range(13)]),
                       ("i2", [-(2 ** 15) + 5 * k for k in range(13)]), ("u4", [2 ** 32 - 1 - 7 * k for k in range(13)]))
] + [
    # bulk load above the threshold (midpoints), then updates
    {"mode": "f", "family": "boundary", "prog": [["new", 0, 4], ["bulk", 0, [float(v) for v in range(100, 200)], "f8"], ["upd", 0, 150.5, 2]]},
    # dump / load, then updates that must merge the closest pair
    {"mode": "q", "family": "boundary", "prog": [["new", 0, 5]] + [["upd", 0, v, 1] for v in (1, 2, 10, 20, 30)] + [["dl", 0, 1]] + [["upd", 1, v, 1] for v in range(40, 90)]},
    {"mode": "f", "family": "boundary", "prog": [["new", 0, 5]] + [["upd", 0, float(v), 1] for v in (1, 2, 10, 20, 30)] + [["dl", 0, 1]] + [["upd", 1, float(v), 1] for v in range(40, 90)] + [["upd", 0, 3.0, 1]]},
    # a full histogram (default limit) loaded back: the next insert must merge the closest pair (48, 48.5), not bins 0 and 1
    {"mode": "q", "family": "boundary", "prog": [["new", 0, 50]] + [["upd", 0, 10 * v, 1] for v in range(49)] + [["upd", 0, [961, 2], 1], ["dl", 0, 1], ["upd", 1, 1005, 1], ["upd", 1, 255, 1], ["upd", 1, 256, 1]]},
    {"mode": "f", "family": "boundary", "prog": [["new", 0, 50]] + [["upd", 0, 10.0 * v, 1] for v in range(49)] + [["upd", 0, 480.5, 1], ["dl", 0, 1], ["upd", 1, 1005.0, 1], ["upd", 1, 255.0, 1], ["upd", 1, 256.0, 1]]},
    # `+` with an operand whose exact minimum / maximum is zero and has been merged away (truthiness trap)
    {"mode": "f", "family": "boundary", "prog": [["new", 0, 3]] + [["upd", 0, float(v), 1] for v in (5, 6, 7, 8)] + [["new", 1, 2]] + [["upd", 1, float(v), 1] for v in (0, 1, 10, 11)] + [["add", 0, 1]]},
    {"mode": "f", "family": "boundary", "prog": [["new", 0, 3]] + [["upd", 0, float(v), 1] for v in (-5, -6, -7, -8)] + [["new", 1, 2]] + [["upd", 1, v, 1] for v in (-0.0, -1.0, -10.0, -11.0)] + [["add", 0, 1]]},
    {"mode": "q", "family": "boundary", "prog": [["new", 0, 2]] + [["upd", 0, v, 1] for v in (0, 1, 10, 11)] + [["new", 1, 3]] + [["upd", 1, v, 1] for v in (5, 6, 7, 8)] + [["add", 0, 1], ["bulk", 0, [5, 6], "f8"], ["upd", 0, 7, 1]]},
    {"mode": "f", "family": "boundary", "prog": [["new", 0, 3]] + [["upd", 0, float(v), 1] for v in (5, 6, 7, 8)] + [["new", 1, 2], ["bulk", 1, [0.0, 1.0, 10.0, 11.0, 0.0], "f8"], ["add", 0, 1]]},
    # adding an empty histogram
    {"mode": "f", "family": "boundary", "prog": [["new", 0, 4], ["upd", 0, 1.0, 1], ["new", 1, 4], ["add", 0, 1], ["upd", 0, 2.0, 1]]},
    {"mode": "f", "family": "boundary", "prog": [["new", 0, 4], ["new", 1, 4], ["upd", 1, 1.0, 1], ["add", 0, 1], ["upd", 0, 2.0, 1]]},
    # float128 leaking out of dump(): a dumped histogram's centres merged into another (centre vs. recorded bound), and the
    # same dumped histogram added twice (the second time every centre must be found again)
    {"mode": "f", "family": "boundary", "prog": [["new", 0, 3], ["upd", 0, 44.62390402418902, 1], ["upd", 0, 10.662594428299123, 1], ["new", 2, 3], ["upd", 2, 49.60734503903603, 385], ["ld2", 0, 3, 4], ["upd", 0, -29.190329069036313, 1], ["add", 2, 0], ["ld2", 0, 5, 6], ["merge", 6, 2]]},
    {"mode": "f", "family": "boundary", "prog": [["new", 0, 2], ["upd", 0, 1.0, 1], ["upd", 0, 2.0, 2], ["dl", 0, 1], ["upd", 0, 10.0, 1], ["upd", 1, 7.0, 3], ["new", 2, 10], ["add", 2, 0], ["add", 2, 1], ["add", 2, 0], ["merge", 2, 1]]},
    # load() with one bin fewer than / exactly / one more than / two more than its limit, and with the largest configured
    # maximum: exact hit, in place, then two inserting updates — above the limit (K01) only until the first of them
] + [
    {"mode": m, "family": "boundary", "prog": [["new", 0, 64]] + [["upd", 0, w(3 * i * i + i), 1] for i in range(n)]
     + [["dl", 0, 1], ["upd", 1, w(14), 2], ["upd", 1, w(15), 1], ["upd", 1, w(3 * n * n + 100), 3], ["upd", 1, w(-7), 1], ["upd", 1, w(9000), 1]]}
    for n in (49, 50, 51, 52, 64) for m, w in (("q", int), ("f", float))
] + [
    # bulk load with one fewer than / exactly / one more than `limit * 5` distinct values (unevenly spaced, with repeats):
    # exactly at the threshold the values are still inserted one by one
] + [
    {"mode": "f", "family": "boundary", "prog": [["new", 0, cap], ["upd", 0, 3.5, 2],
                                                ["bulk", 0, [float(i * i + 7 * (i % 3)) for i in range(cap * 5 + d)] + [0.0, 0.0, 4.0], kind]]}
    for cap in (2, 3, 7) for d in (-1, 0, 1) for kind in ("f8", "i8")
] + [
    # a stream whose first value is its largest / a single value / a strictly descending stream: both bounds from the
    # first value on
    {"mode": "f", "family": "boundary", "prog": [["new", 0, 3], ["upd", 0, 9.0, 1], ["upd", 0, 2.0, 1], ["upd", 0, 5.0, 1], ["upd", 0, 7.0, 1], ["upd", 0, 3.0, 1]]},
    {"mode": "q", "family": "boundary", "prog": [["new", 0, 2], ["upd", 0, 9, 3]]},
    {"mode": "q", "family": "boundary", "prog": [["new", 0, 2], ["upd", 0, 9, 1], ["upd", 0, 7, 1], ["upd", 0, 4, 1], ["upd", 0, -1, 1], ["dl", 0, 1], ["upd", 1, -2, 1]]},
    # checkpoints of a running histogram: the first dump() turns its bins into numpy.float128, later merges give centres
    # float64 cannot represent (neighbouring doubles: centres closer than one float64 spacing), every later dump/load
    # must hand them back unrounded
    {"mode": "f", "family": "boundary", "prog": [["new", 0, 2], ["upd", 0, 1.0 - 2 * 2.0 ** -53, 1], ["dl", 0, 1]]
     + [op for k, r in zip((4, 1, 3, 3, 2), range(2, 7)) for op in (["upd", 0, 1.0 - k * 2.0 ** -53, 1], ["dl", 0, r])]
     + [["upd", 6, 0.5, 1], ["upd", 0, 0.5, 1], ["dl", 0, 7]]},
    {"mode": "f", "family": "boundary", "prog": [["new", 0, 3], ["upd", 0, 0.1, 1], ["upd", 0, 0.2, 1], ["upd", 0, 0.7, 1], ["dl", 0, 1], ["upd", 0, 0.3, 1], ["dl", 0, 2],
                                                ["upd", 0, 1.1, 1], ["dl", 0, 3], ["upd", 3, 0.45, 1], ["dl", 3, 4], ["upd", 4, 2.5, 1], ["ld2", 4, 5, 6]]},
    # operands used again after `+`: the left operand object, the right operand, the sum
    {"mode": "q", "family": "boundary", "prog": [["new", 0, 3], ["upd", 0, 10, 1], ["upd", 0, 20, 1], ["new", 1, 3], ["upd", 1, 0, 1], ["upd", 1, 40, 2], ["add", 0, 1],
                                                ["updl", 0, 50, 1], ["upd", 1, 45, 1], ["upd", 0, -5, 1], ["add", 0, 1], ["updl", 0, 12, 1]]},
    {"mode": "f", "family": "boundary", "prog": [["new", 0, 8], ["new", 1, 4], ["upd", 1, 1.0, 1], ["upd", 1, 2.0, 1], ["add", 0, 1], ["new", 2, 4], ["upd", 2, 3.0, 1],
                                                ["add", 0, 2], ["upd", 1, 9.0, 1], ["updl", 0, 4.0, 1], ["upd", 2, 7.0, 1]]},
    # rounding of the weighted centroid (finding C13-F06): neighbouring doubles with large counts, and float64 / float128
    # centres mixed after a dump() — the stored centre must stay within the pair it replaces
    {"mode": "f", "family": "boundary", "prog": [["new", 0, 3]] + [["upd", 0, v, c] for v, c in (
        (1.333333333333334, 1), (1.3333333333333333, 3), (1.3333333333333333, 1), (1.3333333333333348, 1), (1.3333333333333333, 1000), (1.3333333333333366, 7))]},
    {"mode": "f", "family": "boundary", "prog": [["new", 0, 2], ["upd", 0, 9.999999999999982e-09, 1], ["bulk", 0, [9.99999999999998e-09], "f8"], ["dl", 0, 1],
                                                ["upd", 0, 9.99999999999998e-09, 2], ["bulk", 0, [9.999999999999992e-09], "f8"]]},
    {"mode": "f", "family": "boundary", "prog": [["new", 0, 2], ["upd", 0, 9.999999999999997e-09, 1], ["upd", 0, 1e-08, 1], ["upd", 0, 9.999999999999999e-09, 999983]]},
    # dump/load of a histogram with ONE bin (load() builds an empty cache, min_diff = inf), TWO and THREE bins, then a
    # long history on the loaded copy and on the original: filled to the loaded limit, then values that must merge the
    # closest adjacent pair (an empty-but-not-None cache that is never filled folds them into the nearest bin instead)
] + [
    {"mode": m, "family": "boundary", "prog": [["new", 0, 50]] + [["upd", 0, w((10, 19, 31)[j]), 3] for j in range(n0)] + [["dl", 0, 1]]
     + [op for k in range(50 - n0) for op in (["upd", 1, w(100 * k + k * k), 1], ["upd", 0, w(100 * k + k * k), 1])]
     + [op for v, c in ((2040, 1), (3333, 2), (4444, 1), (-7, 5), (1111, 1), (5, 1)) for op in (["upd", 1, w(v), c], ["upd", 0, w(v), c])]}
    for n0 in (1, 2, 3) for m, w in (("q", int), ("f", float))
] + [
    # the same with a monotone stream: after the load every value is an append (ascending) / an insert at 0 (descending)
    {"mode": m, "family": "boundary", "prog": [["new", 0, 50], ["upd", 0, w(0), 2], ["dl", 0, 1]]
     + [["upd", 1, w(sg * (100 * k + k * k)), 1] for k in range(1, 56)] + [["upd", 1, w(sg * 777), 1], ["upd", 1, w(sg * 5000), 1]]}
    for sg in (1, -1) for m, w in (("q", int), ("f", float))
] + [
    # in-place shortcut next to bin 0 and next to the last bin
    {"mode": "q", "family": "boundary", "prog": [["new", 0, 3], ["upd", 0, 0, 1], ["upd", 0, 10, 1], ["upd", 0, 20, 1], ["upd", 0, 1, 1], ["upd", 0, 19, 1], ["upd", 0, 11, 1]]},
] + [
    # integer values spread over the int64 range, the closest pair (2e18 x5, 3e18 x1) merged by a later, negative value
    {"mode": "f", "family": "boundary", "prog": [["new", 0, 4], ["bulk", 0, [2 * 10 ** 18] * 5 + [3 * 10 ** 18, 6 * 10 ** 18, 9 * 10 ** 18], "i8"],
                                                ["upd", 0, -5 * 10 ** 18, 1], ["upd", 0, 8 * 10 ** 18, 3]]},
] + [
    # bulk loads of arrays whose element type is not float64, few distinct values each repeated, at magnitudes where that
    # type's arithmetic differs from float64's; then updates that merge the two closest loaded bins (the stored centres
    # are numpy.float64 whatever the array held: centre * count is a float64 product, not an int64 / float32 one)
    {"mode": "f", "family": "boundary", "prog": [["new", 0, cap], ["bulk", 0, [v for v in vals[:cap] for _ in range(reps)], kind]]
     + [["upd", 0, v, 1] for v in vals[cap:]]}
    for cap, reps, kind, vals in (
        (4, 10, "i8", [1_600_000_000 * 10 ** 9 + k * 10 ** 9 for k in (0, 1, 5, 12, 30, 31)]),  # nanosecond timestamps
        (2, 2, "i8", [2 ** 62 + 2 ** 10 * k for k in (0, 2, 14, 17)]),  # centre * 2 == 2**63
        (3, 5, "i8", [-(2 ** 62) + 2 ** 11 * k for k in (0, 1, 9, 30, 32)]),
        (3, 4, "i4", [2 ** 31 - 1 - k for k in (40, 39, 20, 0, 1)]),
        (3, 20, "u1", [255 - k for k in (9, 8, 4, 0, 1)]),
        (3, 3, "f4", [3e38 * (1.0 - k / 4096.0) for k in (40, 39, 20, 0, 1)]),
        (3, 3, "f4", [float(2 ** 24 - 2 * k) for k in (9, 8, 4, 0, 1)]),
        (3, 6, "f8", [1e18 + 4096.0 * k for k in (0, 1, 9, 30, 32)]),
        (3, 2, "f2", [65504.0 - 32.0 * k for k in (40, 39, 20, 0, 1)]),
    )
] + [
    # one past `limit * 5` distinct float32 / float16 values next to the top of their range (C13-F07): binned and averaged
    # as float64 values
    {"mode": "f", "family": "boundary", "prog": [["new", 0, 2], ["bulk", 0, vals + vals, kind], ["upd", 0, vals[3], 2]]}
    for kind, vals in (("f4", [3e38 * (1.0 - k / 4096.0) for k in range(11)]), ("f2", [65504.0 - 32.0 * k for k in range(11)]))
]


def run(ctx):
    ctx.note("rule", "programs over histogram registers (update/+/merge/bulk load/dump-load) run on orso.profiler.distogram, on the "
             "Lean faithful machine and on the reference machine; non-trivial = at least two insertions; distinct by canonical JSON")
    ctx.note("assumptions", [
        "numpy.unique / numpy.histogram / ndarray.min/max are parameters: the model is fed the (values, counts) or (edges, counts) numpy produced",
        "the mean claim above the bulk threshold is relative to the midpoints actually inserted (theorem C13.bulk_above_threshold_mean)",
        "equality of the faithful (cached-differences) machine with the reference algorithm is proved for whole histories in which the "
        "reference saw a unique closest pair (C13.refines_reference, counts >= 1, successful operations) and compared on every run; "
        "bisect_left on a sorted list is modelled as a linear scan with the source's key",
        "open finding C13-K01 is judged exactly as the unchanged tree behaves: a register loaded with more bins than load()'s limit may be "
        "above the limit, with exactly the loaded number of bins, only until the first update that inserts a bin (observed on the "
        "implementation's own bin list); its bins may differ from the reference only after an exact-hit / in-place update ran above the limit",
        "after dump() the implementation's bins are numpy.float128: later centroids are compared with the float64 machines at relative tolerance 1e-9 only; "
        "the dump/load clause itself is judged at the full precision of what dump() hands out (exact rationals of the longdouble values)",
        "after every operation every live histogram is judged, not only the result: a histogram the operation did not address must not move "
        "(else it is re-judged against its own ledger), and a left operand that + / merge did not return must be the unchanged operand or the sum",
        "every spelling of + the unchanged tree supports is an entry of the op alphabet (a += b, operator.iadd, operator.add, a.__add__(b), "
        "sum([b], a), functools.reduce(operator.add, [a, b])): all resolve to Distogram.__add__ (no __iadd__ / __radd__ in the class: "
        "Gen.Distogram.classDunders, theorem C13.iadd_is_add) and are held to the exact-bounds clause; sum(parts) without a start value "
        "raises TypeError on the unchanged tree and is not a form of the operation; the bare merge() stays the documented weaker operation",
        "dump/load is also judged through the text route in float mode: dumps() -> orjson.loads -> load() must give back every count, "
        "every bound and every centre as the number stored (integers exactly, floats as their own value; a numpy.float128 centre that "
        "dump() made is carried as the nearest float64, JSON having no wider number)",
        "order and bounds are judged exactly in floating point as well: the stored centre of a merge is kept within the pair it replaces "
        "(C13.stored_centre_within_pair, finding C13-F06), so they do not depend on rounding; only the mean is compared 'up to rounding'",
    ])
    import time as _t
    t0 = _t.time()
    phases = {}
    # witnesses of repaired defects run as ordinary corpus cases (a reverted fix fails here first)
    for k in ctx.known:
        if k.get("status") == "fixed" and "witness" in k:
            w = core.unjson(k["witness"])
            w.setdefault("snap_every", 1)
            evaluate(ctx, [w])
            ctx.hit("corpus:fixed-finding-witness")
    for c in BOUNDARY:
        c = dict(c)
        c.setdefault("snap_every", 1)
        evaluate(ctx, [c])
    phases["corpus+boundary_s"] = round(_t.time() - t0, 2)
    t0 = _t.time()
    batch = []
    n_ex = 0
    for c in small_exhaustive(ctx):
        batch.append(c)
        n_ex += 1
        if len(batch) >= 1500:
            evaluate(ctx, batch)
            batch = []
        if ctx.time_left() < ctx.budget_s * 0.55:
            break
    evaluate(ctx, batch)
    ctx.exhaustive = False
    ctx.note("exhaustive_scope", "update histories up to length %d over 6 values, limits 2..3, exact arithmetic (%d histories); then seeded random programs" % (ctx.scale(4, 5), n_ex))
    phases["exhaustive_s"] = round(_t.time() - t0, 2)
    t0 = _t.time()
    n_random = ctx.scale(2500, 28000)
    done = 0
    while done < n_random and ctx.time_left() > ctx.scale(12, 170):
        cases = ([random_case(ctx) for _ in range(74)] + [dl_heavy_case(ctx) for _ in range(8)] + [zero_extreme_case(ctx) for _ in range(8)]
                 + [over_limit_load_case(ctx) for _ in range(4)] + [reuse_case(ctx) for _ in range(6)]
                 + [checkpoint_case(ctx) for _ in range(8)] + [tiny_load_case(ctx) for _ in range(5)]
                 + [typed_bulk_case(ctx) for _ in range(10)] + [py_int_stream_case(ctx) for _ in range(4)]
                 + [compressed_operand_case(ctx) for _ in range(8)])
        evaluate(ctx, [spell(ctx, c) for c in cases])
        done += len(cases)
        if ctx.violations:
            break
    ctx.note("random_programs", done)
    phases["random_s"] = round(_t.time() - t0, 2)
    ctx.note("phase_seconds", phases)
    settle_mirror(ctx)


def settle_mirror(ctx):
    m = getattr(ctx, "mirror_mismatch", None)
    if m is None:
        return
    if ctx.violations or ctx.disagreements:
        ctx.note("lean_reference_vs_mirror", "differ (the regenerated arithmetic changed; see the failing input / proof failures): " + m[:600])
        return
    raise InfraError(m)


def intensify(ctx):
    t_end = ctx.time_left() - 5
    n = 0
    while ctx.time_left() > max(5, t_end - 50) and n < 3000 and not ctx.violations:
        evaluate(ctx, [spell(ctx, c) for c in [random_case(ctx) for _ in range(74)]] + [dl_heavy_case(ctx) for _ in range(10)] + [zero_extreme_case(ctx) for _ in range(10)]
                 + [over_limit_load_case(ctx) for _ in range(6)] + [reuse_case(ctx) for _ in range(6)]
                 + [checkpoint_case(ctx) for _ in range(8)] + [tiny_load_case(ctx) for _ in range(6)]
                 + [typed_bulk_case(ctx) for _ in range(14)] + [py_int_stream_case(ctx) for _ in range(6)]
                 + [compressed_operand_case(ctx) for _ in range(10)])
        n += 150


def replay(ctx, case):
    case = dict(case)
    case.setdefault("snap_every", 1)
    evaluate(ctx, [case])
    settle_mirror(ctx)


def _k01(case, failure):
    """C13-K01, exactly as the unchanged tree behaves: a register that load() gave more bins than its limit is above
    the limit with exactly the loaded number of bins until the first update that inserts a bin (capacity); once an
    exact-hit / in-place update has run above the limit its bins differ from the reference (reference).  A register
    that is above the limit *after* an inserting update is a new violation."""
    return (any(op[0] in ("dl", "ld2") for op in case["prog"])
            and k01_detail(_kind(failure["clause"]), failure.get("detail")))


KNOWN_PREDICATES = {"load_drops_configured_limit": _k01}
