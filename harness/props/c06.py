"""C06 — Type names resolve to exactly the type they denote.

Ops (one text name each):
  from_name : OrsoTypes.from_name(name)                      vs  TypeName.fromName
  column    : FlatColumn(name="c", type=name) -> the five attributes, the type code that
              DataFrame.description reports, and what that code resolves back to
                                                              vs  TypeName.declare / typeCode / fromName

  column_enum  : FlatColumn(name="c", type=OrsoTypes.<member>, element_type=…, precision=…, scale=…, length=…)
  column_arrow : FlatColumn.from_arrow(pyarrow.field("c", <type>))
                 -> the five attributes, the reported type code and what it resolves back to; the model gets
                    the observed attributes (op `code`: TypeName.typeCode / fromName)

  column (+ "explicit")  : FlatColumn(name="c", type=name, element_type=…, precision=…, scale=…, length=…)
                 vs  TypeName.declareWith (the extracted merge rules / DECIMAL default tests)
  frame        : DataFrame(rows=[], schema=RelationSchema(columns=[…several columns, with aliases…])).description,
                 twice, every entry against the column in the same position
                 vs  TypeName.describe (the extracted lookup: by position / by name)

  session      several RelationSchema objects, several frames over them (made directly or derived from another
                 frame: head/slice/query/distinct/filter/take hand the schema object on), and steps in any order:
                 read a frame's description, redeclare column i of a schema with another type name
                 (schema.columns[i] = FlatColumn(name=<the same>, ...)), edit the type attributes of the column object in
                 place, rename it (in place / by a column of another name), drop a frame (a later frame may get its address)
                 vs  TypeName.session (description as a function of the schema as it is at the read; the read mode is
                     extracted: Gen.TypeName.descRead)

  routes       the same declaration {'name': 'c', 'type': <name>, **keys} through EVERY declaration route: FlatColumn(**d),
                 FlatColumn.from_dict, RelationSchema.from_dict, FlatColumn.from_json, ConstantColumn / FunctionColumn /
                 DictionaryColumn / SparseColumn / RLEColumn (and ConstantColumn.from_dict); keys = none, or length /
                 precision / scale / element_type given as null or as a value
                 vs  TypeName.declare (when no key carries a value); from_dict's own statements are extracted
                     (Gen.TypeNameDict.fromDictRewrites, theorem from_dict_declaration_keeps_name)

Oracle (evaluated on the implementation's own outputs, never on the model's):
  total     any text: a well-formed 5-tuple comes back, or ValueError - nothing else;
  exact     a name the generator built as a well-formed type name (label `expect`, re-validated from
            the name itself) resolves, in any ASCII letter case, to that base type with exactly those
            parameters / element type;
  reject    DECIMAL(p,s) with parameters outside 0<=s<=p<=38 and ARRAY<T> with T not a scalar type
            name are rejected (with ValueError, by `total`);
  column    a column declared with a well-formed name carries the parameters, and its reported
            type code resolves back to the same type (and the same precision/scale/element type);
  typed     EVERY column that could be declared and is typed (declared by any name that resolves -
            aliases LIST/NUMERIC/BSON/bare ARRAY included, any letter case -, by an OrsoTypes member
            with or without element type / precision / scale / length, or from an Arrow field) reports
            a type code (None is never acceptable) that resolves back, through from_name, to the
            column's type, with the column's precision/scale (DECIMAL) and element type (ARRAY, when
            the column has one).  Not covered: untyped columns (_MISSING_TYPE / 0) and columns whose
            element type is itself ARRAY, DECIMAL or _MISSING_TYPE (not well-formed descriptions).

  explicit  a parameter given to the constructor next to the type name is carried when the name does not
            specify that parameter itself (or specifies the same value); zero is a value;
  frame     in a schema of several columns - whatever their names and aliases, collisions included - the
            description has one entry per column, entry i bears column i's name, and `typed` holds for
            entry i against column i; two calls give the same description.

  routes    on every route: any exception is ValueError (`total`); when the implementation's own from_name resolves the
            name to a type, the column carries that type and exactly the length / precision / scale / element type
            from_name gives (a key given a value is judged like `explicit`; `length` is not judged on the classes where
            it counts rows; a bare DECIMAL's defaults are left to `typed`; the written form {'type': 'ARRAY',
            'element_type': None} keeps no element type).

  session   every read of a session is judged like `frame`, against the columns of the frame's schema AS THEY ARE AT
            THAT READ (observed just before the read): one entry per column, entry i bears column i's name, the type
            code of entry i resolves back to column i's current type / precision / scale / element type.

For non-ASCII names the oracle evaluates only `total` (Python's str.upper, \\d, \\s, \\w are Unicode-aware:
'ınteger' and 'DECIMAL(١٠,٢)' resolve, consistently with the statement); the model (TypeName.fromNameU) is run
over the interpreter's own Unicode tables, handed over per character (`char_table`).
"""
import itertools
import re
import warnings

from .. import wire
from ..core import InfraError, shrink

# --- the statement's vocabulary, pinned here (independent of the code under test)
BASE = ["ARRAY", "BLOB", "BOOLEAN", "DATE", "DECIMAL", "DOUBLE", "INTEGER", "INTERVAL", "STRUCT",
        "TIMESTAMP", "TIME", "VARCHAR", "NULL", "JSONB"]
# scalar element types: every base type that is neither nested (ARRAY) nor parameterised (DECIMAL)
SCALAR = [b for b in BASE if b not in ("ARRAY", "DECIMAL")]
# the enumeration's "no type" member: a member name, but not a type.  The statement neither demands that
# ARRAY<_MISSING_TYPE> resolves nor that it is rejected (it is a known name, not nested, not
# parameterised); the harness leaves it to the correspondence with the model.
UNTYPED_MEMBER = "_MISSING_TYPE"
ALIASES = ["LIST", "NUMERIC", "BSON", "STRING", "VARIANT", "MISSING", "0", "_MISSING_TYPE"]
MAX_P = 38

_DEC = re.compile(r"DECIMAL\(([0-9]+),[ \t\n\r\x0b\x0c\x1c-\x1f]*([0-9]+)\)")
_ARR = re.compile(r"ARRAY<([^>]*)>", re.S)


def is_ascii(s):
    return all(ord(c) < 128 for c in s)


def ascii_upper(s):
    return "".join(chr(ord(c) - 32) if "a" <= c <= "z" else c for c in s)


def max_digits():
    import sys

    return sys.get_int_max_str_digits() if hasattr(sys, "get_int_max_str_digits") else 0


def render(e):
    k = e["kind"]
    if k == "base":
        return e["base"]
    if k == "decimal":
        return "DECIMAL(%d,%d)" % (e["p"], e["s"])
    if k in ("varchar", "blob"):
        return "%s[%d]" % (k.upper(), e["n"])
    if k == "array":
        return "ARRAY<%s>" % e["elem"]
    raise InfraError("bad expectation %r" % (e,))


def label_valid(name, e):
    """Is `e` a correct description of what the statement says about `name`?  Decided from the name only."""
    if not isinstance(name, str) or not is_ascii(name):
        return False
    u = ascii_upper(name)
    k = e.get("kind")
    try:
        if k == "base":
            return e["base"] in BASE and u == e["base"]
        if k == "decimal":
            return 0 <= e["s"] <= e["p"] <= MAX_P and u == render(e)
        if k in ("varchar", "blob"):
            md = max_digits()
            return e["n"] >= 0 and (md == 0 or len(str(e["n"])) <= md) and u == render(e)
        if k == "array":
            return e["elem"] in SCALAR and u == render(e)
        if k == "reject-decimal":
            m = _DEC.match(u)
            if not m or len(m.group(1)) > 600 or len(m.group(2)) > 600:
                return False
            p, s = int(m.group(1)), int(m.group(2))
            return not (0 <= s <= p <= MAX_P)
        if k == "reject-array":
            m = _ARR.match(u)
            return bool(m) and m.group(1) not in SCALAR and m.group(1) != UNTYPED_MEMBER
    except (KeyError, TypeError, ValueError):
        return False
    return False


def auto_reject_label(name):
    """Label any ASCII name that the statement's last clause says must be rejected."""
    if not is_ascii(name):
        return None
    for k in ("reject-decimal", "reject-array"):
        if label_valid(name, {"kind": k}):
            return {"kind": k}
    return None


# --------------------------------------------------------------------------- implementation adaptor


def _cls(e):
    return "ValueError" if isinstance(e, ValueError) else type(e).__name__


def _ty(t):
    from orso.types import OrsoTypes

    if isinstance(t, OrsoTypes):
        return t.name
    if isinstance(t, int) and not isinstance(t, bool) and t == 0:
        return 0
    return {"__other__": repr(t)[:80]}


def _int(x):
    if x is None or (isinstance(x, int) and not isinstance(x, bool)):
        return x
    return {"__other__": repr(x)[:80]}


def _elem(t):
    from orso.types import OrsoTypes

    if t is None:
        return None
    if isinstance(t, OrsoTypes):
        return t.name
    return {"__other__": repr(t)[:80]}


def impl_from_name(name):
    from orso.types import OrsoTypes

    try:
        with warnings.catch_warnings():
            warnings.simplefilter("ignore")
            r = OrsoTypes.from_name(name)
    except Exception as e:
        return ["err", _cls(e)]
    if not (isinstance(r, tuple) and len(r) == 5):
        return ["bad", repr(r)[:120]]
    t, length, precision, scale, elem = r
    return ["ok", _ty(t), _int(length), _int(precision), _int(scale), _elem(elem)]


def _describe(c):
    """[the five attributes, type code, what the code resolves back to (, why there is no code)]"""
    from orso import DataFrame
    from orso.schema import RelationSchema

    col = ["ok", _ty(c.type), _int(c.length), _int(c.precision), _int(c.scale), _elem(c.element_type)]
    try:
        with warnings.catch_warnings():
            warnings.simplefilter("ignore")
            df = DataFrame(rows=[], schema=RelationSchema(name="t", columns=[c]))
            code = df.description[0][1]
    except Exception as e:
        return [col, None, None, "description raised " + _cls(e)]
    if not isinstance(code, str):
        return [col, None, None, "type code %r" % (code,)]
    return [col, code, impl_from_name(code)]


def _explicit_kw(x):
    from orso.types import OrsoTypes

    kw = {}
    if x.get("element_type") is not None:
        kw["element_type"] = OrsoTypes[x["element_type"]]
    for k in ("precision", "scale", "length"):
        if x.get(k) is not None:
            kw[k] = x[k]
    return kw


def impl_column(name, explicit=None):
    from orso.schema import FlatColumn

    try:
        with warnings.catch_warnings():
            warnings.simplefilter("ignore")
            c = FlatColumn(name="c", type=name, **_explicit_kw(explicit or {}))
    except Exception as e:
        return [["err", _cls(e)], None, None]
    return _describe(c)


def _five(c):
    return ["ok", _ty(c.type), _int(c.length), _int(c.precision), _int(c.scale), _elem(c.element_type)]


def impl_frame(case):
    """Several columns in one RelationSchema: the five attributes of each, the description (twice)."""
    from orso import DataFrame
    from orso.schema import FlatColumn, RelationSchema
    from orso.types import OrsoTypes

    cols, objs = [], []
    for spec in case["columns"]:
        kw = {"name": spec["name"], "aliases": list(spec.get("aliases") or [])}
        kw["type"] = OrsoTypes[spec["enum"]] if "enum" in spec else spec["type"]
        kw.update(_explicit_kw(spec))
        try:
            with warnings.catch_warnings():
                warnings.simplefilter("ignore")
                if case.get("via") == "from_dict":
                    # the second way a schema comes into being: RelationSchema.from_dict -> FlatColumn.from_dict
                    c = RelationSchema.from_dict({"name": "t", "columns": [kw]}).columns[0]
                else:
                    c = FlatColumn(**kw)
        except Exception as e:
            cols.append(["err", _cls(e)])
            continue
        objs.append(c)
        cols.append(_five(c))
    out = {"cols": cols, "desc": None, "back": None, "why": None, "stable": True}
    if len(objs) != len(cols):
        out["why"] = "a column could not be declared"
        return out
    try:
        with warnings.catch_warnings():
            warnings.simplefilter("ignore")
            df = DataFrame(rows=[], schema=RelationSchema(name="t", columns=objs))
            d1 = df.description
            d2 = df.description
    except Exception as e:
        out["why"] = "description raised " + _cls(e)
        return out
    ok = isinstance(d1, list) and all(isinstance(e, tuple) and len(e) == 7 for e in d1)
    if not ok:
        out["why"] = "description is not a list of 7-tuples"
        return out
    out["stable"] = d1 == d2
    out["desc"] = [[e[0], e[1] if (e[1] is None or isinstance(e[1], str)) else {"__other__": repr(e[1])[:80]},
                    _int(e[4]), _int(e[5])] for e in d1]
    out["back"] = [impl_from_name(e[1]) if isinstance(e[1], str) else None for e in d1]
    return out


# --------------------------------------------------------------------------- the other declaration routes

# every way a column comes to be declared with a type NAME: the keyword constructor, the dictionary form
# (FlatColumn.from_dict, RelationSchema.from_dict, FlatColumn.from_json), the subclasses of FlatColumn (which inherit
# the constructor and from_dict)
ROUTES = ("FlatColumn(...)", "FlatColumn.from_dict", "RelationSchema.from_dict", "FlatColumn.from_json", "ConstantColumn(...)",
          "ConstantColumn.from_dict", "FunctionColumn(...)", "DictionaryColumn(...)", "SparseColumn(...)", "RLEColumn(...)")
# on these classes `length` is the number of rows the column stands for (class default 1), not the width of the type
ROW_COUNT_LENGTH = ("ConstantColumn(...)", "ConstantColumn.from_dict", "FunctionColumn(...)")
DICT_ROUTES = ("FlatColumn.from_dict", "RelationSchema.from_dict", "FlatColumn.from_json", "ConstantColumn.from_dict")
# the written form (to_dict / to_json) of an ARRAY column that has no element type: the member's value next to a null
# element type.  It reads back as a column without an element type; that is the one dictionary whose element type the
# `routes` clause does not take from the name.
WRITTEN_ARRAY = "ARRAY"
# the written form of an untyped column: the value of the enumeration's "no type" member, which is not a type name; the
# dictionary routes read it as that member (the keyword route resolves the text '0' to the untyped marker 0) - untyped
# either way, outside the statement
WRITTEN_UNTYPED = "0"


def _route_builders(d):
    import orjson

    from orso.schema import (ConstantColumn, DictionaryColumn, FlatColumn, FunctionColumn, RelationSchema, RLEColumn,
                             SparseColumn)

    return {
        "FlatColumn(...)": lambda: FlatColumn(**d),
        "FlatColumn.from_dict": lambda: FlatColumn.from_dict(dict(d)),
        "RelationSchema.from_dict": lambda: RelationSchema.from_dict({"name": "t", "columns": [dict(d)]}).columns[0],
        "FlatColumn.from_json": lambda: FlatColumn.from_json(orjson.dumps(d)),
        "ConstantColumn(...)": lambda: ConstantColumn(**d),
        "ConstantColumn.from_dict": lambda: ConstantColumn.from_dict(dict(d)),
        "FunctionColumn(...)": lambda: FunctionColumn(**d),
        "DictionaryColumn(...)": lambda: DictionaryColumn(values=[], **d),
        "SparseColumn(...)": lambda: SparseColumn(values=[], **d),
        "RLEColumn(...)": lambda: RLEColumn(values=[], **d),
    }


def impl_routes(case):
    """The same declaration {'name': 'c', 'type': <name>, **keys} through every route; what from_name gives for the name."""
    d = {"name": "c", "type": case["name"]}
    d.update(case.get("keys") or {})
    out = {"ref": impl_from_name(case["name"]), "routes": {}}
    with warnings.catch_warnings():
        warnings.simplefilter("ignore")
        for r, build in _route_builders(d).items():
            try:
                out["routes"][r] = _five(build())
            except Exception as e:
                out["routes"][r] = ["err", _cls(e)]
    return out


DERIVE = {
    "head": lambda f: f.head(),
    "slice": lambda f: f.slice(0, 0),
    "query": lambda f: f.query(lambda r: True),
    "distinct": lambda f: f.distinct(),
    "filter": lambda f: f.filter([]),
    "take": lambda f: f.take([]),
}
TYPE_ATTRS = ("type", "length", "precision", "scale", "element_type")


def _spec_kw(spec):
    from orso.types import OrsoTypes

    kw = {"type": OrsoTypes[spec["enum"]] if "enum" in spec else spec["type"]}
    kw.update(_explicit_kw(spec))
    return kw


def impl_session(case):
    """Frames over shared schemas, the schemas edited between reads.  Returns the reads (each with the columns as
    they are just before the read) and the same session as the model's steps (with the attributes observed on the
    columns the implementation declared)."""
    from orso import DataFrame
    from orso.schema import FlatColumn, RelationSchema

    out = {"aborted": None, "reads": [], "schemas": [], "msteps": [], "id_reused": False}
    schemas = []
    with warnings.catch_warnings():
        warnings.simplefilter("ignore")
        for cols in case["schemas"]:
            objs = []
            for spec in cols:
                try:
                    objs.append(FlatColumn(name=spec["name"], aliases=list(spec.get("aliases") or []), **_spec_kw(spec)))
                except Exception as e:
                    out["aborted"] = "a column could not be declared (%s)" % _cls(e)
                    return out
            schemas.append(RelationSchema(name="t", columns=objs))
            out["schemas"].append([[c.name, list(c.aliases or [])] + _five(c)[1:] for c in objs])
        frames, over, dropped_ids = [], [], set()
        for st in case["steps"]:
            kind = st[0]
            if kind in ("frame", "derive"):
                j = st[1] if kind == "frame" else over[st[1]]
                try:
                    f = DataFrame(rows=[], schema=schemas[j]) if kind == "frame" else DERIVE[st[2]](frames[st[1]])
                except Exception as e:
                    out["aborted"] = "a frame could not be made (%s)" % _cls(e)
                    return out
                if f._schema is not schemas[j]:
                    out["aborted"] = "a derived frame does not share its creator's schema object"
                    return out
                if id(f) in dropped_ids:
                    out["id_reused"] = True
                frames.append(f)
                over.append(j)
                out["msteps"].append(["frame", j])
            elif kind == "drop":
                dropped_ids.add(id(frames[st[1]]))
                frames[st[1]] = None
            elif kind in ("redeclare", "edit"):
                _, j, i, spec = st
                old = schemas[j].columns[i]
                try:
                    new = FlatColumn(name=old.name, aliases=list(old.aliases or []), **_spec_kw(spec))
                except Exception as e:
                    out["aborted"] = "a column could not be declared (%s)" % _cls(e)
                    return out
                if kind == "redeclare":
                    schemas[j].columns[i] = new
                else:
                    for a in TYPE_ATTRS:
                        setattr(old, a, getattr(new, a))
                out["msteps"].append(["set", j, i] + _five(new)[1:])
            elif kind == "rename":
                _, j, i, nm, how = st
                old = schemas[j].columns[i]
                if how == "inplace":
                    old.name = nm
                else:
                    schemas[j].columns[i] = FlatColumn(name=nm, aliases=list(old.aliases or []),
                                                       **{a: getattr(old, a) for a in TYPE_ATTRS})
                out["msteps"].append(["rename", j, i, nm])
            else:  # read
                k = st[1]
                cols_now = schemas[over[k]].columns
                rd = {"frame": k, "names": [c.name for c in cols_now], "cols": [_five(c) for c in cols_now],
                      "desc": None, "back": None, "why": None}
                out["msteps"].append(["read", k])
                out["reads"].append(rd)
                try:
                    d = frames[k].description
                except Exception as e:
                    rd["why"] = "description raised " + _cls(e)
                    continue
                if not (isinstance(d, list) and all(isinstance(e, tuple) and len(e) == 7 for e in d)):
                    rd["why"] = "description is not a list of 7-tuples"
                    continue
                rd["desc"] = [[e[0], e[1] if (e[1] is None or isinstance(e[1], str)) else {"__other__": repr(e[1])[:80]},
                               _int(e[4]), _int(e[5])] for e in d]
                rd["back"] = [impl_from_name(e[1]) if isinstance(e[1], str) else None for e in d]
    return out


def impl_column_enum(case):
    from orso.schema import FlatColumn
    from orso.types import OrsoTypes

    kw = {"name": "c", "type": OrsoTypes[case["type"]]}
    if case.get("element_type") is not None:
        kw["element_type"] = OrsoTypes[case["element_type"]]
    for k in ("precision", "scale", "length"):
        if case.get(k) is not None:
            kw[k] = case[k]
    try:
        with warnings.catch_warnings():
            warnings.simplefilter("ignore")
            c = FlatColumn(**kw)
    except Exception as e:
        return [["err", _cls(e)], None, None]
    return _describe(c)


def arrow_type(spec):
    """A small, closed language of Arrow types: atoms, decimal128(p,s), list<T>, large_list<T>, struct."""
    import pyarrow as pa

    atoms = {"int8": pa.int8, "int32": pa.int32, "int64": pa.int64, "uint16": pa.uint16, "float32": pa.float32,
             "float64": pa.float64, "bool": pa.bool_, "string": pa.string, "large_string": pa.large_string,
             "binary": pa.binary, "date32": pa.date32, "date64": pa.date64, "null": pa.null}
    if spec in atoms:
        return atoms[spec]()
    if spec == "timestamp":
        return pa.timestamp("us")
    if spec == "time32":
        return pa.time32("ms")
    if spec == "time64":
        return pa.time64("us")
    if spec == "duration":
        return pa.duration("us")
    if spec == "struct":
        return pa.struct([("a", pa.int64())])
    m = re.fullmatch(r"decimal128\((\d+),(\d+)\)", spec)
    if m:
        return pa.decimal128(int(m.group(1)), int(m.group(2)))
    m = re.fullmatch(r"(list|large_list)<(.*)>", spec)
    if m:
        return (pa.list_ if m.group(1) == "list" else pa.large_list)(arrow_type(m.group(2)))
    raise InfraError("bad arrow type spec %r" % (spec,))


def impl_column_arrow(case):
    import pyarrow as pa

    from orso.schema import FlatColumn

    f = pa.field("c", arrow_type(case["arrow"]))
    try:
        with warnings.catch_warnings():
            warnings.simplefilter("ignore")
            c = FlatColumn.from_arrow(f)
    except Exception as e:
        return [["err", _cls(e)], None, None]
    return _describe(c)


# --------------------------------------------------------------------------- oracle


def wf_desc(r):
    """Is an 'ok' outcome a well-formed description?  Returns a reason or None."""
    _, t, length, precision, scale, elem = r
    if t == 0 and t is not False:
        # the untyped marker (`_type = 0` for '0' / VARIANT / MISSING): no parameters at all
        if (length, precision, scale, elem) != (None, None, None, None):
            return "untyped result carries parameters"
        return None
    if not isinstance(t, str):
        return "type is not an OrsoTypes member: %r" % (t,)
    for x in (length, precision, scale):
        if x is not None and not (isinstance(x, int) and x >= 0):
            return "parameter is not a non-negative int: %r" % (x,)
    if length is not None and t not in ("VARCHAR", "BLOB"):
        return "length on a %s" % t
    if (precision is None) != (scale is None):
        return "precision without scale (or the reverse)"
    if precision is not None:
        if t != "DECIMAL":
            return "precision/scale on a %s" % t
        if not (0 <= scale <= precision <= MAX_P):
            return "DECIMAL parameters out of range"
    if elem is not None:
        if t != "ARRAY":
            return "element type on a %s" % t
        if not isinstance(elem, str) or elem in ("ARRAY", "DECIMAL"):
            return "element type is not a scalar type: %r" % (elem,)
    return None


def total_clause(r):
    if r[0] == "err":
        return None if r[1] == "ValueError" else "raised %s, not ValueError" % r[1]
    if r[0] != "ok":
        return "result is not a 5-tuple"
    why = wf_desc(r)
    return None if why is None else "resolved to an ill-formed description: " + why


def exact_clause(e, r):
    """`r` = implementation outcome of from_name on a name labelled `e`."""
    k = e["kind"]
    if k.startswith("reject"):
        if r[0] == "ok":
            return "a name the statement says is always rejected resolved (%s)" % k
        return None
    if r[0] != "ok":
        return "well-formed name was rejected"
    _, t, length, precision, scale, elem = r
    if k == "base":
        want = (e["base"], None, None, None)
        got = (t, length, precision, scale)
        if got != want:
            return "base name resolved to another type or grew parameters"
        if elem is not None and t != "ARRAY":
            return "base name grew an element type"
        return None
    if k == "decimal":
        ok = (t, length, precision, scale, elem) == ("DECIMAL", None, e["p"], e["s"], None)
    elif k in ("varchar", "blob"):
        ok = (t, length, precision, scale, elem) == (k.upper(), e["n"], None, None, None)
    else:
        ok = (t, length, precision, scale, elem) == ("ARRAY", None, None, None, e["elem"])
    return None if ok else "well-formed name resolved to different parameters"


def column_clause(e, out):
    """`out` = implementation outcome of the column op on a name labelled well-formed."""
    col = out[0]
    if col[0] != "ok":
        return "column with a well-formed type name could not be declared"
    _, t, length, precision, scale, elem = col
    k = e["kind"]
    base = {"base": e.get("base"), "decimal": "DECIMAL", "varchar": "VARCHAR", "blob": "BLOB", "array": "ARRAY"}[k]
    if t != base:
        return "column does not carry the declared type"
    if k == "decimal" and (precision, scale) != (e["p"], e["s"]):
        return "column does not carry the declared precision/scale"
    if k in ("varchar", "blob") and length != e["n"]:
        return "column does not carry the declared length"
    if k == "array" and elem != e["elem"]:
        return "column does not carry the declared element type"
    if out[1] is None:
        return "DataFrame.description reports no type code for the column"
    back = out[2]
    if back[0] != "ok":
        return "reported type code does not resolve"
    if back[1] != t:
        return "reported type code resolves to another type"
    if t == "DECIMAL" and (back[3], back[4]) != (precision, scale):
        return "reported type code resolves to other DECIMAL parameters"
    if t == "ARRAY" and elem is not None and back[5] != elem:
        return "reported type code resolves to another element type"
    return None


NOT_COVERED_ELEMS = ("ARRAY", "DECIMAL", UNTYPED_MEMBER)


def typed_column_clause(out):
    """Any declared, typed column: a type code is reported and resolves back to the same type/parameters."""
    col = out[0]
    if col[0] != "ok":
        return None
    _, t, length, precision, scale, elem = col
    if not isinstance(t, str) or t == UNTYPED_MEMBER:
        return None  # untyped column (or the int 0 marker): not covered
    if elem is not None and (not isinstance(elem, str) or elem in NOT_COVERED_ELEMS):
        return None  # not a well-formed description: not covered
    if t == "DECIMAL" and not (isinstance(precision, int) and isinstance(scale, int) and 0 <= scale <= precision <= MAX_P):
        return None  # DECIMAL parameters given explicitly out of range: not a well-formed description either
    if out[1] is None:
        return "DataFrame.description reports no type code for a typed column (%s)" % (out[3] if len(out) > 3 else "None")
    back = out[2]
    if back[0] != "ok":
        return "reported type code of a typed column does not resolve"
    if back[1] != t:
        return "reported type code of a typed column resolves to another type"
    if t == "DECIMAL" and isinstance(precision, int) and isinstance(scale, int) and 0 <= scale <= precision <= MAX_P \
            and (back[3], back[4]) != (precision, scale):
        return "reported type code resolves to other DECIMAL parameters"
    if t == "ARRAY" and elem is not None and back[5] != elem:
        return "reported type code resolves to another element type"
    return None


def enum_clause(case, out):
    """A column declared with an OrsoTypes member carries what it was given."""
    col = out[0]
    if col[0] != "ok":
        return "column with an OrsoTypes member as type could not be declared"
    _, t, length, precision, scale, elem = col
    if t != case["type"]:
        return "column does not carry the declared type"
    if case.get("element_type") is not None and elem != case["element_type"]:
        return "column does not carry the declared element type"
    if case.get("precision") is not None and precision != case["precision"]:
        return "column does not carry the declared precision/scale"
    if case.get("scale") is not None and scale != case["scale"]:
        return "column does not carry the declared precision/scale"
    if case.get("length") is not None and length != case["length"]:
        return "column does not carry the declared length"
    return typed_column_clause(out)


SLOT = {"length": 2, "precision": 3, "scale": 4, "element_type": 5}


def explicit_clause(case, out):
    """A parameter given to the constructor is carried when the name itself does not specify that
    parameter (or specifies the same value).  What the name specifies is read off the implementation's own
    from_name.  A conflicting pair (name says 10, argument says 0) is left to the correspondence."""
    col = out[0]
    x = case.get("explicit") or {}
    if col[0] != "ok" or not x:
        return None
    parsed = impl_from_name(case["name"])
    if parsed[0] != "ok":
        return None
    for k, i in SLOT.items():
        v = x.get(k)
        if v is None:
            continue
        if parsed[i] is None or parsed[i] == v:
            if col[i] != v:
                return "column does not carry the explicitly given %s" % ("precision/scale" if k in ("precision", "scale") else k.replace("_", " "))
    return None


SLOT_WORDS = {"length": "length", "precision": "precision/scale", "scale": "precision/scale", "element_type": "element type"}


def route_clause(case, route, ref, got):
    """One route of the `routes` op.  `ref` = the implementation's own from_name(name)."""
    keys = case.get("keys") or {}
    e = case.get("expect")
    if got[0] == "err":
        if got[1] != "ValueError":
            return "raised %s, not ValueError" % got[1]
        if ref[0] == "ok" and all(v is None for v in keys.values()):
            return "a name that resolves could not be declared"
        return None
    if e is not None and e["kind"].startswith("reject"):
        return "a column was declared with a name the statement says is always rejected"
    if ref[0] != "ok" or not isinstance(ref[1], str) or ref[1] == UNTYPED_MEMBER:
        return None  # the name is rejected by from_name / untyped: only the exception class is demanded
    if got[1] != ref[1]:
        return "column does not carry the type the name resolves to"
    written = route in DICT_ROUTES and case["name"] == WRITTEN_ARRAY and "element_type" in keys and keys["element_type"] is None
    for k, i in SLOT.items():
        if k == "length" and route in ROW_COUNT_LENGTH:
            continue
        v = keys.get(k)
        if v is not None:
            # given next to the name: carried when the name does not specify it itself (or says the same)
            if (ref[i] is None or ref[i] == v) and got[i] != v:
                return "column does not carry the explicitly given %s" % SLOT_WORDS[k]
            continue
        if k == "element_type" and written:
            continue
        if ref[i] is None and ref[1] == "DECIMAL" and k in ("precision", "scale"):
            continue  # a bare DECIMAL: the constructor's defaults, `typed` judges them
        if got[i] != ref[i]:
            return "column does not carry the %s the name resolves to" % SLOT_WORDS[k]
    return None


def routes_clause(case, out):
    for r in ROUTES:
        c = route_clause(case, r, out["ref"], out["routes"][r])
        if c:
            return "declared through %s: %s" % (r, c)
    return None


def entries_clause(names, cols, desc, back, why, stable=True):
    """One description against the columns it describes (their names and observed attributes, in order)."""
    if any(c[0] != "ok" for c in cols):
        return None  # a column could not be declared: the `column` op deals with that
    if desc is None:
        if all(isinstance(c[1], str) for c in cols):
            return "DataFrame.description of a schema of declared columns failed (%s)" % why
        return None  # a column whose type is the int 0 has no `.value`: not covered
    if len(desc) != len(cols):
        return "DataFrame.description does not have one entry per column"
    for n, e in zip(names or [], desc):
        if e[0] != n:
            return "an entry of DataFrame.description does not bear the name of the column in its position"
    if not stable:
        return "DataFrame.description differs between two calls on the same frame"
    for c, e, b in zip(cols, desc, back):
        one = [c, e[1] if isinstance(e[1], str) else None, b, "type code %r" % (e[1],)]
        clause = typed_column_clause(one)
        if clause:
            return "in a schema of several columns: " + clause
    return None


def frame_clause(case, out):
    return entries_clause([sp["name"] for sp in case["columns"]], out["cols"], out["desc"], out["back"], out["why"], out["stable"])


def session_steps_info(case):
    """For every read of the session (in order): was the frame's schema edited since this frame was last read /
    since any frame was last read; has the frame been read before."""
    over, info = [], []
    last_read = {}      # frame -> index of the step of its last read
    last_edit = {}      # schema -> index of the step of its last edit
    last_any_read = -1
    for n, st in enumerate(case["steps"]):
        if st[0] == "frame":
            over.append(st[1])
        elif st[0] == "derive":
            over.append(over[st[1]])
        elif st[0] in ("redeclare", "edit", "rename"):
            last_edit[st[1]] = n
        elif st[0] == "read":
            k = st[1]
            j = over[k]
            info.append({"again_after_edit": k in last_read and last_edit.get(j, -1) > last_read[k],
                         "again": k in last_read,
                         "first_after_edit": k not in last_read and j in last_edit,
                         "other_frame_read_between": k in last_read and last_any_read != last_read[k]})
            last_read[k] = n
            last_any_read = n
    return info


def session_clause(case, out):
    if out["aborted"]:
        return None
    # a session that renames a column: column_names is kept per frame on the unchanged tree, so the name an entry
    # bears may be the one from before the rename - observed, compared with the model, not demanded; the type
    # codes are demanded as everywhere
    renames = any(st[0] == "rename" for st in case["steps"])
    for info, rd in zip(session_steps_info(case), out["reads"]):
        clause = entries_clause(None if renames else rd["names"], rd["cols"], rd["desc"], rd["back"], rd["why"])
        if clause:
            clause = clause.replace("in a schema of several columns: ", "")
            if info["again_after_edit"]:
                return "description read again on a frame after a column of its schema was redeclared: " + clause
            if info["again"]:
                return "description read again on a frame: " + clause
            if info["first_after_edit"]:
                return "description of a frame whose schema was edited before its first read: " + clause
            return "in a session of several frames: " + clause
    return None


def oracle(case, out):
    op = case["op"]
    if op == "column_enum":
        return enum_clause(case, out)
    if op == "column_arrow":
        return typed_column_clause(out)
    if op == "frame":
        return frame_clause(case, out)
    if op == "session":
        return session_clause(case, out)
    if op == "routes":
        return routes_clause(case, out)
    name = case["name"]
    e = case.get("expect")
    if op == "column" and case.get("explicit"):
        c = explicit_clause(case, out)
        if c:
            return c
        if out[1] is not None:
            c = total_clause(out[2])
            if c:
                return "type code: " + c
        return typed_column_clause(out)
    if op == "from_name":
        c = total_clause(out)
        if c:
            return c
        if e is not None:
            return exact_clause(e, out)
        return None
    # column
    if e is not None and not e["kind"].startswith("reject"):
        return column_clause(e, out) or typed_column_clause(out)
    if e is not None and out[0][0] == "ok":
        return "a column was declared with a name the statement says is always rejected"
    if out[1] is not None:
        c = total_clause(out[2])
        if c:
            return "type code: " + c
    return typed_column_clause(out)


# --------------------------------------------------------------------------- evaluation


def _valid_explicit(x):
    if x.get("element_type") is not None and x["element_type"] not in BASE + [UNTYPED_MEMBER]:
        return False
    return all(x.get(k) is None or (isinstance(x[k], int) and not isinstance(x[k], bool) and x[k] >= 0)
               for k in ("precision", "scale", "length"))


def _valid_typespec(spec):
    if not isinstance(spec, dict) or ("enum" in spec) == ("type" in spec):
        return False
    if "enum" in spec and spec["enum"] not in BASE + [UNTYPED_MEMBER]:
        return False
    if "type" in spec and not isinstance(spec["type"], str):
        return False
    if not _valid_explicit(spec):
        return False
    try:
        spec.get("type", "").encode("utf-8")
    except UnicodeEncodeError:
        return False
    return True


def _valid_colspec(spec):
    if not isinstance(spec, dict) or not isinstance(spec.get("name"), str):
        return False
    al = spec.get("aliases", [])
    if not isinstance(al, list) or not all(isinstance(a, str) for a in al):
        return False
    if not _valid_typespec({k: v for k, v in spec.items() if k not in ("name", "aliases")}):
        return False
    try:
        (spec["name"] + "".join(al)).encode("utf-8")
    except UnicodeEncodeError:
        return False
    return True


def _valid_session(c):
    """Schemas of valid columns; steps that refer to schemas / columns / live frames that exist."""
    schemas, steps = c.get("schemas"), c.get("steps")
    if not isinstance(schemas, list) or not isinstance(steps, list) or len(schemas) > 20 or len(steps) > 400:
        return False
    for cols in schemas:
        if not isinstance(cols, list) or len(cols) > 60 or not all(_valid_colspec(sp) for sp in cols):
            return False
    live = []

    def nat(x, bound):
        return isinstance(x, int) and not isinstance(x, bool) and 0 <= x < bound

    for st in steps:
        if not isinstance(st, list) or not st:
            return False
        k = st[0]
        if k == "frame" and len(st) == 2 and nat(st[1], len(schemas)):
            live.append(True)
        elif k == "derive" and len(st) == 3 and nat(st[1], len(live)) and live[st[1]] and st[2] in DERIVE:
            live.append(True)
        elif k == "drop" and len(st) == 2 and nat(st[1], len(live)) and live[st[1]]:
            live[st[1]] = False
        elif k == "read" and len(st) == 2 and nat(st[1], len(live)) and live[st[1]]:
            pass
        elif k in ("redeclare", "edit") and len(st) == 4 and nat(st[1], len(schemas)) and nat(st[2], len(schemas[st[1]])) \
                and _valid_typespec(st[3]):
            pass
        elif k == "rename" and len(st) == 5 and nat(st[1], len(schemas)) and nat(st[2], len(schemas[st[1]])) \
                and isinstance(st[3], str) and st[4] in ("inplace", "replace"):
            try:
                st[3].encode("utf-8")
            except UnicodeEncodeError:
                return False
        else:
            return False
    return True


def valid_case(c):
    if isinstance(c, dict) and c.get("op") == "column_enum":
        if c.get("type") not in BASE + [UNTYPED_MEMBER]:
            return False
        if c.get("element_type") is not None and c["element_type"] not in BASE + [UNTYPED_MEMBER]:
            return False
        return all(c.get(k) is None or (isinstance(c[k], int) and not isinstance(c[k], bool) and c[k] >= 0)
                   for k in ("precision", "scale", "length"))
    if isinstance(c, dict) and c.get("op") == "column_arrow":
        try:
            arrow_type(c.get("arrow"))
            return True
        except Exception:
            return False
    if isinstance(c, dict) and c.get("op") == "frame":
        cols = c.get("columns")
        if not isinstance(cols, list) or len(cols) > 200 or c.get("via") not in (None, "from_dict"):
            return False
        return all(_valid_colspec(spec) for spec in cols)
    if isinstance(c, dict) and c.get("op") == "session":
        return _valid_session(c)
    if isinstance(c, dict) and c.get("op") == "routes":
        keys = c.get("keys", {})
        if not isinstance(c.get("name"), str) or not isinstance(keys, dict) or set(keys) - set(SLOT) or not _valid_explicit(keys):
            return False
        try:
            c["name"].encode("utf-8")
        except UnicodeEncodeError:
            return False
        return c.get("expect") is None or label_valid(c["name"], c["expect"])
    if not isinstance(c, dict) or c.get("op") not in ("from_name", "column") or not isinstance(c.get("name"), str):
        return False
    if "explicit" in c:
        if c["op"] != "column" or not isinstance(c["explicit"], dict) or not _valid_explicit(c["explicit"]) \
                or set(c["explicit"]) - set(SLOT) or c.get("expect") is not None:
            return False
    try:
        c["name"].encode("utf-8")
    except UnicodeEncodeError:
        return False
    if "expect" in c and c["expect"] is not None and not label_valid(c["name"], c["expect"]):
        return False
    return True


def model_name(name):
    """Text sent to the model, or None when the model does not apply (non-ASCII after upper-casing)."""
    if is_ascii(name):
        return name
    u = name.upper()
    return u if is_ascii(u) else None


_ROWS = {}


def char_table(name):
    """What the interpreter under test does with each character of `name` (and of its upper-casings):
    [char, char.upper(), matches \\d, matches \\s, matches \\w, decimal value] - the model's `Chars`."""
    import unicodedata

    chars, todo = set(), set(name)
    while todo:
        ch = todo.pop()
        if ch in chars:
            continue
        chars.add(ch)
        todo |= set(ch.upper()) - chars
    rows = []
    for ch in sorted(chars):
        r = _ROWS.get(ch)
        if r is None:
            d = re.fullmatch(r"\d", ch) is not None
            r = [ch, ch.upper(), d, re.fullmatch(r"\s", ch) is not None, re.fullmatch(r"\w", ch) is not None,
                 unicodedata.decimal(ch, 0) if d else 0]
            _ROWS[ch] = r
        rows.append(r)
    return rows


def run_impl(c):
    if c["op"] == "column_enum":
        return impl_column_enum(c)
    if c["op"] == "column_arrow":
        return impl_column_arrow(c)
    if c["op"] == "frame":
        return impl_frame(c)
    if c["op"] == "session":
        return impl_session(c)
    if c["op"] == "routes":
        return impl_routes(c)
    return impl_from_name(c["name"]) if c["op"] == "from_name" else impl_column(c["name"], c.get("explicit"))


def evaluate_declared(ctx, cases):
    """column_enum / column_arrow: the implementation declares the column; the model is given the observed
    attributes and must report the same type code and the same resolution of it."""
    outs = [run_impl(c) for c in cases]
    idx, lines = [], []
    for i, (c, out) in enumerate(zip(cases, outs)):
        col = out[0]
        if c["op"] == "column_enum":
            # the model declares the column itself (TypeName.declareEnum: the extracted DECIMAL defaults)
            idx.append(i)
            lines.append("C06 enum " + wire.line(c["type"], c.get("element_type"), c.get("precision"), c.get("scale"), c.get("length")))
        elif col[0] == "ok" and all(not isinstance(x, dict) for x in col):
            idx.append(i)
            lines.append("C06 code " + wire.line(*col[1:]))
    mouts = dict(zip(idx, ctx.model.batch(lines)))
    for i, (c, out) in enumerate(zip(cases, outs)):
        ctx.case(c, nontrivial=True)
        ctx.hit("op:" + c["op"])
        ctx.hit("outcome:" + (out[0][0] if out[0][0] != "err" else "err:" + out[0][1]))
        if out[0][0] == "ok" and out[0][1] == "ARRAY" and out[0][5] is None:
            ctx.hit("array-column-without-element-type")
        clause = oracle(c, out)
        m = None
        if i in mouts:
            ctx.hit("compared-with-model")
            if not mouts[i].startswith("ok "):
                raise InfraError("model rejected case %r: %r" % (c, mouts[i]))
            m = wire.dec_all(mouts[i][3:])
        if clause is not None:
            ctx.fail(c, clause, impl=out, model=m)
        elif m is not None and not wire.same(_plain(out[:3] if c["op"] == "column_enum" else out[1:3]), _plain(m)):
            ctx.disagree(c, out, m)


def _frame_plain(out):
    """Are the observed attributes of every column plain values the model can be given?"""
    return all(col[0] == "ok" and not any(isinstance(x, dict) for x in col) for col in out["cols"])


def evaluate_frames(ctx, cases):
    outs = [run_impl(c) for c in cases]
    idx, lines = [], []
    for i, (c, out) in enumerate(zip(cases, outs)):
        if not _frame_plain(out):
            continue
        cols = [[sp["name"], list(sp.get("aliases") or [])] + col[1:] for sp, col in zip(c["columns"], out["cols"])]
        idx.append(i)
        lines.append("C06 describe " + wire.line(cols))
    mouts = dict(zip(idx, ctx.model.batch(lines)))
    for i, (c, out) in enumerate(zip(cases, outs)):
        n = len(c["columns"])
        ctx.case(c, nontrivial=n > 0)
        ctx.hit("op:frame")
        ctx.hit("frame-built-by:" + (c.get("via") or "FlatColumn(...)"))
        ctx.hit("frame-columns:" + (str(n) if n < 4 else "4-9" if n < 10 else "10+"))
        names = [sp["name"] for sp in c["columns"]]
        coll_later = any(names[i_] in (c["columns"][j].get("aliases") or []) for i_ in range(n) for j in range(i_ + 1, n))
        coll_earlier = any(names[i_] in (c["columns"][j].get("aliases") or []) for i_ in range(n) for j in range(i_))
        if coll_later:
            ctx.hit("frame:later-column-alias-equals-earlier-name")
        if coll_earlier:
            ctx.hit("frame:earlier-column-alias-equals-later-name")
        if len(set(names)) < n:
            ctx.hit("frame:two-columns-same-name")
        if any(sp.get("aliases") for sp in c["columns"]) and not (coll_later or coll_earlier):
            ctx.hit("frame:aliases-without-collision")
        ctx.hit("frame-outcome:" + ("described" if out["desc"] is not None else (out["why"] or "none")))
        clause = oracle(c, out)
        m = None
        if i in mouts:
            ctx.hit("compared-with-model")
            if not mouts[i].startswith("ok "):
                raise InfraError("model rejected case %r: %r" % (c, mouts[i]))
            m = wire.dec_all(mouts[i][3:])[0]
        if clause is not None:
            c_min = c
            if not ctx.replaying:
                words = {w for sp in c["columns"] for w in [sp["name"], sp.get("type")] + list(sp.get("aliases") or [])}

                def still(c2):
                    # keep the names, aliases and type names whole: a replay should read like a schema
                    if not (valid_case(c2) and c2.get("op") == "frame"):
                        return False
                    if any(w not in words for sp in c2["columns"] for w in [sp["name"], sp.get("type")] + list(sp.get("aliases") or [])):
                        return False
                    return oracle(c2, run_impl(c2)) == clause
                c_min = shrink(c, still, budget=400)
            ctx.fail(c_min, clause, impl=run_impl(c_min), model=m if c_min is c else None)
        elif m is not None and not wire.same(_plain(out["desc"]), _plain(m)):
            ctx.disagree(c, out, m)


def _strings(x, acc):
    if isinstance(x, str):
        acc.add(x)
    elif isinstance(x, dict):
        for v in x.values():
            _strings(v, acc)
    elif isinstance(x, (list, tuple)):
        for v in x:
            _strings(v, acc)
    return acc


def evaluate_sessions(ctx, cases):
    outs = [run_impl(c) for c in cases]
    idx, lines = [], []
    for i, (c, out) in enumerate(zip(cases, outs)):
        if out["aborted"]:
            continue
        flat = [x for sc in out["schemas"] for col in sc for x in col[2:]] + \
               [x for st in out["msteps"] if st[0] == "set" for x in st[3:]]
        if any(isinstance(x, dict) for x in flat):
            continue
        idx.append(i)
        lines.append("C06 session " + wire.line(out["schemas"], out["msteps"]))
    mouts = dict(zip(idx, ctx.model.batch(lines)))
    for i, (c, out) in enumerate(zip(cases, outs)):
        info = session_steps_info(c)
        ctx.case(c, nontrivial=len(info) > 0)
        ctx.hit("op:session")
        if out["aborted"]:
            ctx.hit("session-outcome:aborted (%s)" % out["aborted"])
        else:
            kinds = {st[0] for st in c["steps"]}
            n_frames = sum(1 for st in c["steps"] if st[0] in ("frame", "derive"))
            ctx.hit("session-frames:" + (str(n_frames) if n_frames < 4 else "4+"))
            ctx.hit("session-reads:" + (str(len(info)) if len(info) < 4 else "4-9" if len(info) < 10 else "10+"))
            ctx.hit("session-schemas:" + str(min(len(c["schemas"]), 3)) + ("+" if len(c["schemas"]) >= 3 else ""))
            for key in ("again_after_edit", "again", "first_after_edit", "other_frame_read_between"):
                n = sum(1 for x in info if x[key])
                if n:
                    ctx.hit("session-read:" + key.replace("_", "-"), n)
            stale = sum(1 for rd in out["reads"] if rd["desc"] is not None and [e[0] for e in rd["desc"]] != rd["names"])
            if stale:
                ctx.hit("session-read:entry-bears-the-name-from-before-a-rename (observed, not judged)", stale)
            for kd in ("redeclare", "edit", "derive", "drop", "rename"):
                if kd in kinds:
                    ctx.hit("session-with:" + kd)
            if out["id_reused"]:
                ctx.hit("session:new-frame-at-the-address-of-a-dropped-one")
            if len(c["schemas"]) > 1 and any(c["schemas"][a] == c["schemas"][b] for a in range(len(c["schemas"]))
                                             for b in range(a)):
                ctx.hit("session:schemas-of-equal-content")
            if not any(x["again_after_edit"] or x["first_after_edit"] for x in info):
                ctx.hit("session:no-read-after-an-edit (control)")
        clause = oracle(c, out)
        m = None
        if i in mouts:
            ctx.hit("compared-with-model")
            if not mouts[i].startswith("ok "):
                raise InfraError("model rejected case %r: %r" % (c, mouts[i]))
            m = wire.dec_all(mouts[i][3:])[0]
        if clause is not None:
            c_min = c
            if not ctx.replaying:
                words = _strings(c, set())

                def still(c2):
                    # names and type names stay whole: a replay should read like a session on a schema
                    if not (valid_case(c2) and c2.get("op") == "session") or _strings(c2, set()) - words:
                        return False
                    return oracle(c2, run_impl(c2)) == clause
                c_min = shrink(c, still, budget=600)
            ctx.fail(c_min, clause, impl=run_impl(c_min), model=m if c_min is c else None)
        elif m is not None and not wire.same(_plain([rd["desc"] for rd in out["reads"]]), _plain(m)):
            ctx.disagree(c, out, m)


def evaluate(ctx, cases):
    for c in cases:
        if not valid_case(c):
            raise InfraError("generator produced an invalid case %r" % (c,))
    declared = [c for c in cases if c["op"] in ("column_enum", "column_arrow")]
    if declared:
        evaluate_declared(ctx, declared)
    frames = [c for c in cases if c["op"] == "frame"]
    if frames:
        evaluate_frames(ctx, frames)
    sessions = [c for c in cases if c["op"] == "session"]
    if sessions:
        evaluate_sessions(ctx, sessions)
    routes = [c for c in cases if c["op"] == "routes"]
    if routes:
        evaluate_routes(ctx, routes)
    cases = [c for c in cases if c["op"] in ("from_name", "column")]
    idx, lines = [], []
    for i, c in enumerate(cases):
        mn = model_name(c["name"])
        if c["op"] == "from_name" and not is_ascii(c["name"]):
            # any Python str: the model runs over the interpreter's own Unicode tables (TypeName.fromNameU)
            idx.append(i)
            lines.append("C06 from_name_u " + wire.line(c["name"], char_table(c["name"])))
        elif mn is not None:
            idx.append(i)
            x = c.get("explicit")
            if x:
                lines.append("C06 column_x " + wire.line(mn, x.get("element_type"), x.get("precision"), x.get("scale"), x.get("length")))
            else:
                lines.append("C06 %s %s" % (c["op"], wire.line(mn)))
    mouts = dict(zip(idx, ctx.model.batch(lines)))
    for i, c in enumerate(cases):
        name = c["name"]
        out = run_impl(c)
        ctx.case(c, nontrivial=len(name) > 0)
        ctx.hit("op:" + c["op"])
        ctx.hit("label:" + (c["expect"]["kind"] if c.get("expect") else "none"))
        if c.get("explicit"):
            ctx.hit("column-with-explicit-parameters")
            if any(v == 0 for v in c["explicit"].values()):
                ctx.hit("column-with-explicit-zero")
        ctx.hit("ascii" if is_ascii(name) else ("unicode-through-the-interpreters-tables" if c["op"] == "from_name" else
                                                 "unicode-ascii-upper" if i in mouts else "unicode"))
        first = out if c["op"] == "from_name" else out[0]
        ctx.hit("outcome:" + (first[0] if first[0] != "err" else "err:" + first[1]))
        if not is_ascii(name) and first[0] == "ok":
            ctx.hit("unicode-name-resolves")
        if c["op"] == "column" and first[0] == "ok" and first[1] == "ARRAY" and first[5] is None:
            ctx.hit("array-column-without-element-type")
        clause = oracle(c, out)
        m = None
        if i in mouts:
            ctx.hit("compared-with-model")
            mo = mouts[i]
            if not mo.startswith("ok "):
                raise InfraError("model rejected case %r: %r" % (c, mo))
            m = wire.dec_all(mo[3:])
            m = m[0] if c["op"] == "from_name" else m
        if clause is not None:
            c_min = c
            if not ctx.replaying and "expect" not in c:
                def still(c2):
                    if not valid_case(c2) or "expect" in c2:
                        return False
                    return oracle(c2, run_impl(c2)) == clause
                c_min = shrink(c, still)
            ctx.fail(c_min, clause, impl=run_impl(c_min), model=m if c_min is c else None)
        elif m is not None:
            cmp_out = out[:3] if c["op"] == "column" else out
            if not wire.same(_plain(cmp_out), _plain(m)):
                ctx.disagree(c, out, m)


def evaluate_routes(ctx, cases):
    """Every declaration route for one name (and dictionary keys): the oracle reads the name's parameters off the
    implementation's own from_name; the model (TypeName.declare) declares the column itself when no key is given a value."""
    outs = [run_impl(c) for c in cases]
    idx, lines = [], []
    for i, c in enumerate(cases):
        keys = c.get("keys") or {}
        mn = model_name(c["name"])
        written = c["name"] == WRITTEN_ARRAY and "element_type" in keys
        if mn is not None and all(v is None for v in keys.values()) and not written:
            idx.append(i)
            lines.append("C06 column " + wire.line(mn))
    mouts = dict(zip(idx, ctx.model.batch(lines)))
    for i, (c, out) in enumerate(zip(cases, outs)):
        keys = c.get("keys") or {}
        ctx.case(c, nontrivial=len(c["name"]) > 0)
        ctx.hit("op:routes")
        ctx.hit("routes-keys:" + ("none" if not keys else "all-null" if all(v is None for v in keys.values()) else "values"))
        ref = out["ref"]
        ctx.hit("routes-name:" + ("rejected" if ref[0] != "ok" else "untyped" if not isinstance(ref[1], str) or ref[1] == UNTYPED_MEMBER
                                  else "typed"))
        if c["name"] == WRITTEN_ARRAY and "element_type" not in keys:
            ctx.hit("routes:bare-ARRAY-declared-without-element_type-key")
        clause = oracle(c, out)
        m = None
        if i in mouts:
            ctx.hit("compared-with-model")
            if not mouts[i].startswith("ok "):
                raise InfraError("model rejected case %r: %r" % (c, mouts[i]))
            m = wire.dec_all(mouts[i][3:])[0]
        if clause is not None:
            c_min = c
            if not ctx.replaying:
                def still(c2):
                    return valid_case(c2) and c2.get("op") == "routes" and oracle(c2, run_impl(c2)) == clause
                for k in list(keys):
                    c2 = dict(c_min, keys={k2: v for k2, v in c_min["keys"].items() if k2 != k})
                    if not c2["keys"]:
                        del c2["keys"]
                    if still(c2):
                        c_min = c2
                if "expect" not in c_min:
                    c_min = shrink(c_min, still, budget=200)
            ctx.fail(c_min, clause, impl=run_impl(c_min), model=m if c_min is c else None)
        elif m is not None:
            for r in ROUTES:
                got = out["routes"][r]
                want = m
                if r in DICT_ROUTES and c["name"] == WRITTEN_UNTYPED and m[0] == "ok":
                    want = [m[0], UNTYPED_MEMBER] + m[2:]
                if r in ROW_COUNT_LENGTH and got[0] == "ok" and m[0] == "ok":
                    want = want[:2] + [got[2]] + want[3:]
                if not wire.same(_plain(got), _plain(want)):
                    ctx.disagree(c, out, m)
                    break


def _plain(x):
    if isinstance(x, dict):
        return ["__other__", repr(x)]
    if isinstance(x, (list, tuple)):
        return [_plain(v) for v in x]
    return x


# --------------------------------------------------------------------------- generators


def all_cases_of(word):
    letters = [i for i, ch in enumerate(word) if ch.isalpha()]
    for mask in range(1 << len(letters)):
        s = list(word)
        for b, i in enumerate(letters):
            if mask >> b & 1:
                s[i] = s[i].lower()
        yield "".join(s)


def case_classes(word):
    """upper, lower, capitalised, the two alternating patterns, one lower letter at each end."""
    out = [word.upper(), word.lower(), word.capitalize()]
    out.append("".join(ch.lower() if i % 2 else ch.upper() for i, ch in enumerate(word)))
    out.append("".join(ch.upper() if i % 2 else ch.lower() for i, ch in enumerate(word)))
    out.append(word[:-1].upper() + word[-1:].lower())
    seen, res = set(), []
    for o in out:
        if o not in seen:
            seen.add(o)
            res.append(o)
    return res


def both_ops(name, expect=None):
    for op in ("from_name", "column"):
        c = {"op": op, "name": name}
        if expect is not None:
            c["expect"] = expect
        yield c


def labelled(name, expect=None):
    """Cases for `name`; when no label is given, attach a reject label if the statement demands one."""
    if expect is None:
        expect = auto_reject_label(name)
    return both_ops(name, expect)


def boundary_widths():
    ws = set(range(0, 301))
    for k in range(1, 70):
        ws.update((2**k - 1, 2**k, 2**k + 1))
    for k in range(1, 40):
        ws.update((10**k - 1, 10**k, 10**k + 1))
    md = max_digits() or 4300
    ws.update((10 ** (md - 1), 10**md - 1, 10**639, 10**640))
    return sorted(ws)


ELEMENTS_EXTRA = ["", " ", " INTEGER", "INTEGER ", "INTEGER\t", "VARCHAR[10]", "BLOB[1]", "DECIMAL(10,2)", "DECIMAL(10, 2)",
                  "ARRAY<INTEGER>", "ARRAY<INTEGER", "LIST<INTEGER>", "FOO", "INT", "INTEGERS", "TIMES", "TIMESTAMPS", "DATETIME",
                  "(INTEGER)", "[INTEGER]", "INTEGER[]", "INTEGER()", "1", "_", "__", "VARCHAR VARCHAR", "ARRAYS", "DECIMALS",
                  "STRINGS", "NUMERICAL", "LISTING", "BSONS", "BOOL", "FLOAT", "TEXT", "STR", "NONE", "NULLS"]


def exhaustive_cases(ctx):
    thorough = ctx.tier == "thorough"
    # 1. every base type name in EVERY letter-case pattern
    for b in BASE:
        for n in all_cases_of(b):
            yield from both_ops(n, {"kind": "base", "base": b})
    # aliases and the untyped spellings: every case pattern of the short ones, classes of the long one
    for a in ALIASES:
        pats = all_cases_of(a) if len(a) <= 8 else case_classes(a)
        for n in pats:
            yield from labelled(n)
    # 2. DECIMAL(p,s) over 0..45 x 0..45
    for p in range(46):
        for s in range(46):
            good = 0 <= s <= p <= MAX_P
            canon = "DECIMAL(%d,%d)" % (p, s)
            variants = case_classes(canon) if (thorough or (p + s) % 7 == 0 or p in (0, 38, 39) or s in (0, p, p + 1)) else [canon]
            for n in variants:
                yield from both_ops(n, {"kind": "decimal", "p": p, "s": s} if good else {"kind": "reject-decimal"})
            # the pattern tolerates whitespace after the comma and anything after the `)`:
            # resolution is then only compared with the model; rejection is still demanded
            if thorough or (p * 46 + s) % 5 == 0:
                for n in ("DECIMAL(%d, %d)" % (p, s), "decimal(%d,\t %d) x" % (p, s), "DECIMAL(%02d,%03d)" % (p, s)):
                    yield from labelled(n)
    # 3. VARCHAR[n] / BLOB[n] over a dense range plus boundary widths
    for n in boundary_widths():
        for k in ("varchar", "blob"):
            canon = "%s[%d]" % (k.upper(), n)
            for nm in (case_classes(canon) if (thorough or n < 40 or n % 10 == 0) else [canon, canon.lower()]):
                if len(nm) > 1000 and nm not in (canon, canon.lower()):
                    continue
                yield from both_ops(nm, {"kind": k, "n": n})
    md = max_digits()
    if md:
        for k in ("VARCHAR", "BLOB"):
            yield from labelled("%s[%s]" % (k, "9" * (md + 1)))        # one digit too many for int(): ValueError
            yield from labelled("%s[%s1]" % (k, "0" * md))
            yield from labelled("%s[%s1]" % (k, "0" * (md - 1)))
        yield from labelled("DECIMAL(%s1,%s2)" % ("0" * md, "0" * 5))
        yield from labelled("DECIMAL(10,%s2)" % ("0" * md))
    # 4. ARRAY<T> over every type name and alias, every parameterised / nested form
    elems = BASE + ALIASES + ELEMENTS_EXTRA
    for t in elems:
        canon = "ARRAY<%s>" % t
        for n in case_classes(canon):
            u = ascii_upper(n)
            exp = {"kind": "array", "elem": t} if (t in SCALAR and u == canon) else None
            yield from labelled(n, exp)
        for n in ("ARRAY<%s>>" % t, "ARRAY<%s> " % t, "ARRAY<%s" % t, "ARRAY <%s>" % t, "LIST<%s>" % t, "array<%s>x" % t.lower()):
            yield from labelled(n)
    # 5. every ASCII character in every position class of the four patterns
    for o in range(128):
        ch = chr(o)
        for n in ("ARRAY<%s>" % ch, "ARRAY<INTEGER%s>" % ch, "ARRAY<%sDATE>" % ch, "DECIMAL(1,%s2)" % ch, "DECIMAL(1%s,2)" % ch,
                  "DECIMAL(1%s2)" % ch, "DECIMAL(10,2%s)" % ch, "DECIMAL(10,2)%s" % ch, "VARCHAR[1%s]" % ch, "VARCHAR[12]%s" % ch,
                  "VARCHAR[%s]" % ch, "BLOB[%s7]" % ch, "BLOB[7%s" % ch, "INTEGER%s" % ch, "%sINTEGER" % ch, "DEC%sIMAL" % ch, ch, ch + ch):
            yield from labelled(n)
    # 6. columns declared with an OrsoTypes member (with / without element type, precision, scale, length)
    yield from enum_cases(thorough)
    # 7. columns built from Arrow fields (FlatColumn.from_arrow), incl. lists of unmapped value types
    for spec in ARROW_SPECS:
        yield {"op": "column_arrow", "arrow": spec}
    # 8. a type name next to explicit constructor arguments (none / zero / a value for each)
    yield from explicit_cases(thorough)
    # 9. schemas of several columns whose names and aliases collide in every way
    yield from frame_cases(thorough)
    # 10. sessions: frames over shared schemas, columns redeclared between reads of description
    yield from session_cases(thorough)
    # 11. strings special to a formatting / templating / regex layer on the error path, wrong-bracket forms of valid names,
    #     very long names, NUL - through both routes of the totality clause
    for n in format_special_names(thorough):
        yield from labelled(n)
    # 12. every type-name form through every declaration route (keyword constructor, from_dict, RelationSchema.from_dict,
    #     from_json, the subclasses), without and with parameter keys in the dictionary
    yield from routes_cases(thorough)


# --- strings that are special to a layer a REJECTED name may be passed through on the error path (str.format, the %
# operator, string.Template, re), very long names, NUL; wrong-bracket forms of every valid name
BRACKETS = [("<", ">"), ("(", ")"), ("[", "]"), ("{", "}")]
FORMAT_SPECIALS = ["{x}", "{}", "{0}", "{1}", "{0!r}", "{:>10}", "{names}", "{name}", "{type}", "{{}}", "{{x}}", "{", "}", "}{", "{}{}",
                   "{0.real}", "{x[0]}", "{x.__class__}", "%s", "%d", "%r", "%(x)s", "%(name)s", "%", "%%", "%%s", "%5.2f", "%c", "%*d",
                   "%s%s", "100%", "\\", "\\d", "\\1", "\\g<0>", "\\N{DIGIT ONE}", "\\u0041", "\\x41", "$name", "${name}", "$", "$$",
                   ".*", "(?P<x>", "(?i)integer", "INTEGER|DATE", "^INTEGER$", "a{2}", "a{2,3}", "[a-z]", "(", ")", "[", "]", "*", "+",
                   "?", "\x00", "INTEGER\x00", "\x00INTEGER", "INT\x00EGER", "'", "''", '"', "{'x'}", "#{x}", "<%= x %>", "{% x %}"]


def wrong_brackets(canon):
    """`canon` with its bracket pair swapped for every other pair, half-swapped, doubled, and its inside wrapped."""
    for o, c in BRACKETS:
        if o in canon and c in canon:
            i, j = canon.index(o), canon.rindex(c)
            head, inner, tail = canon[:i], canon[i + 1:j], canon[j + 1:]
            for o2, c2 in BRACKETS:
                if (o2, c2) != (o, c):
                    yield head + o2 + inner + c2 + tail
                    yield head + o + inner + c2 + tail
                    yield head + o2 + inner + c + tail
                yield head + o + o2 + inner + c2 + c + tail
            break


def format_special_names(thorough):
    seen = set()

    def once(n):
        if n not in seen:
            seen.add(n)
            return True
        return False
    valid = ["ARRAY<%s>" % t for t in SCALAR] + ["DECIMAL(10,2)", "DECIMAL(38,38)", "DECIMAL(0,0)", "VARCHAR[10]", "VARCHAR[0]", "BLOB[7]"]
    for n in FORMAT_SPECIALS:
        for m in (n, "ARRAY<%s>" % n, "INTEGER" + n, n + "INTEGER", "DECIMAL(10,2)" + n, "VARCHAR[%s]" % n, "DECIMAL(%s,2)" % n):
            if once(m):
                yield m
    for canon in valid:
        for m in wrong_brackets(canon):
            for v in (m, m.lower()):
                if once(v):
                    yield v
    for b in BASE + ALIASES:
        for o, c in BRACKETS:
            for m in (o + b + c, b + o + c, b + o + "0" + c, b + o + "10,2" + c, o + c + b, b + o, b + c, "ARRAY<" + o + b + c + ">"):
                if once(m):
                    yield m
        for m in ("%" + b, b + "%s", b + "%", "%(" + b + ")s", "$" + b, "\\" + b):
            if once(m):
                yield m
    big = 20000 if thorough else 5000
    for m in ("A" * big, "{" * big, "}" * big, "{}" * (big // 2), "%s" * (big // 2), "%" * big, "INTEGER" * (big // 7), "\x00" * big,
              "ARRAY<" + "A" * big + ">", "ARRAY<" * (big // 6), "((((" * (big // 4), "{0}" * (big // 3), "\\" * big,
              "INTEGER" + " " * big, "DECIMAL(10,2)" + "{" * big):
        if once(m):
            yield m


ROUTE_KEYS = [{}, {"element_type": None}, {"length": None, "precision": None, "scale": None, "element_type": None},
              {"length": None}, {"precision": None, "scale": None}, {"element_type": "INTEGER"}, {"element_type": "VARCHAR"},
              {"precision": 5, "scale": 0}, {"length": 0}, {"length": 7, "element_type": None}]


def routes_names(thorough):
    """Every type-name form: bare (every letter case of ARRAY and of the short names, classes of the others), aliases,
    parameterised at the boundaries, ARRAY<T> over every name and alias; a few names that are rejected."""
    for b in BASE:
        for n in (all_cases_of(b) if (b == "ARRAY" or len(b) <= 4 or thorough) else case_classes(b)):
            yield n, {"kind": "base", "base": b}
    for a in ALIASES:
        for n in case_classes(a):
            yield n, None
    for p, q in [(0, 0), (1, 0), (1, 1), (10, 2), (28, 21), (38, 0), (38, 37), (38, 38), (39, 0), (5, 6), (38, 39), (100, 2)]:
        canon = "DECIMAL(%d,%d)" % (p, q)
        for n in case_classes(canon) + ["DECIMAL(%d, %d)" % (p, q)]:
            yield n, ({"kind": "decimal", "p": p, "s": q} if (0 <= q <= p <= MAX_P and ascii_upper(n) == canon) else None)
    for w in (0, 1, 10, 255, 65535, 2**31, 2**63, 10**20):
        for k in ("varchar", "blob"):
            for n in case_classes("%s[%d]" % (k.upper(), w)):
                yield n, {"kind": k, "n": w}
    for t in BASE + ALIASES + ["VARCHAR[10]", "DECIMAL(10,2)", "ARRAY<DATE>", "FOO", ""]:
        canon = "ARRAY<%s>" % t
        for n in case_classes(canon):
            yield n, ({"kind": "array", "elem": t} if (t in SCALAR and ascii_upper(n) == canon) else None)
    for n in ["", " ", "FOO", "INT", " INTEGER", "INTEGER ", "ARRAY ", " ARRAY", "ARRAY<>", "ARRAY<", "LIST<INTEGER>", "VARCHAR[]",
              "DECIMAL()", "DECIMAL(10)", "None", "null", "ınteger", "ARRAY<ınteger>", "DECIMAL(١٠,٢)", "ARRAY\x00", "{x}", "{}", "%s",
              "ARRAY{}", "ARRAY<{INTEGER}>", "VARCHAR{10}", "DECIMAL{10,2}"]:
        yield n, None


def routes_cases(thorough):
    for n, exp in routes_names(thorough):
        if exp is None:
            exp = auto_reject_label(n)
        for keys in ROUTE_KEYS:
            c = {"op": "routes", "name": n}
            if keys:
                c["keys"] = dict(keys)
            if exp is not None:
                c["expect"] = exp
            yield c
    for n in format_special_names(thorough):
        if len(n) <= 64:
            yield {"op": "routes", "name": n}


def random_routes(ctx):
    rng = ctx.rng
    r = rng.random()
    if r < 0.5:
        name = rng.choice(seeds())
        if rng.random() < 0.5:
            name = "".join(ch.swapcase() if rng.random() < 0.4 else ch for ch in name)
    elif r < 0.6:
        name = rng.choice(FORMAT_SPECIALS)
    else:
        name = random_name(ctx)
    try:
        name.encode("utf-8")
    except UnicodeEncodeError:
        name = "ARRAY"
    keys = {}
    if rng.random() < 0.6:
        for k in SLOT:
            x = rng.random()
            if x < 0.25:
                keys[k] = None
            elif x < 0.35:
                keys[k] = rng.choice(SCALAR) if k == "element_type" else rng.choice([0, 1, 5, 38])
    c = {"op": "routes", "name": name}
    if keys:
        c["keys"] = keys
    exp = auto_reject_label(name)
    if exp is not None:
        c["expect"] = exp
    return c


ARROW_SPECS = ["int8", "int32", "int64", "uint16", "float32", "float64", "bool", "string", "large_string", "binary", "date32",
               "date64", "null", "timestamp", "time32", "time64", "duration", "struct", "decimal128(10,2)", "decimal128(38,0)",
               "decimal128(38,38)", "decimal128(1,0)", "decimal128(5,5)"]
ARROW_SPECS += ["list<%s>" % t for t in ARROW_SPECS] + ["large_list<int64>", "large_list<struct>", "large_list<decimal128(10,2)>",
                                                        "list<list<int64>>", "list<list<decimal128(10,2)>>", "list<large_list<string>>"]


def enum_case(t, **kw):
    c = {"op": "column_enum", "type": t}
    c.update({k: v for k, v in kw.items() if v is not None})
    return c


def enum_cases(thorough):
    """Every OrsoTypes member passed as the enum, with and without element type / precision / scale / length."""
    import decimal

    members = BASE + [UNTYPED_MEMBER]
    for t in members:
        yield enum_case(t)
        for e in members:
            if t == "ARRAY" or thorough or e in ("VARCHAR", "INTEGER"):
                yield enum_case(t, element_type=e)
        for n in (0, 1, 12, 255, 65535, 10**20):
            if t in ("VARCHAR", "BLOB", "ARRAY") or n == 12:
                yield enum_case(t, length=n)
    for e in members:
        yield enum_case("ARRAY", element_type=e, length=3)
    # DECIMAL: every in-range (p, s); p alone (scale defaults to int(0.75 p)); s alone (precision defaults to the context's)
    for p in range(MAX_P + 1):
        yield enum_case("DECIMAL", precision=p)
        for s in range(p + 1):
            yield enum_case("DECIMAL", precision=p, scale=s)
    for s in range(min(decimal.getcontext().prec, MAX_P) + 1):
        yield enum_case("DECIMAL", scale=s)


EXPLICIT_NAMES = ["DECIMAL", "decimal", "DECIMAL(10,2)", "DECIMAL(0,0)", "DECIMAL(38,38)", "VARCHAR", "VARCHAR[5]", "varchar[0]",
                  "BLOB", "BLOB[0]", "ARRAY", "ARRAY<INTEGER>", "array<varchar>", "LIST", "INTEGER", "NUMERIC", "VARIANT",
                  "_MISSING_TYPE", "STRING", "DECIMAL(5,6)"]


def explicit_cases(thorough):
    """A type name together with explicit constructor arguments: every combination of none / zero / a value."""
    # first the arguments that belong to the type (so that a replay reads naturally), then the full product
    for name in ("DECIMAL", "decimal", "NUMERIC"):
        for p in (0, 1, 10, 38):
            yield {"op": "column", "name": name, "explicit": {"precision": p}}
            for q in (0, 1, p):
                if q <= p:
                    yield {"op": "column", "name": name, "explicit": {"precision": p, "scale": q}}
        for q in (0, 3, 21):
            yield {"op": "column", "name": name, "explicit": {"scale": q}}
    for name in ("VARCHAR", "BLOB", "varchar", "VARCHAR[5]", "BLOB[0]"):
        for n in (0, 1, 5, 255):
            yield {"op": "column", "name": name, "explicit": {"length": n}}
    for name in ("LIST", "list", "ARRAY", "ARRAY<INTEGER>", "array<varchar>"):
        for e in SCALAR:
            yield {"op": "column", "name": name, "explicit": {"element_type": e}}
    ps = [None, 0, 1, 10, 38]
    ss = [None, 0, 2]
    ls = [None, 0, 7]
    es = [None, "INTEGER", "VARCHAR"] + (["ARRAY", "DECIMAL", UNTYPED_MEMBER] if thorough else [])
    for name in EXPLICIT_NAMES:
        for p in ps:
            for q in ss:
                for n in ls:
                    for e in es:
                        x = {k: v for k, v in (("precision", p), ("scale", q), ("length", n), ("element_type", e)) if v is not None}
                        if x:
                            yield {"op": "column", "name": name, "explicit": x}


FRAME_TYPES = [{"type": "INTEGER"}, {"type": "DECIMAL(10,2)"}, {"type": "DECIMAL(38,0)"}, {"type": "decimal(5,5)"},
               {"type": "DECIMAL(0,0)"}, {"type": "VARCHAR"}, {"type": "VARCHAR[12]"}, {"type": "ARRAY<INTEGER>"},
               {"type": "array<varchar>"}, {"type": "LIST"}, {"type": "ARRAY"}, {"type": "DOUBLE"}, {"type": "BLOB[3]"},
               {"type": "TIMESTAMP"}, {"type": "NUMERIC"}, {"enum": "DECIMAL", "precision": 0}, {"enum": "DECIMAL", "scale": 3},
               {"enum": "ARRAY", "element_type": "DATE"}, {"enum": "ARRAY"}, {"enum": "JSONB"}, {"enum": UNTYPED_MEMBER}]

# names and aliases of two columns: no aliases; the LATER column has the earlier one's name as an alias;
# the EARLIER column has the later one's name as an alias; both; the same name twice; unrelated aliases;
# a column with its own name as an alias; each has both names; names that differ in case only
FRAME_PATTERNS = [
    (("a", []), ("b", [])), (("a", []), ("b", ["a"])), (("a", ["b"]), ("b", [])), (("a", ["b"]), ("b", ["a"])),
    (("a", []), ("a", [])), (("a", ["x"]), ("b", ["y"])), (("a", ["a"]), ("b", ["b"])), (("a", ["b", "a"]), ("b", ["a", "b"])),
    (("a", []), ("A", ["a"])), (("a", ["x"]), ("b", ["x"])), (("", ["b"]), ("b", [""])), (("é", []), ("b", ["é"])),
]


def _col(name, aliases, ty):
    c = {"name": name, "aliases": list(aliases)}
    c.update(ty)
    return c


def frame_cases(thorough):
    """Schemas of several columns: every pair of type forms under every name/alias pattern, collisions
    in every position of three columns, wide schemas whose aliases chain forwards and backwards, empty."""
    types = FRAME_TYPES if thorough else FRAME_TYPES[:15] + FRAME_TYPES[17:18]
    for (n0, a0), (n1, a1) in FRAME_PATTERNS:
        for t0 in types:
            for t1 in types:
                if thorough or t0 != t1 or (n0, a0, n1, a1) == ("a", [], "b", []):
                    yield {"op": "frame", "columns": [_col(n0, a0, t0), _col(n1, a1, t1)]}
                    if thorough or (types.index(t0) + types.index(t1)) % 4 == 0:
                        yield {"op": "frame", "via": "from_dict", "columns": [_col(n0, a0, t0), _col(n1, a1, t1)]}
    yield {"op": "frame", "columns": []}
    for t in FRAME_TYPES:
        yield {"op": "frame", "columns": [_col("a", [], t)]}
        yield {"op": "frame", "columns": [_col("a", ["a", "b"], t)]}
    # three columns: the colliding pair in every position, the third column unrelated / colliding too
    three = [{"type": "INTEGER"}, {"type": "DECIMAL(10,2)"}, {"type": "ARRAY<DATE>"}, {"type": "VARCHAR[3]"}, {"enum": "DECIMAL", "precision": 0}]
    for i in range(3):
        for j in range(3):
            if i == j:
                continue
            for k, t3 in enumerate(three):
                names = ["a", "b", "c"]
                aliases = [[], [], []]
                aliases[j] = [names[i]]          # column j answers to column i's name as well
                tys = [three[(k + d) % len(three)] for d in range(3)]
                yield {"op": "frame", "columns": [_col(names[x], aliases[x], tys[x]) for x in range(3)]}
                aliases2 = [[names[(x + 1) % 3]] for x in range(3)]   # a cycle of aliases
                yield {"op": "frame", "columns": [_col(names[x], aliases2[x], tys[x]) for x in range(3)]}
    # wide: every DECIMAL(p,s) once / every ARRAY<T> once; aliases chain forwards, backwards, all the same
    dec = [{"type": "DECIMAL(%d,%d)" % (p, q)} for p in range(0, MAX_P + 1, 3) for q in range(0, p + 1, 4)]
    arr = [{"type": "ARRAY<%s>" % t} for t in SCALAR] + [{"type": t} for t in BASE]
    for tys in (dec, arr):
        n = len(tys)
        nm = ["c%d" % i for i in range(n)]
        yield {"op": "frame", "columns": [_col(nm[i], [], tys[i]) for i in range(n)]}
        yield {"op": "frame", "columns": [_col(nm[i], [nm[(i + 1) % n]], tys[i]) for i in range(n)]}
        yield {"op": "frame", "columns": [_col(nm[i], [nm[i - 1]], tys[i]) for i in range(n)]}
        yield {"op": "frame", "columns": [_col(nm[i], ["k"], tys[i]) for i in range(n)]}
        yield {"op": "frame", "columns": [_col("k", [], tys[i]) for i in range(n)]}


# the type forms a column is declared / redeclared with in a session: every base name, the parameterised names the
# statement lists (DECIMAL(p,s) at its boundaries, VARCHAR[n], BLOB[n], ARRAY<T>), in several letter cases, the aliases
# that resolve, and OrsoTypes members with explicit parameters
SESSION_TYPES = [{"type": b} for b in BASE] + [
    {"type": "DECIMAL(10,2)"}, {"type": "decimal(38,0)"}, {"type": "Decimal(38,38)"}, {"type": "DECIMAL(0,0)"}, {"type": "DECIMAL(1,1)"},
    {"type": "VARCHAR[12]"}, {"type": "varchar[0]"}, {"type": "BLOB[3]"}, {"type": "ARRAY<INTEGER>"}, {"type": "array<varchar>"},
    {"type": "ARRAY<TIMESTAMP>"}, {"type": "Array<Blob>"}, {"type": "LIST"}, {"type": "NUMERIC"}, {"type": "BSON"}, {"type": "integer"},
    {"enum": "DECIMAL", "precision": 0}, {"enum": "DECIMAL", "precision": 7, "scale": 7}, {"enum": "ARRAY", "element_type": "DATE"},
    {"enum": "ARRAY"}, {"enum": "VARCHAR", "length": 0}]
SESSION_FEW = [{"type": "INTEGER"}, {"type": "DECIMAL(10,2)"}, {"type": "DECIMAL(38,0)"}, {"type": "ARRAY<TIMESTAMP>"},
               {"type": "array<integer>"}, {"type": "varchar[12]"}, {"enum": "DECIMAL", "precision": 0}, {"type": "LIST"}]


def _sess(schemas, steps):
    return {"op": "session", "schemas": schemas, "steps": steps}


def session_cases(thorough):
    """Sessions: (1) one frame, read - redeclare - read, for every ordered pair of type forms, by replacement and by
    editing the column object in place; (2) for a few type forms, every shape of session this file knows."""
    for t0 in SESSION_TYPES:
        for t1 in SESSION_TYPES:
            if t0 == t1:
                continue
            for how in ("redeclare", "edit"):
                yield _sess([[_col("amount", [], t0)]], [["frame", 0], ["read", 0], [how, 0, 0, t1], ["read", 0]])
    few = SESSION_TYPES if thorough else SESSION_FEW
    for a in few:
        for b in few:
            if a == b:
                continue
            c = few[(few.index(a) + few.index(b) + 1) % len(few)]
            one = [[_col("a", [], a)]]
            for how in ("redeclare", "edit"):
                # controls: one read only; never edited; edited before the only read
                yield _sess(one, [["frame", 0], [how, 0, 0, b], ["read", 0]])
                yield _sess(one, [["frame", 0], ["read", 0], ["read", 0], ["read", 0]])
                # read many times, redeclared twice, and back to the first declaration
                yield _sess(one, [["frame", 0], ["read", 0], ["read", 0], [how, 0, 0, b], ["read", 0], ["read", 0], [how, 0, 0, c],
                                  [how, 0, 0, a], ["read", 0], [how, 0, 0, b], ["read", 0]])
                # two frames over one schema object, read alternately
                yield _sess(one, [["frame", 0], ["frame", 0], ["read", 0], ["read", 1], [how, 0, 0, b], ["read", 0], ["read", 1],
                                  [how, 0, 0, c], ["read", 1], ["read", 0]])
                # two schema objects of equal content, a frame over each; only one is edited
                yield _sess([[_col("a", [], a)], [_col("a", [], a)]],
                            [["frame", 0], ["frame", 1], ["read", 0], ["read", 1], [how, 1, 0, b], ["read", 0], ["read", 1],
                             ["read", 1], [how, 0, 0, c], ["read", 1], ["read", 0]])
                # another frame read in between (a single-entry cache forgets; a per-frame one does not)
                yield _sess([[_col("a", [], a)], [_col("z", [], c)]],
                            [["frame", 0], ["frame", 1], ["read", 0], [how, 0, 0, b], ["read", 1], ["read", 0]])
                # a dropped frame and a new one (which may get the address of the dropped one)
                yield _sess(one, [["frame", 0], ["read", 0], ["drop", 0], [how, 0, 0, b], ["frame", 0], ["read", 1], ["drop", 1],
                                  ["frame", 0], [how, 0, 0, c], ["read", 2]])
                # several columns, names and aliases colliding; the middle / last / first column redeclared
                cols3 = [_col("a", ["b"], a), _col("b", ["a"], c), _col("a", [], a)]
                for i in range(3):
                    yield _sess([cols3], [["frame", 0], ["read", 0], [how, 0, i, b], ["read", 0], [how, 0, (i + 1) % 3, b], ["read", 0]])
            # a column renamed between reads (the kept column_names of a frame goes stale; the type codes must not)
            for how in ("inplace", "replace"):
                yield _sess(one, [["frame", 0], ["read", 0], ["rename", 0, 0, "z", how], ["read", 0], ["redeclare", 0, 0, b], ["read", 0]])
                yield _sess([[_col("a", ["z"], a), _col("z", ["a"], c)]],
                            [["frame", 0], ["frame", 0], ["read", 0], ["rename", 0, 0, "z", how], ["read", 0], ["read", 1], ["read", 0],
                             ["edit", 0, 1, b], ["rename", 0, 1, "a", how], ["read", 0], ["read", 1]])
            # frames derived from a frame hand the schema object on
            for d in DERIVE:
                yield _sess(one, [["frame", 0], ["derive", 0, d], ["read", 1], ["redeclare", 0, 0, b], ["read", 1], ["read", 0],
                                  ["derive", 1, d], ["edit", 0, 0, c], ["read", 2], ["read", 1]])


def random_session(rng):
    pool = SESSION_TYPES + FRAME_TYPES[:19]
    names = ["a", "b", "c", "A", "é", "k"]
    schemas = []
    for _ in range(rng.choice([1, 1, 2, 2, 3])):
        if schemas and rng.random() < 0.4:
            schemas.append([dict(sp) for sp in schemas[-1]])      # equal content, another object
            continue
        schemas.append([_col(rng.choice(names), [rng.choice(names) for _ in range(rng.choice([0, 0, 1]))], dict(rng.choice(pool)))
                        for _ in range(rng.choice([1, 1, 2, 3, 5]))])
    steps, live, n_frames = [], [], 0
    with_renames = rng.random() < 0.3
    for _ in range(rng.choice([3, 5, 8, 12, 20, 40])):
        r = rng.random()
        alive = [k for k in range(n_frames) if live[k]]
        if not alive or r < 0.12:
            if alive and rng.random() < 0.4:
                steps.append(["derive", rng.choice(alive), rng.choice(sorted(DERIVE))])
            else:
                steps.append(["frame", rng.randrange(len(schemas))])
            live.append(True)
            n_frames += 1
        elif r < 0.55:
            steps.append(["read", rng.choice(alive)])
        elif r < 0.92:
            j = rng.randrange(len(schemas))
            if rng.random() < 0.3:
                p = rng.randint(0, MAX_P)
                ty = {"type": "DECIMAL(%d,%d)" % (p, rng.randint(0, p))}
            else:
                ty = dict(rng.choice(pool))
            steps.append([rng.choice(["redeclare", "edit"]), j, rng.randrange(len(schemas[j])), ty])
        elif r < 0.96 and with_renames:
            j = rng.randrange(len(schemas))
            steps.append(["rename", j, rng.randrange(len(schemas[j])), rng.choice(names + ["z", ""]), rng.choice(["inplace", "replace"])])
        else:
            k = rng.choice(alive)
            steps.append(["drop", k])
            live[k] = False
    return _sess(schemas, steps)


def random_frame(rng):
    pool = ["a", "b", "c", "A", "é", "", "k"]
    n = rng.choice([1, 2, 2, 3, 3, 4, 6, 9])
    cols = []
    for _ in range(n):
        r = rng.random()
        if r < 0.25:
            p = rng.randint(0, MAX_P)
            ty = {"type": rng.choice(["DECIMAL(%d,%d)", "decimal(%d, %d)"]) % (p, rng.randint(0, p))}
        elif r < 0.4:
            ty = {"type": "%s<%s>" % (rng.choice(["ARRAY", "array", "Array"]), rng.choice(SCALAR + [s_.lower() for s_ in SCALAR]))}
        elif r < 0.5:
            ty = {"type": rng.choice(BASE + ["LIST", "NUMERIC", "BSON", "list", "VARCHAR[%d]" % rng.randint(0, 99)])}
        elif r < 0.6:
            ty = {"enum": "DECIMAL", "precision": rng.choice([None, 0, rng.randint(0, MAX_P)])}
            ty = {k: v for k, v in ty.items() if v is not None}
        else:
            ty = dict(rng.choice(FRAME_TYPES))
        aliases = [rng.choice(pool) for _ in range(rng.choice([0, 0, 1, 1, 2]))]
        cols.append(_col(rng.choice(pool), aliases, ty))
    c = {"op": "frame", "columns": cols}
    if rng.random() < 0.3:
        c["via"] = "from_dict"
    return c


def random_declared(rng):
    members = BASE + [UNTYPED_MEMBER]
    r = rng.random()
    if r < 0.3:
        return {"op": "column_arrow", "arrow": rng.choice(ARROW_SPECS)}
    if r < 0.6:
        return enum_case("ARRAY", element_type=rng.choice(members + [None, None, None]),
                         length=rng.choice([None, None, 0, 7]))
    if r < 0.8:
        p = rng.randint(0, MAX_P)
        return enum_case("DECIMAL", precision=p, scale=rng.choice([None, rng.randint(0, p)]))
    return enum_case(rng.choice(members), element_type=rng.choice([None, None] + members),
                     length=rng.choice([None, None, 0, 1, 300, 2**31]))


SEEDS = None


def seeds():
    global SEEDS
    if SEEDS is None:
        SEEDS = list(BASE) + list(ALIASES)
        SEEDS += ["DECIMAL(%d,%d)" % ps for ps in [(10, 2), (38, 38), (0, 0), (38, 0), (39, 0), (5, 6), (1, 1), (28, 21), (100, 2)]]
        SEEDS += ["VARCHAR[%d]" % n for n in (0, 1, 12, 255, 65535)] + ["BLOB[%d]" % n for n in (0, 7, 1024)]
        SEEDS += ["ARRAY<%s>" % t for t in BASE + ["LIST", "STRING", "VARCHAR[10]", "ARRAY<DATE>"]]
    return SEEDS


ASCII_POOL = "ARRAYDECIMALVARCHARBLOBINTEGERSTRUCTNULLJSONTIMESTAMPLISTNUMERICSTRINGVARIANTMISSING" \
             "arraydecimalvarcharblobinteger0123456789<>()[],,,   \t\n\r\x0b\x0c\x1c\x1f_-.;:'\"\\\x00\x7f*+?|^${}{}%%{}"
UNICODE_POOL = ["ı", "ſ", "ß", "ﬁ", "K", "İ", "é", "日", "\U0001f600", "١", "٠", "２", "१", "\u0085", " ", " ", "　",
                "​", "ǆ", "ŉ", "µ", "ª", "²", "①", "Ⅷ", "٠", "１", "＿", "＿", "＜", "＞", "（", "［"]


def mutate(rng, s):
    k = rng.randrange(13)
    pos = rng.randrange(len(s) + 1)
    if k == 0 and s:
        return s[:pos] + s[pos + 1:]
    if k == 1:
        return s[:pos] + rng.choice(ASCII_POOL) + s[pos:]
    if k == 2 and s:
        pos = min(pos, len(s) - 1)
        return s[:pos] + rng.choice(ASCII_POOL) + s[pos + 1:]
    if k == 3:
        return s[:pos]
    if k == 4:
        return s + "".join(rng.choice(ASCII_POOL) for _ in range(rng.randint(1, 4)))
    if k == 5:
        return "".join(ch.swapcase() if rng.random() < 0.4 else ch for ch in s)
    if k == 6 and len(s) > 1:
        pos = min(pos, len(s) - 2)
        return s[:pos] + s[pos + 1] + s[pos] + s[pos + 2:]
    if k == 7:
        return s[:pos] + rng.choice([" ", "\t", "\n", "\x1c", "  "]) + s[pos:]
    if k == 8:
        return s[:pos] + str(rng.choice([0, 1, 9, 38, 39, 100, 10**20])) + s[pos:]
    if k == 9:
        return rng.choice(seeds()) + s if rng.random() < 0.5 else s + rng.choice(seeds())
    if k == 11:
        # a bracket pair swapped for another one (wrong-bracket forms: VARCHAR{10}, DECIMAL[10,2], ARRAY<{INTEGER}>)
        o2, c2 = rng.choice(BRACKETS)
        t = s
        for o, c in BRACKETS:
            t = t.replace(o, o2).replace(c, c2) if rng.random() < 0.7 else t
        return t
    if k == 12:
        return s[:pos] + rng.choice(FORMAT_SPECIALS) + s[pos:]
    return s[pos:]


def random_name(ctx):
    rng = ctx.rng
    r = rng.random()
    if r < 0.55:
        s = rng.choice(seeds())
        for _ in range(rng.choice([1, 1, 1, 2, 2, 3, 5])):
            s = mutate(rng, s)
        return s
    if r < 0.62:
        p, s = rng.choice([0, 1, 9, 10, 37, 38, 39, 40, 99, 100, 10**10]), rng.choice([0, 1, 9, 10, 37, 38, 39, 40, 99])
        ws = "".join(rng.choice(" \t\n\r\x0b\x0c\x1c\x1d\x1e\x1f") for _ in range(rng.randint(0, 3)))
        pre = "0" * rng.choice([0, 0, 1, 3])
        tail = rng.choice(["", "", " ", "x", ")", "(1,2)"])
        return "%s(%s%d,%s%s%d)%s" % (rng.choice(["DECIMAL", "decimal", "Decimal"]), pre, p, ws, pre, s, tail)
    if r < 0.8:
        n = rng.choice([0, 1, 2, 3, 5, 8, 13, 30])
        return "".join(rng.choice(ASCII_POOL) for _ in range(n))
    if r < 0.9:
        # unicode inside an otherwise valid name
        s = rng.choice(seeds())
        for _ in range(rng.randint(1, 2)):
            pos = rng.randrange(len(s) + 1)
            u = rng.choice(UNICODE_POOL)
            s = s[:pos] + u + (s[pos + 1:] if rng.random() < 0.5 else s[pos:])
        return s
    if r < 0.95:
        return rng.choice(["ınteger", "DECIMAL(١٠,٢)", "ARRAY<ınteger>", "ſtruct", "VARCHAR[１２]", "decımal(5,2)", "ARRAY<ﬁ>",
                           "DECIMAL(10, 2)", "DECIMAL(10, 2)", "ARRAY<DATE\u0085>", "ARRAY<＿>", "blob[٣]", "lıst", "ſTRING",
                           "DECIMAL(٤٠,٢)", "DECIMAL(٥,٦)", "ARRAY<ARRAY<ınteger>>", "ARRAY<lıst>", "varıant", "mıſſıng"])
    n = rng.randint(1, 6)
    return "".join(rng.choice(UNICODE_POOL + list("ARRAY<>DECIMAL(1,2)[]")) for _ in range(n))


def random_cases(ctx, n):
    out = []
    for i in range(n):
        if i % 25 == 24:
            out.append(random_declared(ctx.rng))
            continue
        if i % 25 in (7, 19):
            out.append(random_frame(ctx.rng))
            continue
        if i % 25 == 13:
            out.append(random_session(ctx.rng))
            continue
        if i % 25 == 5:
            out.append(random_routes(ctx))
            continue
        if i % 50 == 3:
            x = {k: v for k, v in (("precision", ctx.rng.choice([None, 0, 5, 38])), ("scale", ctx.rng.choice([None, 0, 5])),
                                    ("length", ctx.rng.choice([None, None, 0, 9])),
                                    ("element_type", ctx.rng.choice([None, None] + SCALAR))) if v is not None}
            nm = ctx.rng.choice(EXPLICIT_NAMES + seeds())
            if x and is_ascii(nm):
                out.append({"op": "column", "name": nm, "explicit": x})
                continue
        name = random_name(ctx)
        try:
            name.encode("utf-8")
        except UnicodeEncodeError:
            continue
        exp = auto_reject_label(name)
        c = {"op": "column" if i % 4 == 3 else "from_name", "name": name}
        if exp is not None:
            c["expect"] = exp
        out.append(c)
    return out


def _run_batched(ctx, it, size=4000):
    batch, total = [], 0
    for c in it:
        batch.append(c)
        if len(batch) >= size:
            evaluate(ctx, batch)
            total += len(batch)
            batch = []
    evaluate(ctx, batch)
    return total + len(batch)


def check_tables(ctx):
    """The model's tables (from Generated/TypeName.lean) against the vocabulary pinned in this file."""
    o = ctx.model.one("C06 tables")
    if not o.startswith("ok "):
        raise InfraError("model tables: %r" % o)
    base, scalar, members, pinned = wire.dec_all(o[3:])
    ctx.note("model_base_types", base)
    ctx.note("model_scalar_element_types", scalar)
    ctx.note("regex_sources_as_pinned", pinned)
    return base, scalar


def check_unicode_assumptions(ctx):
    """`Chars.Sane` (the hypotheses of the *_unicode theorems), checked on the interpreter under test over the whole
    code space: `\\d` is str.isdecimal and `\\s` is str.isspace in CPython's re (spot-checked below)."""
    both = [i for i in range(0x110000) if chr(i).isdecimal() and chr(i).isspace()]
    sample = [chr(i) for i in list(range(0, 0x3000, 7)) + [0x0660, 0x06F0, 0x0966, 0xFF10, 0x1D7CE, 0x85, 0xA0, 0x2028, 0x3000]]
    same = all((re.fullmatch(r"\d", ch) is not None) == ch.isdecimal() and (re.fullmatch(r"\s", ch) is not None) == ch.isspace()
               for ch in sample)
    ok = (not both and same and re.fullmatch(r"[\w\s]", ">") is None and not ",".isdecimal() and not ")".isdecimal()
          and "<" in "<".upper() and all(len(chr(i).upper()) >= 1 for i in (0xDF, 0x131, 0x149, 0xFB01)))
    try:
        int("1" * (max_digits() + 1) if max_digits() else "1")
        over = "no limit" if not max_digits() else "accepted"
    except ValueError:
        over = "ValueError"
    except Exception as e:  # pragma: no cover
        over = type(e).__name__
    ctx.note("unicode_tables_sane", {"no_char_is_digit_and_space": not both, "re_classes_are_str_predicates_on_sample": same,
                                     "int_beyond_digit_limit": over, "all": ok and over in ("ValueError", "no limit")})
    if not ok or over not in ("ValueError", "no limit"):
        raise InfraError("the interpreter's Unicode tables do not meet the assumptions of the *_unicode theorems")


def run(ctx):
    ctx.note("rule", "one text name per case, run through OrsoTypes.from_name or FlatColumn+DataFrame.description and through the "
             "Lean model; non-trivial = non-empty name; distinct by canonical JSON of (op, name, label)")
    ctx.note("assumptions", [
        "the untyped marker (int 0, returned for '0'/'VARIANT'/'MISSING') with no parameters counts as a resolved description",
        "lengths n are rendered with at most sys.get_int_max_str_digits() digits (CPython's int() refuses longer digit strings with ValueError)",
        "non-ASCII names: the oracle evaluates the totality clause only (labels are ASCII); the model runs over the interpreter's own "
        "Unicode tables (per-character upper(), \\d/\\s/\\w membership, decimal value), whose sanity (Chars.Sane) is checked at run time",
        "sessions: a redeclaration keeps the column's name and the number of columns; every read is judged against the columns "
        "of the frame's schema as observed just before that read",
    ])
    ctx.note("trusted_base_extra", [
        "the vocabulary definitions TName/render/wfName/denotes/wfOut/columnRoundTrips/Chars/Chars.Sane in lean/OrsoVerif/Model/TypeName.lean "
        "and Lemmas/TypeName.lean (the theorems are stated through them)",
        "modelled, validated by correspondence only: that Python's re computes the greedy, backtrack-free match of a pattern whose repeats "
        "cannot take a character the next item needs (the patterns themselves are parsed from the source with re._parser and interpreted; "
        "patterns_deterministic proves the side condition), str.upper as a per-character map, int() on a run of \\d characters, "
        "the FlatColumn constructor outside its merge block; single_item_cache (tools.py) as one entry per decorated function, compared by "
        "the frame object (modelled as Sess.kept / Sess.keptNames; which properties carry it is read from the source)",
    ])
    check_tables(ctx)
    check_unicode_assumptions(ctx)
    total = _run_batched(ctx, exhaustive_cases(ctx))
    ctx.exhaustive = False
    ctx.note("exhaustive_scope", "every letter-case pattern of the %d base names; aliases; DECIMAL(p,s) for (p,s) in 0..45 x 0..45; "
             "VARCHAR[n]/BLOB[n] for n in 0..300 and %d boundary widths up to the int() digit limit; ARRAY<T> for %d element texts; "
             "every ASCII character in 18 pattern positions; every OrsoTypes member declared as the enum with/without element type "
             "and length, every in-range (precision, scale); %d Arrow field types; sessions: read - redeclare - read for every "
             "ordered pair of %d type forms, by replacement and by in-place edit, and every session shape (frames read alternately, "
             "schemas of equal content, derived frames, dropped frames, several columns, controls) over %d type forms "
             "(%d cases), then random"
             % (len(BASE), len(boundary_widths()) - 301, len(BASE + ALIASES + ELEMENTS_EXTRA), len(ARROW_SPECS),
                len(SESSION_TYPES), len(SESSION_TYPES) if ctx.tier == "thorough" else len(SESSION_FEW), total))
    n_random = ctx.scale(50000, 1000000)
    done = 0
    while done < n_random and ctx.time_left() > 5:
        k = min(4000, n_random - done)
        evaluate(ctx, random_cases(ctx, k))
        done += k


def intensify(ctx):
    for _ in range(10):
        if ctx.time_left() < 5:
            break
        evaluate(ctx, random_cases(ctx, 4000))


def replay(ctx, case):
    evaluate(ctx, [case])


KNOWN_PREDICATES = {}
