"""C01 — Row byte format is lossless and self-delimiting.

Three ties per case (DESIGN.md §6/C01):

* oracle, on the implementation alone: `Row.from_bytes(Row.as_bytes)` equals the row in wire form
  (floats by bit pattern, bool != int, tuples compared as lists); every strict prefix, every
  extension and every single-bit change of the version nibble / the four length bytes raises
  `DataError` — never another row, never another exception;
* correspondence with `Model/RowCodec.lean`: the whole record byte for byte (`encode`, with the
  timestamp read back from bytes 6..13, i.e. the clock is a parameter), and the outcome class of the
  decoder (`ok row` / malformed / badLength / payloadError) on the record, its prefixes, extensions,
  the 36 guarded bit flips, the 4+8 unguarded ones (accepted by design), and on arbitrary bytes;
* encoder refusals (nesting beyond ormsgpack's limit, integers beyond 64 bits, payload above the
  cap): no record is emitted on either side.
"""
import datetime
import struct

from .. import gen, wire
from ..core import InfraError, shrink

MAX = 16 * 1024 * 1024
_R = {}


def row_class(width):
    from orso.row import Row

    if width not in _R:
        _R[width] = Row.create_class(["c%d" % i for i in range(width)])
    return _R[width]


# --------------------------------------------------------------------------- canonical forms


def to_py(v, tuples):
    """Wire value -> the Python value handed to Row (optionally lists as tuples)."""
    if isinstance(v, list):
        xs = [to_py(x, tuples) for x in v]
        return tuple(xs) if tuples else xs
    if isinstance(v, dict):
        return {k: to_py(x, tuples) for k, x in v.items()}
    return v


def canon(v):
    """Implementation value -> wire universe (tuples as lists); None if outside it."""
    if isinstance(v, (list, tuple)):
        return [canon(x) for x in v]
    if isinstance(v, dict):
        return {k: canon(x) for k, x in v.items()}
    if isinstance(v, bytearray):
        return bytes(v)
    return v


def undup(v):
    """Model output: an association list with repeated keys denotes the dict Python builds."""
    if isinstance(v, tuple) and len(v) == 2 and v[0] == "__dupmap__":
        d = {}
        for k, x in v[1]:
            d[k] = undup(x)
        return d
    if isinstance(v, list):
        return [undup(x) for x in v]
    if isinstance(v, dict):
        return {k: undup(x) for k, x in v.items()}
    return v


def is_reserved(v):
    return isinstance(v, (list, tuple)) and len(v) == 2 and isinstance(v[0], str) and v[0] == "__datetime__"


def impl_decode(width, data):
    """Outcome class of Row.from_bytes on `data`."""
    from orso.exceptions import DataError

    R = row_class(width)
    try:
        row = R.from_bytes(data)
    except DataError as e:
        return ["err", "badLength" if "incorrect length" in str(e) else "malformed"], "DataError"
    except Exception as e:  # ormsgpack ValueError, the `cdef list` cast TypeError, fromtimestamp errors
        return ["err", "payloadError"], type(e).__name__
    items = []
    for x in row:
        if isinstance(x, datetime.datetime):
            items.append(["dt", None])
        else:
            items.append(["v", canon(x)])
    return ["ok", items], None


def model_decode_form(text):
    if not text.startswith("ok "):
        raise InfraError("model rejected a decode op: %r" % text)
    v = wire.dec_all(text[3:])[0]
    if v[0] == "ok":
        items = []
        for it in v[1]:
            items.append(["dt", None] if it[0] == "dt" else ["v", undup(it[1])])
        return ["ok", items]
    return v


def impl_encode(case):
    """(record bytes | None, error kind | None)."""
    from orso.exceptions import DataError

    row = case["row"]
    R = row_class(len(row))
    try:
        rec = R(tuple(to_py(x, case.get("tuples", False)) for x in row)).as_bytes
    except DataError:
        return None, "tooLarge"
    except TypeError:
        return None, "codec"
    except OverflowError:
        return None, "overflow"
    return rec, None


# --------------------------------------------------------------------------- mutations of a record


def mutations(case, rec, rng_seed):
    """[(label, bytes, must_be_rejected, to_model)] — deterministic in (case, rec length).

    Every mutation is put to the implementation (oracle); for records above 64 KiB only a sample
    goes to the model as well (correspondence), to keep the run inside its budget."""
    import random

    rng = random.Random(rng_seed)
    n = len(rec)
    huge = n > 65536
    out = []
    if n <= 4096:
        points = list(range(n))
    else:
        pts = set(range(0, 40)) | set(range(n - 40, n)) | {n // 2, 13, 14, 15}
        pts |= {rng.randrange(n) for _ in range(80)}
        points = sorted(p for p in pts if 0 <= p < n)
    if n <= 600:
        model_points = set(points)  # the model sees every tear point of records up to 600 bytes
    elif not huge:
        model_points = {0, 1, 2, 5, 6, 13, 14, 15, 16, n // 2, n - 2, n - 1} | {rng.choice(points) for _ in range(28)}
    else:
        model_points = {0, 13, 14, 15, n // 2, n - 1, rng.choice(points), rng.choice(points)}
    for k in points:
        out.append(("torn", rec[:k], True, k in model_points))
    out.append(("ext1", rec + b"\x00", True, True))
    out.append(("ext1", rec + bytes([rng.getrandbits(8)]), True, not huge))
    out.append(("extN", rec + bytes(rng.getrandbits(8) for _ in range(rng.randint(2, 20))), True, not huge))
    out.append(("ext2", rec + rec, True, not huge))
    pick = rng.randrange(32)
    for j in range(4, 8):
        out.append(("verflip", bytes([rec[0] ^ (1 << j)]) + rec[1:], True, not huge or j == 4 + pick % 4))
    for i in range(2, 6):
        for j in range(8):
            b = bytearray(rec)
            b[i] ^= 1 << j
            out.append(("lenflip", bytes(b), True, not huge or (i - 2) * 8 + j in (pick, (pick * 7 + 3) % 32)))
    # not guarded by design: low nibble of byte 0, byte 1, the timestamp
    for j in range(4):
        out.append(("lowflip", bytes([rec[0] ^ (1 << j)]) + rec[1:], False, not huge or j == pick % 4))
    for j in range(8):
        out.append(("flagflip", rec[:1] + bytes([rec[1] ^ (1 << j)]) + rec[2:], False, not huge or j == pick % 8))
    b = bytearray(rec)
    b[6 + rng.randrange(8)] ^= 1 << rng.randrange(8)
    out.append(("tsflip", bytes(b), False, not huge))
    return out


# --------------------------------------------------------------------------- evaluation


def valid_case(c):
    k = c.get("kind")
    if k == "row":
        row = c.get("row")
        if not isinstance(row, list):
            return False
        return wire_ok(row) and not any(is_reserved(x) for x in row)
    if k == "bytes":
        return isinstance(c.get("data"), bytes) and isinstance(c.get("width"), int)
    return k in ("reserved", "refuse", "big", "deep")


def wire_ok(v, depth=0):
    if v is None or isinstance(v, (bool, float, str, bytes)):
        if isinstance(v, str):
            try:
                v.encode("utf-8")
            except UnicodeEncodeError:
                return False
        return True
    if isinstance(v, int):
        return -(2**63) <= v < 2**64
    if isinstance(v, list):
        return depth < 200 and all(wire_ok(x, depth + 1) for x in v)
    if isinstance(v, dict):
        return depth < 200 and all(isinstance(k, str) and wire_ok(k) and wire_ok(x, depth + 1) for k, x in v.items())
    return False


def oracle_row(case, rec, muts):
    """The property on the implementation's own outputs. Returns (clause, detail) or None."""
    row = case["row"]
    w = len(row)
    got, exc = impl_decode(w, rec)
    if got[0] != "ok":
        return "an emitted record is rejected by the decoder (%s)" % (exc,), got
    back = [it[1] if it[0] == "v" else it for it in got[1]]
    if not wire.same(back, row):
        return "round trip returns a different row", back
    for label, data, must, _tm in muts:
        if not must:
            continue
        g, exc = impl_decode(w, data)
        if g[0] == "ok":
            return "%s record is accepted and decoded into a row" % label, {"data": data, "row": g[1]}
        if exc != "DataError":
            return "%s record raises %s instead of a data error" % (label, exc), {"data": data}
    return None


def _norm(clause):
    return None if clause is None else "".join(ch for ch in clause if not ch.isdigit())


def kinds_of(v, acc):
    if isinstance(v, list):
        acc.add("list")
        for x in v:
            kinds_of(x, acc)
    elif isinstance(v, dict):
        acc.add("dict")
        for x in v.values():
            kinds_of(x, acc)
    else:
        acc.add(type(v).__name__)
        if isinstance(v, float):
            if v != v:
                acc.add("float:nan")
            elif v in (float("inf"), float("-inf")):
                acc.add("float:inf")
            elif v == 0 and struct.pack(">d", v)[0] == 0x80:
                acc.add("float:-0.0")
        if isinstance(v, int) and not isinstance(v, bool) and (v >= 2**63 or v == -(2**63)):
            acc.add("int:64-bit-extreme")
    return acc


def size_bucket(n):
    for b in (16, 32, 64, 128, 256, 1024, 4096, 65536, 2**20):
        if n <= b:
            return "<=%d" % b
    return ">1MiB"


def expand(c):
    """`deep` cases are stored compactly (depth, shape) so that replay files stay readable."""
    if c.get("kind") != "deep":
        return c
    d, shape = c["depth"], c.get("shape", "list")
    v = c.get("inner", 1)
    for i in range(d):
        v = {"k": v} if (shape == "mixed" and i % 2) else [v]
    # the row tuple is one more container: ormsgpack packs at most 255 nested containers
    inner_is_container = isinstance(c.get("inner", 1), (list, dict))
    total = d + 1 + (1 if inner_is_container else 0)
    return {"kind": "row" if total <= 255 else "refuse", "why": "too-deep", "row": [v], "orig": c}


def evaluate(ctx, cases):
    """Run a batch: implementation, oracle, model, comparison."""
    lines = []
    plan = []  # (case, kind, payload...) aligned with model lines
    for c in cases:
        c = expand(c)
        k = c["kind"]
        if k == "row" or k == "reserved":
            rec, err = impl_encode(c)
            seed = len(c["row"]) * 7919 + (len(rec) if rec else 0)
            ts = int.from_bytes(rec[6:14], "big") if rec else 0
            first = len(lines)
            lines.append("C01 encode " + wire.line(ts, c["row"]))
            muts = []
            if rec is not None:
                muts = mutations(c, rec, seed)
                if k == "reserved":
                    muts = muts[-3:]
                lines.append("C01 decode " + wire.line(rec))
                for _, data, _, tm in muts:
                    if tm:
                        lines.append("C01 decode " + wire.line(data))
            plan.append((c, first, len(lines), rec, err, muts))
        elif k == "bytes":
            first = len(lines)
            lines.append("C01 decode " + wire.line(c["data"]))
            plan.append((c, first, len(lines), None, None, None))
        elif k == "refuse":
            rec, err = impl_encode(c)
            first = len(lines)
            lines.append("C01 encode " + wire.line(0, c["row"]))
            plan.append((c, first, len(lines), rec, err, None))
        elif k == "big":
            first = len(lines)
            lines.append("C01 bigframe " + wire.line(c["n"], 0, c.get("cut", 0), c.get("ext", 0)))
            plan.append((c, first, len(lines), None, None, None))
        else:
            raise InfraError("bad case kind %r" % (k,))
    mouts = ctx.model.batch(lines)
    for c, a, b, rec, err, muts in plan:
        k = c["kind"]
        mo = mouts[a:b]
        if k in ("row", "reserved"):
            eval_row(ctx, c, rec, err, muts, mo)
        elif k == "bytes":
            eval_bytes(ctx, c, mo[0])
        elif k == "refuse":
            eval_refuse(ctx, c, rec, err, mo[0])
        else:
            eval_big(ctx, c, mo[0])


def model_encode_form(text):
    if not text.startswith("ok "):
        raise InfraError("model rejected an encode op: %r" % text)
    return wire.dec_all(text[3:])[0]


def eval_row(ctx, c, rec, err, muts, mo):
    row = c["row"]
    if "orig" in c:
        return eval_deep(ctx, c, rec, err, muts, mo)
    ks = kinds_of(row, set())
    nontrivial = len(row) >= 1 and rec is not None
    ctx.case(c, nontrivial)
    ctx.hit("kind:" + c["kind"])
    ctx.hit("width:%d" % min(len(row), 9))
    for kk in ks:
        ctx.hit("value:" + kk)
    me = model_encode_form(mo[0])
    if rec is None:
        # the generator only produces encodable rows here: a refusal is a violation of losslessness
        ctx.hit("encoder-refused:" + err)
        if c["kind"] == "row":
            _fail_row(ctx, c, "the encoder refuses a row of the value domain (%s)" % err, err, me)
        return
    ctx.hit("record:" + size_bucket(len(rec)))
    clause = oracle_row(c, rec, muts) if c["kind"] == "row" else None
    if clause is not None:
        _fail_row(ctx, c, clause[0], clause[1], me)
        return
    # correspondence: the record itself
    if me[0] != "ok" or me[1] != rec:
        ctx.disagree(c, {"record": rec}, {"encode": me}, "encoder output differs from the model (bytes 6..13 are the clock, fed to the model)")
        return
    # correspondence: decoder outcome classes
    g, _ = impl_decode(len(row), rec)
    m = model_decode_form(mo[1])
    if not wire.same(g, m):
        ctx.disagree(c, {"decode": g}, {"decode": m}, "decoder outcome on the emitted record differs")
        return
    for (label, data, must, _tm), text in zip([x for x in muts if x[3]], mo[2:]):
        g, exc = impl_decode(len(row), data)
        m = model_decode_form(text)
        ctx.hit("mutation:%s->%s" % (label, g[1] if g[0] == "err" else "ok"))
        if not wire.same(g, m):
            ctx.disagree({"kind": "bytes", "width": len(row), "data": data, "from": label}, {"decode": g}, {"decode": m},
                         "decoder outcome on a %s record differs" % label)
            return


def eval_deep(ctx, c, rec, err, muts, mo):
    """A deeply nested row within ormsgpack's limit: same demands as any row, reported compactly."""
    o = c["orig"]
    ctx.case(o, True)
    ctx.hit("kind:deep")
    me = model_encode_form(mo[0])
    if rec is None:
        ctx.fail(o, "the encoder refuses a row of the value domain (%s)" % err, impl=err, model=me[:1])
        return
    clause = oracle_row(c, rec, muts)
    if clause is not None:
        ctx.fail(o, clause[0], impl=None, model=None)
        return
    if me[0] != "ok" or me[1] != rec:
        ctx.disagree(o, {"record": rec}, {"encode": me}, "encoder output differs from the model on a deep row")
        return
    for (label, data, must, _tm), text in zip([("rec", rec, False, True)] + [x for x in muts if x[3]], mo[1:]):
        g, exc = impl_decode(1, data)
        m = model_decode_form(text)
        if not wire.same(g, m):
            ctx.disagree(o, {"decode": g[:1], "on": label}, {"decode": m[:1]}, "decoder outcome on a deep row differs")
            return


def _fail_row(ctx, c, clause, impl, model):
    def still(c2):
        if not valid_case(c2) or c2.get("kind") != "row":
            return False
        rec2, err2 = impl_encode(c2)
        if rec2 is None:
            return _norm(clause) == _norm("the encoder refuses a row of the value domain (%s)" % err2)
        cl = oracle_row(c2, rec2, mutations(c2, rec2, len(c2["row"]) * 7919 + len(rec2)))
        return cl is not None and _norm(cl[0]) == _norm(clause)

    c_min = c if ctx.replaying else shrink(c, still)
    if c_min is not c:
        rec2, err2 = impl_encode(c_min)
        if rec2 is not None:
            cl = oracle_row(c_min, rec2, mutations(c_min, rec2, len(c_min["row"]) * 7919 + len(rec2)))
            if cl is not None:
                clause, impl = cl
    ctx.fail(c_min, clause, impl=impl, model=model if c_min is c else None)


def eval_bytes(ctx, c, mo):
    data = c["data"]
    ctx.case(c, len(data) >= 14)
    ctx.hit("kind:bytes")
    g, exc = impl_decode(c["width"], data)
    m = model_decode_form(mo)
    ctx.hit("bytes->%s" % (g[1] if g[0] == "err" else "ok"))
    if exc not in (None, "DataError"):
        ctx.hit("payload-exception:" + exc)
    if not wire.same(g, m):
        ctx.disagree(c, {"decode": g}, {"decode": m}, "decoder outcome on arbitrary bytes differs")


def eval_refuse(ctx, c, rec, err, mo):
    c = c.get("orig", c)
    ctx.case(c, True)
    ctx.hit("kind:refuse:" + c.get("why", "?"))
    me = model_encode_form(mo)
    if rec is not None:
        # the implementation did emit something: then it must round-trip (oracle) -- and the model must agree
        if me[0] != "ok":
            ctx.disagree(c, {"record_len": len(rec)}, {"encode": me}, "the model refuses a row the encoder accepts")
        return
    ctx.hit("encoder-refused:" + err)
    if me != ["err", err]:
        ctx.disagree(c, {"encode": ["err", err]}, {"encode": me}, "encoder refusal differs from the model")


def eval_big(ctx, c, mo):
    """Records near the cap: payload is one binary item so that the payload has exactly n bytes."""
    from orso.exceptions import DataError

    n, cut, ext = c["n"], c.get("cut", 0), c.get("ext", 0)
    ctx.case(c, True)
    ctx.hit("kind:big")
    R = row_class(1)
    item = b"\x00" * (n - 6)  # 0x91 0xc6 + 4 length bytes + data
    m = wire.dec_all(mo[3:]) if mo.startswith("ok ") else None
    if m is None:
        raise InfraError("model rejected bigframe: %r" % mo)
    try:
        rec = R((item,)).as_bytes
    except DataError:
        ctx.hit("encoder-refused:tooLarge")
        # the property does not fix the cap: a different refusal threshold is a model disagreement
        if m[0] != ["err", "tooLarge"]:
            ctx.disagree(c, {"encode": "tooLarge"}, {"bigframe": m[0]})
        return
    if len(rec) != n + 14:
        raise InfraError("big case: payload has %d bytes, wanted %d" % (len(rec) - 14, n))
    if m[0][0] != "ok":
        ctx.disagree(c, {"record_len": len(rec)}, {"bigframe": m[0]}, "the encoder emits a record the model refuses")
        return
    data = rec[: len(rec) - cut] + b"\x00" * ext
    g, exc = impl_decode(1, data)
    if cut == 0 and ext == 0:
        if g[0] != "ok" or g[1][0][1] != item:
            ctx.fail(c, "round trip of a record at the cap fails", impl=g[:1], model=m)
            return
        want = ["ok", n]
    else:
        if g[0] == "ok" or exc != "DataError":
            ctx.fail(c, "a torn/extended record at the cap is not rejected with a data error", impl=[g[0], exc], model=m)
            return
        want = g
    if m[0][0] != "ok" or m[0][1][:6] != rec[:6] or m[0][2] != len(rec):
        ctx.disagree(c, {"header": rec[:6], "len": len(rec)}, {"bigframe": m[0]}, "header of a large record differs")
    elif m[1] != want:
        ctx.disagree(c, {"guards": want}, {"guards": m[1]}, "guard outcome on a large record differs")


# --------------------------------------------------------------------------- generators

SCALARS = (
    [None, True, False]
    + gen.INT_EDGES
    + [-(2**63) + 1, 2**64 - 2, 2**16 - 1, 2**16, -(2**15), -(2**15) - 1, 127, 128, -32, -33]
    + gen.FLOAT_EDGES
    + [struct.unpack(">d", bytes.fromhex(h))[0] for h in ("7ff0000000000001", "fff8000000000001", "7ff4000000000000", "0000000000000001", "800fffffffffffff")]
    + gen.TEXTS
    + ["\x00", "߿ࠀ￿\U00010000", "x" * 255, "x" * 256]
    + [b"", b"\x00", b"\xff" * 31, b"a" * 255, b"b" * 256]
)


def small_containers():
    return [
        [], {}, [[]], [{}], {"a": []}, {"": None}, [None], [1, "a", b"b", 2.5, None, True],
        [[[[[1]]]]], {"k": {"k": {"k": [1, {"z": -1}]}}}, list(range(15)), list(range(16)), list(range(17)),
        {str(i): i for i in range(15)}, {str(i): i for i in range(16)}, {"é": "日本", "\U0001f600": [b"\x00"]},
        ["__datetime__"], ["__datetime__", 1, 2], [["__datetime__", 1]], {"__datetime__": 1}, ["__datetime", 1],
        ["__datetime__x", 1], [b"__datetime__", 1], [1, "__datetime__"],
    ]


def exhaustive_cases():
    vals = SCALARS + small_containers()
    yield {"kind": "row", "row": []}
    for v in vals:
        yield {"kind": "row", "row": [v]}
    short = [None, True, 0, -1, 2**64 - 1, -(2**63), float("nan"), -0.0, "", "é", b"", [], {}, [1, [2]], {"a": {"b": 1}}]
    for a in short:
        for b in short:
            yield {"kind": "row", "row": [a, b]}
    for v in [[1, 2], {"a": [1, 2]}, [[1, "x"], [2, "y"]]]:
        yield {"kind": "row", "row": [v, v], "tuples": True}


def boundary_cases(ctx):
    out = []
    for n in (65535, 65536):
        out.append({"kind": "row", "row": ["s" * n]})
        out.append({"kind": "row", "row": [b"\x01" * n]})
    out.append({"kind": "row", "row": [[None] * 65535]})
    out.append({"kind": "row", "row": [[0] * 65536, "tail"]})
    out.append({"kind": "row", "row": [{"k%d" % i: i for i in range(65536)}]})
    out.append({"kind": "row", "row": [None] * 65536})
    out.append({"kind": "row", "row": list(range(-40, 300))})
    for d in (10, 100, 200, 253, 254, 255, 256, 400):
        out.append({"kind": "deep", "depth": d, "shape": "list", "inner": 1})
        out.append({"kind": "deep", "depth": d, "shape": "mixed", "inner": None})
    for d in (252, 253, 254):
        out.append({"kind": "deep", "depth": d, "shape": "list", "inner": []})
        out.append({"kind": "deep", "depth": d, "shape": "mixed", "inner": {}})
    return out


def random_row(rng, big=False):
    r = rng.random()
    width = rng.choice([0, 1, 1, 2, 3, 5, 8]) if r < 0.8 else rng.randint(9, 40)
    row = []
    for _ in range(width):
        q = rng.random()
        if q < 0.25:
            v = rng.choice(SCALARS)
        elif q < 0.3:
            v = rng.choice(small_containers())
        else:
            v = gen.gen_pyval(rng, rng.choice([1, 2, 3, 4]))
        row.append(v)
    if big and rng.random() < 0.5:
        row.append(rng.choice(["t" * rng.randint(300, 6000), bytes(rng.getrandbits(8) for _ in range(rng.randint(300, 6000))),
                               [gen.gen_scalar(rng) for _ in range(rng.randint(20, 400))]]))
    row = [x for x in row if not is_reserved(x)]
    c = {"kind": "row", "row": row}
    if rng.random() < 0.2:
        c["tuples"] = True
    return c


MSGPACK_TAGS = [0x90, 0x91, 0x92, 0x93, 0x80, 0x81, 0xa0, 0xa1, 0xa3, 0xc0, 0xc1, 0xc2, 0xc3, 0xc4, 0xc5, 0xc6, 0xc7, 0xc8, 0xc9,
                0xca, 0xcb, 0xcc, 0xcd, 0xce, 0xcf, 0xd0, 0xd1, 0xd2, 0xd3, 0xd4, 0xd5, 0xd6, 0xd7, 0xd8, 0xd9, 0xda, 0xdb,
                0xdc, 0xdd, 0xde, 0xdf, 0xe0, 0xff, 0x00, 0x7f, 0x61, 0x01, 0x02]


def tame(payload):
    """ormsgpack.unpackb pre-sizes a container from an array32/map32 header before reading the
    elements; a count near 2^32 in a short buffer leaves a multi-gigabyte (virtual) object behind
    that every later garbage collection walks for tens of seconds.  That is a property of the
    library on hostile input, not of the record format: keep the 32-bit counts below 2^16."""
    b = bytearray(payload)
    for i, t in enumerate(b):
        if t in (0xDD, 0xDF, 0xDB, 0xC6, 0xC9) and i + 2 < len(b):
            b[i + 1] = 0
            b[i + 2] = 0
    return bytes(b)


def random_bytes_case(rng):
    """Arbitrary buffers, biased towards well-framed ones with arbitrary (msgpack-looking) payloads."""
    r = rng.random()
    if r < 0.15:
        n = rng.choice([0, 1, 5, 13, 14, 15, 20, 40])
        data = bytes(rng.getrandbits(8) for _ in range(n))
        data = data[:14] + tame(data[14:])
    else:
        n = rng.randint(0, 24)
        payload = bytes(rng.choice(MSGPACK_TAGS) if rng.random() < 0.6 else rng.getrandbits(8) for _ in range(n))
        if rng.random() < 0.5 and payload:
            payload = bytes([rng.choice([0x90 + min(15, rng.randint(0, 4)), 0xdc, 0xdd])]) + payload
        payload = tame(payload)
        ln = len(payload)
        q = rng.random()
        if q < 0.1:
            ln = rng.choice([ln + 1, max(0, ln - 1), ln + 256, ln | 0x80000000, 0xFFFFFFFF, 0])
        b0 = 0x10 | rng.getrandbits(4) if rng.random() < 0.9 else rng.getrandbits(8)
        data = bytes([b0, rng.getrandbits(8)]) + struct.pack(">I", ln & 0xFFFFFFFF) + bytes(rng.getrandbits(8) for _ in range(8)) + payload
    return {"kind": "bytes", "width": 1, "data": data}


def float32_cases():
    """The float32 family (never emitted, accepted by the decoder): boundary bit patterns."""
    pats = [0, 0x80000000, 1, 0x007FFFFF, 0x00800000, 0x3F800000, 0xBFC00000, 0x7F7FFFFF, 0x7F800000, 0xFF800000,
            0x7FC00000, 0x00000002, 0x00400000, 0x34000000, 0x7F800001, 0xFFC12345]
    for p in pats:
        payload = b"\x91\xca" + struct.pack(">I", p)
        yield {"kind": "bytes", "width": 1, "data": b"\x10\x00" + struct.pack(">I", len(payload)) + b"\0" * 8 + payload}


def reserved_cases(rng):
    out = []
    for x in (0, 1, 86400, 1700000000, 1.5, 1700000000.25, -1):
        out.append({"kind": "reserved", "row": [["__datetime__", x]]})
        out.append({"kind": "reserved", "row": [1, ["__datetime__", x], "a"]})
    for x in ("a", None, [1], b"x"):
        out.append({"kind": "reserved", "row": [["__datetime__", x]]})
    return out


def refuse_cases():
    return [
        {"kind": "refuse", "why": "int>=2^64", "row": [2**64]},
        {"kind": "refuse", "why": "int<-2^63", "row": [-(2**63) - 1]},
        {"kind": "refuse", "why": "int>=2^64", "row": [[1, {"a": 10**30}]]},
    ]


def run(ctx):
    ctx.note("rule", "one case = one row (encoded, decoded, and decoded again under every strict prefix up to 4 KiB "
             "records / sampled beyond, 4 extensions, 36 guarded and 13 unguarded bit flips), or one arbitrary buffer; "
             "non-trivial = non-empty row that was emitted, or a buffer of at least header size; distinct by canonical JSON")
    ctx.note("assumptions", [
        "ormsgpack is external: its format choices, its pack depth limit (255 containers) and unpack recursion limit (1023 levels) are parameters of the model, validated byte-for-byte / at the boundary by correspondence",
        "time.time_ns() is a parameter (< 2^64); bytes 6..13 are read back from the record and fed to the model",
        "text is valid Unicode (no lone surrogates: packb raises on them)",
        "decoded maps with repeated keys (never emitted) are compared after applying Python's dict semantics to the model's association list",
    ])
    rng = ctx.rng
    batch = list(exhaustive_cases())
    n_ex = len(batch)
    evaluate(ctx, batch)
    ctx.exhaustive = False
    ctx.note("exhaustive_scope", "all rows of width 0, 1 over %d boundary values and all rows of width 2 over 15 values (%d rows); "
             "for each, every tear point, the 36 guarded bit flips and 4 extensions" % (len(SCALARS) + len(small_containers()), n_ex))
    evaluate(ctx, list(float32_cases()) + reserved_cases(rng) + refuse_cases())
    evaluate(ctx, boundary_cases(ctx))
    n_rows = ctx.scale(700, 12000)
    n_bytes = ctx.scale(6000, 150000)
    done = 0
    while done < n_rows and ctx.time_left() > 8:
        k = min(150, n_rows - done)
        evaluate(ctx, [random_row(rng, big=(i % 5 == 0)) for i in range(k)])
        done += k
    done = 0
    while done < n_bytes and ctx.time_left() > 4:
        k = min(3000, n_bytes - done)
        evaluate(ctx, [random_bytes_case(rng) for _ in range(k)])
        done += k
    # the cap
    big = [{"kind": "big", "n": MAX + 1}, {"kind": "big", "n": MAX + 1000}]
    if ctx.tier == "thorough":
        big += [{"kind": "big", "n": MAX}, {"kind": "big", "n": MAX, "cut": 1}, {"kind": "big", "n": MAX, "ext": 1},
                {"kind": "big", "n": 8 * 1024 * 1024 + 1}, {"kind": "big", "n": 8 * 1024 * 1024 + 1, "cut": 5},
                {"kind": "big", "n": MAX, "cut": MAX // 2}]
    else:
        big += [{"kind": "big", "n": MAX}, {"kind": "big", "n": 70000}, {"kind": "big", "n": 70000, "cut": 3},
                {"kind": "big", "n": 70000, "ext": 2}]
    for c in big:
        evaluate(ctx, [c])


def intensify(ctx):
    rng = ctx.rng
    n = 0
    while n < 4000 and ctx.time_left() > 5:
        evaluate(ctx, [random_row(rng, big=(i % 4 == 0)) for i in range(150)])
        evaluate(ctx, [random_bytes_case(rng) for _ in range(2000)])
        n += 150


def replay(ctx, case):
    evaluate(ctx, [case])


KNOWN_PREDICATES = {}
