"""C01 — Row byte format is lossless and self-delimiting.

Ties per case (DESIGN.md §6/C01, design_notes/C01.md):

* oracle, on the implementation alone: `Row.from_bytes(Row.as_bytes)` equals the row in wire form
  (floats by bit pattern, bool != int, tuples compared as lists); every strict prefix, every
  extension, every change of the version nibble and every change of the four length bytes raises
  `DataError` — never another row, never another exception.  The oracle runs on **two decoders**:
  the binary that is loaded (`bin`) and the working tree's `compiled.pyx` executed by the
  source-level shadow (`src`, harness/pyxshadow.py) behind the same Python glue `Row.from_bytes`,
  so an edit of the `.pyx` that nobody can compile here still yields a concrete failing record;
* correspondence with `Model/RowCodec.lean`: the whole record byte for byte (`encode`, with the
  timestamp read back from bytes 6..13: the clock is a parameter), and the outcome class of the
  decoder (`ok row` / malformed / badLength / payloadError) on the record and on every alteration
  (one `mutants` model call per record: tears, extensions, bit flips, nibble values, replaced
  length fields; unguarded bits are accepted by design), and on arbitrary buffers;
* sequences: rows serialised one after another in one process (state shared between calls), every
  record decoded afterwards, the concatenation cut into records by the length fields
  (`Model/RowStream.lean`, theorem `split_concat`);
* two callers at the same time (`kind: conc`): two real `as_bytes` / `from_bytes` calls in two threads under the
  deterministic line-granular scheduler (harness/sched.py), every schedule with one pre-emption (two in the thorough
  tier); every emitted record / decoded row is judged by the same oracle, every emitted record is compared with the model;
* encoder refusals (nesting beyond ormsgpack's limit, integers beyond 64 bits, payload above the
  cap): no record is emitted on either side;  `default=` glue: what non-native items turn into;
* the kind of row *object* (`obj`: built from a tuple / a dict, handed back by from_bytes, user subclasses with and
  without `__slots__`, a row a DataFrame holds) × the class variant; every decoded row is serialised again, every row
  object is serialised three times with `nbytes()` in between.;
* one row object used several times (`kind: obj`): `as_bytes` / `nbytes()` / the other members in any order, **in-place edits of the
  lists and maps inside the row** (`e+` / `e-` / `e=`: a `Row` is an immutable tuple, what it holds need not be) and copies of
  the object (`cp` / `dcp` / `pk`) in between: every record is judged against the items the object holds AT THAT MOMENT
  (`Model/RowObject.lean`, theorems `object_history_irrelevant`, `records_follow_edits`).

Totality: whatever a call into orso returns or raises is mapped to an outcome the oracle judges (`classify_row`,
`impl_decode`, `impl_encode`, `judge_emitted`, `judge_altered`); nothing the implementation does can end the run with a
harness error (only `KeyboardInterrupt` passes through).
"""
import datetime
import json
import os
import re
import struct
import subprocess
import sys

from .. import core, gen, wire
from ..core import InfraError, shrink

MAX = 16 * 1024 * 1024
MODEL_TEARS = int(os.environ.get("C01_MODEL_TEARS", "4096"))  # records up to this size: every tear point also goes to the model
_R = {}
HISTORY = []  # (row, tuples) of everything serialised in this process by the run, in order
_RECORD_HISTORY = [True]
_REPORTED = set()  # normalised clauses already reported with a minimised input in this run


def row_class(width, variant=None):
    """The Row class a case goes through: a class with `width` fields (default), one created with
    `tuples_only=True`, or the base class `Row` itself (no fields) — all share as_bytes / from_bytes."""
    from orso.row import Row

    if variant == "base":
        return Row
    key = (width, variant)
    if key not in _R:
        _R[key] = Row.create_class(["c%d" % i for i in range(width)], tuples_only=(variant == "tuples_only"))
    return _R[key]


# --------------------------------------------------------------------------- canonical forms


def to_py(v, tuples):
    """Wire value -> the Python value handed to Row (optionally lists as tuples)."""
    if isinstance(v, list):
        xs = [to_py(x, tuples) for x in v]
        return tuple(xs) if tuples else xs
    if isinstance(v, dict):
        return {k: to_py(x, tuples) for k, x in v.items()}
    return v


class Foreign:
    """A value outside the wire universe that the implementation handed back (an object, a Decimal, a numpy
    array, ...): shown by type name and repr, equal only to a foreign value of the same type name, never to a
    value of the domain."""

    def __init__(self, v):
        self.type = type(v).__name__
        try:
            self.text = repr(v)[:120]
        except BaseException:
            self.text = "<unprintable>"

    def __eq__(self, o):
        return isinstance(o, Foreign) and o.type == self.type

    def __ne__(self, o):
        return not self.__eq__(o)

    def __hash__(self):
        return hash(("Foreign", self.type))

    def __repr__(self):
        return "<foreign %s %s>" % (self.type, self.text)


def canon(v, depth=0):
    """Implementation value -> wire universe (tuples as lists); anything else becomes a `Foreign` marker, so
    that whatever the implementation hands back can be compared and printed."""
    if depth > 1100:
        return Foreign(v)
    if isinstance(v, (list, tuple)):
        return [canon(x, depth + 1) for x in v]
    if isinstance(v, dict):
        return {(k if isinstance(k, str) else Foreign(k)): canon(x, depth + 1) for k, x in v.items()}
    if isinstance(v, bytearray):
        return bytes(v)
    if v is None or isinstance(v, (bool, int, float, str, bytes)):
        return v
    return Foreign(v)


def undup(v):
    """Model output: an association list with repeated keys denotes the dict Python builds."""
    if isinstance(v, tuple) and len(v) == 2 and v[0] == "__dupmap__":
        d = {}
        for k, x in v[1]:
            d[k] = undup(x)
        return d
    if isinstance(v, list):
        return [undup(x) for x in v]
    if isinstance(v, dict):
        return {k: undup(x) for k, x in v.items()}
    return v


def is_reserved(v):
    return isinstance(v, (list, tuple)) and len(v) == 2 and isinstance(v[0], str) and v[0] == "__datetime__"


# --------------------------------------------------------------------------- the decoders under test

_SHADOW = {}


def shadow():
    """(callable | None, reason) — `from_bytes_cython` of the working tree's .pyx, de-cythonised."""
    if "f" not in _SHADOW:
        try:
            from .. import pyxshadow

            funcs, failed = pyxshadow.load(core.REPO)
            _SHADOW["f"] = funcs.get("from_bytes_cython")
            _SHADOW["why"] = failed.get("from_bytes_cython")
        except Exception as e:  # the shadow is an extra: never let it stop the check
            _SHADOW["f"] = None
            _SHADOW["why"] = "%s: %s" % (type(e).__name__, str(e)[:200])
    return _SHADOW["f"], _SHADOW.get("why")


class using_source:
    """Run `Row.from_bytes` with the decoder of compiled.pyx (shadow) instead of the binary.  The glue may reach
    the compiled function through a name bound in orso.row (`from ... import from_bytes_cython`) or through the
    module (`compiled.from_bytes_cython(...)`): both places are patched, whichever exist."""

    def __enter__(self):
        self.saved = []
        f = shadow()[0]
        if f is None:
            return self
        self.was = _ACTIVE[0]
        _ACTIVE[0] = "src"
        try:
            import orso.compute.compiled as cc
            import orso.row as rowmod
        except Exception:
            return self
        for mod in (rowmod, cc):
            if hasattr(mod, "from_bytes_cython"):
                try:
                    old = getattr(mod, "from_bytes_cython")
                    setattr(mod, "from_bytes_cython", f)
                    self.saved.append((mod, old))
                except Exception:
                    pass
        return self

    def __exit__(self, *a):
        for mod, old in reversed(self.saved):
            try:
                setattr(mod, "from_bytes_cython", old)
            except Exception:
                pass
        self.saved = []
        _ACTIVE[0] = getattr(self, "was", "bin")


_ACTIVE = ["bin"]  # which decoder `Row.from_bytes` reaches right now
_DE_TEXT = {}  # decoder -> (text of the error for a short buffer, text of the error for a wrong length field) | None


def data_error_kind(text):
    """`malformed` / `badLength` — the two `DataError`s of the decoder are told apart by their message.  The messages
    are not part of the property, so they are *learned from the decoder at hand* (once per decoder: what it says for an
    empty buffer and what it says for a well-formed header with a wrong length field) instead of being fixed here: a
    reworded message changes nothing.  When the decoder uses one message for both the kind is `dataError`, which
    `same_form` lets agree with either of the model's two."""
    who = _ACTIVE[0]
    if who not in _DE_TEXT:
        _DE_TEXT[who] = None  # (also guards against re-entry while learning)
        try:
            from orso.exceptions import DataError
            import orso.compute.compiled as cc
            import orso.row as rowmod

            f = getattr(rowmod, "from_bytes_cython", None) or cc.from_bytes_cython
            texts = []
            for probe in (b"", b"\x10\x00\x00\x00\x00\x09" + b"\0" * 8 + b"\x90"):
                try:
                    f(probe)
                    texts.append(None)
                except DataError as e:
                    texts.append(_exc_text(e))
                except BaseException:
                    texts.append(None)
            if texts[0] is not None and texts[1] is not None:
                _DE_TEXT[who] = tuple(texts)
        except BaseException:
            _DE_TEXT[who] = None
    learned = _DE_TEXT.get(who)
    if learned is None:
        return "badLength" if "incorrect length" in text else "malformed"
    if learned[0] == learned[1]:
        return "dataError"
    return "badLength" if text == learned[1] else "malformed"


def same_form(g, m):
    """Outcome forms agree (wire equality; an implementation that does not tell its two data errors apart agrees with both)."""
    if g == m or wire.same(g, m):
        return True
    both = ("malformed", "badLength", "dataError")
    return (isinstance(g, list) and isinstance(m, list) and len(g) == 2 and len(m) == 2 and g[0] == "err" and m[0] == "err"
            and g[1] in both and m[1] in both and "dataError" in (g[1], m[1]))


def source_reachable():
    """Does `Row.from_bytes` reach the shadow when it is patched in?  (A glue that binds the compiled function
    somewhere the harness does not patch would silently test the binary twice.)"""
    if "reach" in _SHADOW:
        return _SHADOW["reach"]
    f = shadow()[0]
    ok = False
    if f is not None:
        calls = []

        def probe(data):
            calls.append(1)
            return f(data)

        _SHADOW["f"] = probe
        try:
            with using_source():
                try:
                    row_class(0).from_bytes(b"\x10\x00\x00\x00\x00\x01" + b"\0" * 8 + b"\x90")
                except BaseException:
                    pass
        finally:
            _SHADOW["f"] = f
        ok = bool(calls)
        if not ok:
            _SHADOW["why"] = "Row.from_bytes does not reach from_bytes_cython through orso.row / orso.compute.compiled"
    _SHADOW["reach"] = ok
    return ok


class _Direct:
    """`orso.compute.compiled.from_bytes_cython` called without the Python glue (second call site)."""

    @staticmethod
    def from_bytes(data):
        import orso.compute.compiled as cc

        return cc.from_bytes_cython(data)


# Every outcome of a call into orso is a *judged* outcome, never a harness error.  `Row.from_bytes(data)` can
#   return a row (a tuple / list: `Row` is a tuple)            -> ["ok", items]
#   return something that is not a row (None, a str, an object) -> ["notrow", type name]
#   raise DataError                                            -> ["err", "badLength" | "malformed"],  "DataError"
#   raise anything else (incl. SystemExit, RecursionError)     -> ["err", "payloadError"],  exception class name
# and the property decides what each of them means for the buffer at hand (judge_emitted / judge_altered).


def _exc_name(e):
    try:
        return type(e).__name__
    except BaseException:
        return "BaseException"


def _exc_text(e):
    try:
        return str(e)
    except BaseException:
        return ""


def classify_row(row):
    """What the decoder handed back, as an outcome form."""
    if not isinstance(row, (tuple, list)):
        return ["notrow", type(row).__name__]
    try:
        items = []
        for x in row:
            if isinstance(x, datetime.datetime):
                items.append(["dt", None])
            else:
                items.append(["v", canon(x)])
    except KeyboardInterrupt:
        raise
    except BaseException as e:  # a row whose own iteration raises, a cyclic value
        return ["notrow", "%s (reading it raises %s)" % (type(row).__name__, _exc_name(e))]
    return ["ok", items]


def impl_decode(width, data, variant=None, keep=None):
    """Outcome class of Row.from_bytes on `data`: (form, exception name | None).  `keep` (a list) receives the
    object the decoder returned, for callers that use it again (a decoded row serialised again)."""
    try:
        from orso.exceptions import DataError
    except BaseException:
        DataError = ()
    try:
        R = _Direct if variant == "direct" else row_class(width, variant)
        row = R.from_bytes(data)
    except KeyboardInterrupt:
        raise
    except DataError as e:
        return ["err", data_error_kind(_exc_text(e))], "DataError"
    except BaseException as e:  # ormsgpack ValueError, the `cdef list` cast TypeError, fromtimestamp errors, anything
        return ["err", "payloadError"], _exc_name(e)
    if keep is not None:
        keep.append(row)
    return classify_row(row), None


def outcome_label(g):
    return g[1] if g[0] == "err" else ("returns-" + g[1].split(" ")[0] if g[0] == "notrow" else "ok")


def decoded_values(got):
    """Items of an `ok` outcome as wire values (datetimes stay tagged)."""
    return [it[1] if it[0] == "v" else it for it in got[1]]


def judge_emitted(got, exc, row):
    """The property on the decoder's answer to a record the encoder emitted for `row`: (clause, detail) | None."""
    if got[0] == "err":
        return "an emitted record is rejected by the decoder (%s)" % exc, got
    if got[0] != "ok":
        return "an emitted record is answered with %s instead of a row" % got[1], got
    back = decoded_values(got)
    if not wire.same(back, row):
        td = text_difference(row, back)
        return "round trip returns a different row", (back if td is None else {"decoded": back, "first_text_difference": td})
    return None


def code_points(s):
    return [hex(ord(ch)) for ch in s]


def text_difference(sent, got, path="row"):
    """Text is a sequence of code points and nothing else: the first place where the decoded row holds a text (value
    or map key) with other code points than the row that was serialised, shown as code points -- two strings that
    print alike ('\u00e9' and 'e\u0301') are different values of the domain.  None when the difference is elsewhere."""
    if isinstance(sent, str) and isinstance(got, str):
        return None if sent == got else {"at": path, "sent_code_points": code_points(sent), "decoded_code_points": code_points(got)}
    if isinstance(sent, (list, tuple)) and isinstance(got, (list, tuple)) and len(sent) == len(got):
        for i, (a, b) in enumerate(zip(sent, got)):
            d = text_difference(a, b, "%s[%d]" % (path, i))
            if d is not None:
                return d
        return None
    if isinstance(sent, dict) and isinstance(got, dict):
        ks, kg = list(sent.keys()), list(got.keys())
        if ks != kg:
            for i, a in enumerate(ks):
                b = kg[i] if i < len(kg) else None
                if a != b:
                    return {"at": "%s key #%d" % (path, i), "sent_code_points": code_points(a),
                            "decoded_code_points": code_points(b) if isinstance(b, str) else None,
                            "sent_keys": len(ks), "decoded_keys": len(kg)}
            return None
        for k in ks:
            d = text_difference(sent[k], got[k], "%s[%s]" % (path, "+".join(code_points(k)) or "''"))
            if d is not None:
                return d
    return None


def judge_altered(label, got, exc):
    """The property on the decoder's answer to a strict prefix / extension / altered version or length: it must
    be rejected *with a data error* — not decoded, not answered with None, not another exception."""
    if got[0] == "ok":
        return "%s record is accepted and decoded into a row" % label, got[1]
    if got[0] != "err":
        return "%s record is answered with %s instead of a data error" % (label, got[1]), got
    if exc != "DataError":
        return "%s record raises %s instead of a data error" % (label, exc), got
    return None


def decode_all(width, datas, variant=None):
    """{'bin': [...], 'src': [...] | None, 'direct': [...]} outcomes of the decoders on every buffer
    (`direct`: the compiled function without the glue, on the first buffer only)."""
    out = {"bin": [impl_decode(width, d, variant) for d in datas], "src": None, "direct": [impl_decode(width, datas[0], "direct")]}
    if shadow()[0] is not None and source_reachable():
        with using_source():
            out["src"] = [impl_decode(width, d, variant) for d in datas]
    return out


WHO = {"bin": "", "src": " [compiled.pyx as written, executed by the source-level shadow]",
       "direct": " [orso.compute.compiled.from_bytes_cython called directly]"}


def model_decode_form(v):
    if v[0] == "ok":
        items = []
        for it in v[1]:
            items.append(["dt", None] if it[0] == "dt" else ["v", undup(it[1])])
        return ["ok", items]
    return v


def model_forms(text, what):
    if not text.startswith("ok "):
        raise InfraError("model rejected a %s op: %r" % (what, text[:200]))
    return wire.dec_all(text[3:])


_LAST_FRAME = [False]


def make_row_object(case):
    """The row *object* a case serialises.  `obj` says how it is obtained (as_bytes is one property shared by all of
    them, but what the object is — an instance with or without a `__dict__`, built by which constructor — is
    part of the input): `tuple` (default: `R(values)`), `dict` (`R({field: value})`, through the compiled column
    extractor), `decoded` (`R.from_bytes(R(values).as_bytes)`: what a reader holds), `slotted` / `plain`
    (instances of a user subclass of the case's class with / without `__slots__ = ()`), `frame` (the row a
    `DataFrame` made and sized in `append`)."""
    row = case["row"]
    _LAST_FRAME[0] = False
    R = row_class(len(row), case.get("cls"))
    values = tuple(to_py(x, case.get("tuples", False)) for x in row)
    how = case.get("obj", "tuple")
    if how == "dict" and case.get("cls") in (None,):
        return R({"c%d" % i: v for i, v in enumerate(values)})
    if how == "decoded":
        # the two steps before the call under test are judged by the plain cases; here they only have to succeed
        try:
            rec0 = R(values).as_bytes
        except KeyboardInterrupt:
            raise
        except BaseException as e:
            raise _NoObject("as_bytes of the fresh row raises %s" % _exc_name(e))
        if not isinstance(rec0, bytes):
            raise _NoObject("as_bytes of the fresh row returns %s" % type(rec0).__name__)
        try:
            obj = R.from_bytes(rec0)
        except KeyboardInterrupt:
            raise
        except BaseException as e:
            raise _NoObject("from_bytes of its own record raises %s" % _exc_name(e))
        if not isinstance(obj, tuple) or not hasattr(type(obj), "as_bytes"):
            raise _NoObject("from_bytes of its own record returns %s" % type(obj).__name__)
        return obj
    if how == "frame" and not case.get("cls"):
        # what a DataFrame holds: a row made by the frame's own factory from a dict, already sized once by `append`
        # (`nbytes()` -> `as_bytes`: the call under test is the second use of the object).  The frame is outside C01:
        # when it cannot be built for these values the case falls back to the plain object.
        try:
            from orso import DataFrame

            df = DataFrame(schema=["c%d" % i for i in range(len(values))])
            df.append({"c%d" % i: v for i, v in enumerate(values)})
            obj = df._rows[-1]
            if isinstance(obj, tuple) and hasattr(type(obj), "as_bytes"):
                _LAST_FRAME[0] = True  # sized once by `DataFrame.append` (dataframe.py:153)
                return obj
        except KeyboardInterrupt:
            raise
        except BaseException as e:
            _FRAME_UNAVAILABLE[_exc_name(e)] = _FRAME_UNAVAILABLE.get(_exc_name(e), 0) + 1
        return R(values)
    if how in ("slotted", "plain"):
        key = (len(row), case.get("cls"), how)
        if key not in _R:
            _R[key] = type("UserRow", (R,), {"__slots__": ()} if how == "slotted" else {})
        return _R[key](values)
    return R(values)


_FRAME_UNAVAILABLE = {}


class _NoObject(Exception):
    """The row object of a case could not be obtained (a step *before* the call under test failed)."""


def refusal_clause(err):
    if err.startswith("no-object: "):
        return "a decoded row cannot be obtained to be serialised again (%s)" % err[11:]
    return "the encoder refuses a row of the value domain (%s)" % err


def impl_encode(case):
    """(record bytes | None, outcome kind | None).  Kinds: tooLarge (DataError), codec (TypeError), overflow,
    `raises X` for any other exception, `returns X instead of bytes` when as_bytes hands back something else."""
    try:
        from orso.exceptions import DataError
    except BaseException:
        DataError = ()
    row = case["row"]
    if _RECORD_HISTORY[0]:
        HISTORY.append((row, bool(case.get("tuples", False))))
    try:
        rec = make_row_object(case).as_bytes
    except KeyboardInterrupt:
        raise
    except _NoObject as e:
        return None, "no-object: %s" % e
    except DataError:
        return None, "tooLarge"
    except TypeError:
        return None, "codec"
    except OverflowError:
        return None, "overflow"
    except BaseException as e:  # nothing else is documented: still an outcome of the implementation, not of the harness
        return None, "raises " + _exc_name(e)
    if not isinstance(rec, bytes):
        return None, "returns %s instead of bytes" % type(rec).__name__
    return rec, None


def impl_reencode(case, rec):
    """A decoded row is a row: serialise what `from_bytes(rec)` returned again and decode that.
    -> None (nothing to judge: the first decode is judged elsewhere) | ("fail" | "disagree", clause, detail)."""
    row = case["row"]
    kept = []
    got, exc = impl_decode(len(row), rec, case.get("cls"), keep=kept)
    if got[0] != "ok" or not kept or not hasattr(type(kept[0]), "as_bytes"):
        return None
    try:
        from orso.exceptions import DataError
    except BaseException:
        DataError = ()
    try:
        rec2 = kept[0].as_bytes
    except KeyboardInterrupt:
        raise
    except BaseException as e:
        return "fail", "the encoder refuses a decoded row (raises %s) when it is serialised again" % _exc_name(e), {"record": rec}
    if not isinstance(rec2, bytes):
        return "fail", "the encoder returns %s instead of bytes for a decoded row" % type(rec2).__name__, {"record": rec}
    got2, exc2 = impl_decode(len(row), rec2, case.get("cls"))
    cl = judge_emitted(got2, exc2, row)
    if cl is not None:
        return "fail", cl[0] + " [record of a decoded row serialised again]", {"record": rec, "again": rec2, "got": cl[1]}
    if rec2[:6] + rec2[14:] != rec[:6] + rec[14:]:
        return "disagree", "a decoded row serialised again gives another payload", {"record": rec, "again": rec2}
    return None


# --------------------------------------------------------------------------- alterations of a record


def apply_desc(rec, d):
    """The harness's own reading of an alteration descriptor (the model has `Drv.C01.applyMut`)."""
    k = d[0]
    if k == "t":
        return rec[: d[1]]
    if k == "f":
        b = bytearray(rec)
        b[d[1]] ^= 1 << d[2]
        return bytes(b)
    if k == "x":
        return rec + d[1]
    if k == "l":
        return rec[:2] + d[1] + rec[6:]
    if k == "s":
        b = bytearray(rec)
        b[d[1]] = d[2]
        return bytes(b)
    raise InfraError("bad descriptor %r" % (d,))


def mutations(case, rec, rng_seed, light=False):
    """[(label, descriptor, must_be_rejected, to_model)] — deterministic in (case, rec length).

    Every alteration is put to both decoders (oracle); the model sees every tear point of records
    up to 600 bytes and a sample beyond (correspondence)."""
    import random

    rng = random.Random(rng_seed)
    n = len(rec)
    huge = n > 65536
    out = []
    if (n <= 4096 and not light) or n < 64:
        points = list(range(n))
    else:
        pts = set(range(0, 40)) | set(range(n - 40, n)) | {n // 2, 13, 14, 15}
        pts |= {rng.randrange(n) for _ in range(80 if not light else 10)}
        points = sorted(p for p in pts if 0 <= p < n)
    if (n <= MODEL_TEARS and not light) or not points:
        model_points = set()  # all of them, through the `tears` op (one model call, run-length answer): see evaluate / eval_row
    elif not huge:
        model_points = {0, 1, 2, 5, 6, 13, 14, 15, 16, n // 2, n - 2, n - 1} | {rng.choice(points) for _ in range(28)}
    else:
        model_points = {0, 13, 14, 15, n // 2, n - 1, rng.choice(points), rng.choice(points)}
    for k in points:
        out.append(("torn", ["t", k], True, k in model_points))
    out.append(("ext1", ["x", b"\x00"], True, True))
    # what glue in front of the decoder is most likely to strip: line terminators, blanks (deterministic, so that a
    # failure survives shrinking of the row)
    for sfx in (b"\n", b"\r\n", b" "):
        out.append(("ext-terminator", ["x", sfx], True, not huge))
    out.append(("ext1", ["x", bytes([rng.getrandbits(8)])], True, not huge))
    out.append(("extN", ["x", bytes(rng.getrandbits(8) for _ in range(rng.randint(2, 20)))], True, not huge))
    if n:
        out.append(("ext2", ["x", rec], True, not huge))
    pick = rng.randrange(32)
    # (a record shorter than its own header is judged as it is -- the decoder must accept what the encoder emits --
    # and gets only the alterations that exist for it: nothing below indexes past its end)
    if n >= 1:
        for j in range(4, 8):
            out.append(("verflip", ["f", 0, j], True, not huge or j == 4 + pick % 4))
        # every other value of the version nibble (theorem version_altered_rejected), low nibble kept / random
        for v in range(16):
            if v != rec[0] >> 4:
                out.append(("vernib", ["s", 0, (v << 4) | (rec[0] & 15 if v % 2 else rng.getrandbits(4))], True, not huge))
    if n >= 6:
        for i in range(2, 6):
            for j in range(8):
                out.append(("lenflip", ["f", i, j], True, not huge or (i - 2) * 8 + j in (pick, (pick * 7 + 3) % 32)))
        # any other four length bytes (theorem length_altered_rejected): neighbours, byte order, sign bit, random
        ln = int.from_bytes(rec[2:6], "big")
        alts = {(ln + 1) & 0xFFFFFFFF, (ln - 1) & 0xFFFFFFFF, ln | 0x80000000, (ln + 14) & 0xFFFFFFFF, n & 0xFFFFFFFF,
                int.from_bytes(struct.pack("<I", ln), "big"), (ln << 8) & 0xFFFFFFFF, ln >> 8, 0, 0xFFFFFFFF, rng.getrandbits(32),
                rng.getrandbits(8), (ln + 256) & 0xFFFFFFFF, (ln + 65536) & 0xFFFFFFFF, (ln + (1 << 24)) & 0xFFFFFFFF,
                ln & 0x00FFFFFF, ln ^ 0x01000000, ln ^ 0x80000000}
        alts.discard(ln)
        for a in sorted(alts):
            out.append(("lenset", ["l", struct.pack(">I", a)], True, not huge))
    # not guarded by design: low nibble of byte 0, byte 1, the timestamp (records above 4 KiB: one of each,
    # every accepted alteration costs a full decode and comparison of the row)
    if n >= 1:
        for j in range(4):
            if n <= 4096 or j == pick % 4:
                out.append(("lowflip", ["f", 0, j], False, True))
    if n >= 2:
        for j in range(8):
            if n <= 4096 or j == pick % 8:
                out.append(("flagflip", ["f", 1, j], False, True))
    if n >= 14:
        out.append(("tsflip", ["f", 6 + rng.randrange(8), rng.randrange(8)], False, not huge))
    return out


def mut_seed(row, rec):
    return len(row) * 7919 + (len(rec) if rec else 0)


# --------------------------------------------------------------------------- validity of cases


def wire_ok(v, depth=0):
    if v is None or isinstance(v, (bool, float, str, bytes)):
        if isinstance(v, str):
            try:
                v.encode("utf-8")
            except UnicodeEncodeError:
                return False
        return True
    if isinstance(v, int):
        return -(2**63) <= v < 2**64
    if isinstance(v, list):
        return depth < 200 and all(wire_ok(x, depth + 1) for x in v)
    if isinstance(v, dict):
        return depth < 200 and all(isinstance(k, str) and wire_ok(k) and wire_ok(x, depth + 1) for k, x in v.items())
    return False


def valid_row(row):
    return isinstance(row, list) and wire_ok(row) and not any(is_reserved(x) for x in row)


def valid_case(c):
    k = c.get("kind")
    if k == "row":
        return valid_row(c.get("row")) and c.get("obj", "tuple") in ("tuple", "dict", "decoded", "slotted", "plain", "frame") \
            and c.get("cls") in (None, "base", "tuples_only") and not (c.get("obj") in ("dict", "frame") and c.get("cls"))
    if k == "seq":
        rows = c.get("rows")
        return isinstance(rows, list) and len(rows) >= 1 and all(valid_row(r) for r in rows)
    if k == "bytes":
        return isinstance(c.get("data"), bytes) and isinstance(c.get("width"), int)
    if k == "conc":
        ts = c.get("threads")
        return isinstance(ts, list) and len(ts) >= 2 and all(isinstance(t, dict) and t.get("op") in ("enc", "dec") and valid_row(t.get("row")) for t in ts) \
            and all(isinstance(x, int) and 0 <= x < len(ts) for x in c.get("schedule", []))
    if k == "obj":
        return valid_row(c.get("row")) and isinstance(c.get("calls"), list) and all(x in OBJ_CALLS for x in c["calls"]) \
            and any(x in ("a", "n") for x in c["calls"]) and c.get("obj", "tuple") in ("tuple", "dict", "decoded", "slotted", "plain", "frame", "twin", "dup") \
            and c.get("cls") in (None, "base", "tuples_only") and not (c.get("obj") in ("dict", "frame") and c.get("cls"))
    if k == "new":
        return (c.get("fields") is None or (isinstance(c.get("fields"), list) and all(isinstance(f, str) for f in c["fields"]))) \
            and isinstance(c.get("arg"), list) and len(c["arg"]) >= 2 and c["arg"][0] in ("t", "d", "m") \
            and (c["arg"][0] != "m" or (len(c["arg"]) == 3 and c["arg"][1] in MAPPING_KINDS and isinstance(c["arg"][2], dict)))
    return k in ("reserved", "refuse", "big", "deep", "glue", "input")


# --------------------------------------------------------------------------- the oracle


def judge_row(row, datas, labels, musts, outs, who, descs=None):
    """The property on one decoder's outcomes. `outs[0]` is the outcome on the record itself."""
    got, exc = outs[0]
    cl = judge_emitted(got, exc, row)
    if cl is not None:
        return cl[0] + WHO[who], cl[1]
    first = None
    for j, (label, must, data, (g, exc)) in enumerate(zip(labels, musts, datas[1:], outs[1:])):
        if not must:
            continue
        cl = judge_altered(label, g, exc)
        if cl is None:
            continue
        if first is None:
            first = (cl[0], {"data": data, "outcome": cl[1], "alteration": descs[j] if descs else None, "all": []})
        if cl[0] == first[0] and len(first[1]["all"]) < 40:
            # every alteration of the record that fails the same way (e.g. every tear point), not only the first
            first[1]["all"].append(descs[j] if descs else label)
    if first is not None:
        return first[0] + WHO[who], first[1]
    return None


def oracle_row(case, rec, muts, outcomes=None):
    """(clause, detail) or None, over both decoders (binary first)."""
    row = case["row"]
    datas = [rec] + [apply_desc(rec, d) for _, d, _, _ in muts]
    labels = [m[0] for m in muts]
    musts = [m[2] for m in muts]
    if outcomes is None:
        outcomes = decode_all(len(row), datas, case.get("cls"))
    for who in ("bin", "src", "direct"):
        if outcomes[who] is None:
            continue
        cl = judge_row(row, datas, labels, musts, outcomes[who], who, [m[1] for m in muts])
        if cl is not None:
            return cl
    return None


def impl_reuse(case):
    """One row object used again: `as_bytes`, `nbytes()` (which may cache on the object), `as_bytes` once more -- every
    record it emits is a record of the row.  -> None | ("fail", clause, detail).  `nbytes()` itself is outside C01."""
    row = case["row"]
    try:
        obj = make_row_object(case)
        r1 = obj.as_bytes
    except KeyboardInterrupt:
        raise
    except BaseException:
        return None  # judged by the plain path
    try:
        obj.nbytes()
    except KeyboardInterrupt:
        raise
    except BaseException:
        pass
    for n in (2, 3):
        try:
            r = obj.as_bytes
        except KeyboardInterrupt:
            raise
        except BaseException as e:
            return "fail", "the encoder refuses a row of the value domain (raises %s) when the same row object is serialised again" % _exc_name(e), {"use": n}
        if not isinstance(r, bytes):
            return "fail", "the encoder returns %s instead of bytes when the same row object is serialised again" % type(r).__name__, {"use": n}
        got, exc = impl_decode(len(row), r, case.get("cls"))
        cl = judge_emitted(got, exc, row)
        if cl is not None:
            return "fail", cl[0] + " [record of a row object serialised before]", {"use": n, "record": r, "first": r1, "got": cl[1]}
    return None


def full_oracle_row(case, rec):
    """oracle_row, then the decoded row serialised again: everything the property says about one row."""
    cl = oracle_row(case, rec, mutations(case, rec, mut_seed(case["row"], rec), light=case.get("light", False)))
    if cl is None and len(rec) <= 70000:
        again = impl_reencode(case, rec)
        if again is not None and again[0] == "fail":
            cl = again[1:]
    if cl is None and len(rec) <= 70000:
        again = impl_reuse(case)
        if again is not None:
            cl = again[1:]
    return cl


def py_split(data):
    """The harness's own stream reader: cut `14 + length field` bytes, as long as something is left."""
    out = []
    i = 0
    while i < len(data):
        if len(data) - i < 14:
            return None
        n = int.from_bytes(data[i + 2:i + 6], "big")
        if n >= 2**31 or len(data) - i < 14 + n:
            return None
        out.append(data[i:i + 14 + n])
        i += 14 + n
    return out


def oracle_seq(case):
    """Rows serialised one after another in this process, then decoded (in order, then in reverse)."""
    rows = case["rows"]
    tuples = case.get("tuples", False)
    recs = []
    for i, row in enumerate(rows):
        rec, err = impl_encode({"row": row, "tuples": tuples})
        if rec is None:
            return ("the encoder refuses a row of the value domain (%s) in a sequence" % err, {"index": i, "row": row}), recs
        recs.append(rec)
    order = list(range(len(rows))) + list(range(len(rows) - 1, -1, -1))
    for who in ("bin", "src"):
        if who == "src" and (shadow()[0] is None or not source_reachable()):
            continue
        ctxm = using_source() if who == "src" else None
        if ctxm:
            ctxm.__enter__()
        try:
            for i in order:
                got, exc = impl_decode(len(rows[i]), recs[i])
                cl = judge_emitted(got, exc, rows[i])
                if cl is not None and got[0] == "ok":
                    return ("round trip returns a different row for a row serialised after others in the same process" + WHO[who],
                            {"index": i, "row": rows[i], "decoded": cl[1]}), recs
                if cl is not None:
                    return (cl[0] + " in a sequence" + WHO[who], {"index": i, "row": rows[i]}), recs
        finally:
            if ctxm:
                ctxm.__exit__()
    parts = py_split(b"".join(recs))
    if parts != recs:
        return ("concatenated records are not separated by their length fields", {"records": [r[:6] for r in recs]}), recs
    return None, recs


def _norm(clause):
    return None if clause is None else "".join(ch for ch in clause if not ch.isdigit())


# --------------------------------------------------------------------------- a fresh process


def fresh_oracle(case, timeout=120):
    """Evaluate the oracle on `case` (kind row / seq) in a new interpreter: no state left by earlier cases."""
    env = dict(os.environ)
    env["ORSO_REPO"] = core.REPO
    env["PYTHONPATH"] = core.VERIF + (":" + env["PYTHONPATH"] if env.get("PYTHONPATH") else "")
    p = subprocess.run([sys.executable, "-m", "harness.props.c01", "--fresh"], input=json.dumps(core._jsonable(case)),
                       capture_output=True, text=True, timeout=timeout, env=env, cwd=core.VERIF)
    for l in reversed(p.stdout.split("\n")):
        if l.startswith("FRESH "):
            r = json.loads(l[6:])
            return r.get("clause"), r.get("detail")
    raise InfraError("fresh-process oracle failed: rc=%s %s" % (p.returncode, (p.stdout + p.stderr)[-600:]))


def _fresh_main():
    from .. import runner

    runner.setup_impl_path()
    _RECORD_HISTORY[0] = False
    case = core.unjson(json.loads(sys.stdin.read()))
    clause = None
    if case.get("kind") == "seq":
        cl, _ = oracle_seq(case)
        clause = cl
    else:
        rec, err = impl_encode(case)
        if rec is None:
            clause = (refusal_clause(err), err)
        else:
            clause = full_oracle_row(case, rec)
    print("FRESH " + json.dumps({"clause": clause[0] if clause else None, "detail": core._jsonable(clause[1]) if clause else None}))


def py_equal(a, b):
    """Python `==` of the two rows as the implementation sees them (what a cache keyed by value compares)."""
    try:
        return bool(tuple(to_py(x, True) for x in a) == tuple(to_py(x, True) for x in b))
    except Exception:
        return False


def history_witness(ctx, row, tuples, clause):
    """The row fails here but not in a fresh process: find earlier rows of this process that make it fail."""
    target = _norm(clause)
    tries = [0]

    def fails(rows):
        tries[0] += 1
        cl, _ = fresh_oracle({"kind": "seq", "rows": rows, "tuples": tuples})
        return cl is not None

    prior = []
    seen = set()
    for r, _t in HISTORY[:-1]:
        k = json.dumps(core._jsonable(r), sort_keys=True, default=repr)
        if k not in seen:
            seen.add(k)
            prior.append(r)
    # 1. one earlier row that compares equal under Python's == (a cache keyed by value)
    for r in [r for r in prior if py_equal(r, row) and not wire.same(r, row)][:6]:
        if fails([r, row]):
            return [r, row]
    # 2. one earlier row of the same width, most recent first
    for r in [r for r in reversed(prior) if len(r) == len(row) and not wire.same(r, row)][:4]:
        if fails([r, row]):
            return [r, row]
    # 3. bisect the recent history
    recent = prior[-256:]
    if not fails(recent + [row]):
        return None
    while len(recent) > 1 and tries[0] < 24:
        half = len(recent) // 2
        if fails(recent[half:] + [row]):
            recent = recent[half:]
        elif fails(recent[:half] + [row]):
            recent = recent[:half]
        else:
            break
    # the halves are both needed (or the budget is used): drop chunks, then single rows, while it still fails
    chunk = max(1, len(recent) // 4)
    while chunk >= 1 and tries[0] < 60 and len(recent) > 1:
        i, progress = 0, False
        while i < len(recent) and tries[0] < 60 and len(recent) > 1:
            cand = recent[:i] + recent[i + chunk:]
            if cand and fails(cand + [row]):
                recent, progress = cand, True
            else:
                i += chunk
        if chunk == 1 and not progress:
            break
        chunk = chunk // 2 if chunk > 1 else (1 if progress else 0)
    return recent + [row]


# --------------------------------------------------------------------------- statistics helpers


def kinds_of(v, acc):
    if isinstance(v, list):
        acc.add("list")
        for x in v:
            kinds_of(x, acc)
    elif isinstance(v, dict):
        acc.add("dict")
        for k, x in v.items():
            if isinstance(k, str) and len(k) <= 64:
                for tr in text_traits(k):
                    acc.add("key:" + tr)
            kinds_of(x, acc)
    else:
        acc.add(type(v).__name__)
        if isinstance(v, float):
            if v != v:
                acc.add("float:nan")
            elif v in (float("inf"), float("-inf")):
                acc.add("float:inf")
            elif v == 0 and struct.pack(">d", v)[0] == 0x80:
                acc.add("float:-0.0")
        if isinstance(v, int) and not isinstance(v, bool) and (v >= 2**63 or v == -(2**63)):
            acc.add("int:64-bit-extreme")
        if isinstance(v, str) and not v.isascii():
            acc.add("str:non-ascii")
        if isinstance(v, str) and len(v) <= 64:
            for tr in text_traits(v):
                acc.add("str:" + tr)
    return acc


def size_bucket(n):
    for b in (16, 32, 64, 128, 256, 1024, 4096, 65536, 2**20):
        if n <= b:
            return "<=%d" % b
    return ">1MiB"


def expand(c):
    """`deep` cases are stored compactly (depth, shape) so that replay files stay readable."""
    if c.get("kind") != "deep":
        return c
    d, shape = c["depth"], c.get("shape", "list")
    v = c.get("inner", 1)
    for i in range(d):
        v = {"k": v} if (shape == "mixed" and i % 2) else [v]
    # the row tuple is one more container: ormsgpack packs at most 255 nested containers
    inner_is_container = isinstance(c.get("inner", 1), (list, dict))
    total = d + 1 + (1 if inner_is_container else 0)
    return {"kind": "row" if total <= 255 else "refuse", "why": "too-deep", "row": [v], "orig": c}


# --------------------------------------------------------------------------- evaluation


def evaluate(ctx, cases):
    """Run a batch: implementation (both decoders), oracle, model, comparison."""
    lines = []
    plan = []
    conc = [c for c in cases if c.get("kind") == "conc"]
    if conc:
        evaluate_conc(ctx, [(c, conc_run(c)) for c in conc])
        cases = [c for c in cases if c.get("kind") != "conc"]
    for c in cases:
        c = expand(c)
        k = c["kind"]
        first = len(lines)
        if k == "row" or k == "reserved":
            rec, err = impl_encode(c)
            ts = int.from_bytes(rec[6:14], "big") if rec else 0
            lines.append("C01 encode " + wire.line(ts, c["row"]))
            muts = []
            if rec is not None:
                muts = mutations(c, rec, mut_seed(c["row"], rec), light=c.get("light", False))
                if k == "reserved":
                    muts = muts[-3:]
                lines.append("C01 mutants " + wire.line(rec, [d for _, d, _, tm in muts if tm]))
                if len(rec) <= MODEL_TEARS and not c.get("light", False) and k == "row":
                    lines.append("C01 tears " + wire.line(rec, 0, len(rec)))
            plan.append((c, first, len(lines), (rec, err, muts)))
        elif k == "bytes":
            lines.append("C01 decode " + wire.line(c["data"]))
            plan.append((c, first, len(lines), None))
        elif k == "refuse":
            rec, err = impl_encode(c)
            lines.append("C01 encode " + wire.line(0, c["row"]))
            plan.append((c, first, len(lines), (rec, err)))
        elif k == "big":
            lines.append("C01 bigframe " + wire.line(c["n"], 0, c.get("cut", 0), c.get("ext", 0)))
            plan.append((c, first, len(lines), None))
        elif k == "seq":
            cl, recs = oracle_seq(c)
            for row, rec in zip(c["rows"], recs):
                lines.append("C01 encode " + wire.line(int.from_bytes(rec[6:14], "big"), row))
            if cl is None:
                lines.append("C01 stream " + wire.line(b"".join(recs)))
                lines.append("C01 split " + wire.line(b"".join(recs)))
            plan.append((c, first, len(lines), (cl, recs)))
        elif k == "glue":
            info = glue_prepare(c)
            lines.append("C01 encode " + wire.line(info["ts"], info["image"]))
            plan.append((c, first, len(lines), info))
        elif k == "obj":
            info = obj_run(c)
            lines.append("C01 objseq " + wire.line(bool(info["has_dict"]), c["row"], info["ops"]))
            plan.append((c, first, len(lines), info))
        elif k == "new":
            info = new_run(c)
            if info["model"]:
                if c["arg"][0] == "m":
                    # a mapping that is not a dict: the model gets the entries of the dictionary it stands for (`dict(mapping)`, Python's own)
                    lines.append("C01 rownew " + wire.line(c["fields"], ["m", info.get("entries", c["arg"][2])]))
                else:
                    lines.append("C01 rownew " + wire.line(c["fields"], [c["arg"][0]] + ([c["arg"][1]] if c["arg"][0] == "t" else [bool(c["arg"][1]), c["arg"][2]])))
            if info.get("rec") is not None:
                lines.append("C01 encode " + wire.line(int.from_bytes(info["rec"][6:14], "big"), info["expect"]))
            plan.append((c, first, len(lines), info))
        elif k == "input":
            plan.append((c, first, len(lines), None))
        else:
            raise InfraError("bad case kind %r" % (k,))
    mouts = ctx.model.batch(lines)
    for c, a, b, extra in plan:
        k = c["kind"]
        mo = mouts[a:b]
        if k in ("row", "reserved"):
            eval_row(ctx, c, extra[0], extra[1], extra[2], mo)
        elif k == "bytes":
            eval_bytes(ctx, c, mo[0])
        elif k == "refuse":
            eval_refuse(ctx, c, extra[0], extra[1], mo[0])
        elif k == "seq":
            eval_seq(ctx, c, extra[0], extra[1], mo)
        elif k == "glue":
            eval_glue(ctx, c, extra, mo[0])
        elif k == "obj":
            eval_obj(ctx, c, extra, mo[0])
        elif k == "new":
            eval_new(ctx, c, extra, mo)
        elif k == "input":
            eval_input(ctx, c)
        else:
            eval_big(ctx, c, mo[0])


def eval_row(ctx, c, rec, err, muts, mo):
    row = c["row"]
    deep = c.get("orig")
    shown = deep if deep is not None else c
    ks = kinds_of(row, set())
    nontrivial = len(row) >= 1 and rec is not None
    ctx.case(shown, nontrivial)
    ctx.hit("kind:" + ("deep" if deep is not None else c["kind"]))
    if c.get("why"):
        ctx.hit("why:" + c["why"].rstrip("-0123456789"))
    if c.get("shape"):
        ctx.hit("shape:%s" % c["shape"])
        ctx.hit("shape-width:%d" % len(row) if len(row) < 1000 else "shape-width:>=65535")
    elif deep is None:
        ctx.hit("width:%d" % min(len(row), 9))
        for kk in ks:
            ctx.hit("value:" + kk)
    me = model_forms(mo[0], "encode")[0]
    if rec is None:
        # the generator only produces encodable rows here: a refusal is a violation of losslessness
        ctx.hit("encoder-refused:" + err)
        if c["kind"] == "row":
            if deep is not None:
                ctx.fail(deep, refusal_clause(err), impl=err, model=me[:1])
            else:
                _fail_row(ctx, c, refusal_clause(err), err, me)
        return
    ctx.hit("record:" + size_bucket(len(rec)))
    datas = [rec] + [apply_desc(rec, d) for _, d, _, _ in muts]
    outcomes = decode_all(len(row), datas, c.get("cls"))
    if c.get("cls"):
        ctx.hit("class:" + c["cls"])
    ctx.hit("object:%s/%s" % (c.get("cls") or "factory", c.get("obj", "tuple")))
    clause = oracle_row(c, rec, muts, outcomes) if c["kind"] == "row" else None
    again = None
    if clause is None and c["kind"] == "row" and len(rec) <= 70000:
        # what a reader holds is a row too: the decoded row, serialised again, must give a record of the same row
        again = impl_reencode(c, rec)
        ctx.hit("decoded-row-serialised-again")
        if again is not None and again[0] == "fail":
            clause = again[1:]
        if clause is None:
            keep = _RECORD_HISTORY[0]
            _RECORD_HISTORY[0] = False
            try:
                reuse = impl_reuse(c)
            finally:
                _RECORD_HISTORY[0] = keep
            ctx.hit("row-object-serialised-three-times")
            if reuse is not None:
                clause = reuse[1:]
    if clause is not None:
        if deep is not None:
            ctx.fail(deep, clause[0], impl=None, model=None)
        else:
            _fail_row(ctx, c, clause[0], clause[1], me)
        return
    if again is not None and again[0] == "disagree":
        ctx.disagree(shown, again[2], {"encode": me}, again[1])
        return
    # correspondence: the record itself
    if me[0] != "ok" or me[1] != rec:
        ctx.disagree(shown, {"record": rec}, {"encode": me}, "encoder output differs from the model (bytes 6..13 are the clock, fed to the model)")
        return
    # correspondence: decoder outcome classes, one model answer per alteration sent
    mm = model_forms(mo[1], "mutants")
    base = model_decode_form(mm[0])
    answers = mm[1]
    sent = [i for i, m in enumerate(muts) if m[3]]
    if len(answers) != len(sent):
        raise InfraError("mutants: %d answers for %d alterations" % (len(answers), len(sent)))
    for who in ("bin", "src"):
        outs = outcomes[who]
        if outs is None:
            continue
        if not same_form(outs[0][0], base):
            ctx.disagree(shown, {"decode": outs[0][0], "decoder": who}, {"decode": base}, "decoder outcome on the emitted record differs" + WHO[who])
            return
        for i, a in zip(sent, answers):
            m = base if a == "same" else model_decode_form(a)
            g = outs[i + 1][0]
            if who == "bin":
                ctx.hit("mutation:%s->%s" % (muts[i][0], outcome_label(g)))
            if not same_form(g, m):
                ctx.disagree({"kind": "bytes", "width": len(row), "data": datas[i + 1], "from": muts[i][0]}, {"decode": g, "decoder": who}, {"decode": m},
                             "decoder outcome on a %s record differs%s" % (muts[i][0], WHO[who]))
                return
    if len(mo) > 2:
        # every tear point of the record on the model, as runs of equal outcomes, against both decoders
        runs = model_forms(mo[2], "tears")[0]
        want = []
        for form, count in runs:
            want += [model_decode_form(form)] * count
        torn = [i for i, m in enumerate(muts) if m[0] == "torn"]
        if len(want) != len(rec) or [muts[i][1][1] for i in torn] != list(range(len(rec))):
            raise InfraError("tears: %d model answers, %d tear points for a record of %d bytes" % (len(want), len(torn), len(rec)))
        ctx.hit("model-tear-points", len(want))
        for who in ("bin", "src"):
            outs = outcomes[who]
            if outs is None:
                continue
            for i, m in zip(torn, want):
                g = outs[i + 1][0]
                if who == "bin":
                    ctx.hit("mutation:torn->%s" % outcome_label(g))
                if not same_form(g, m):
                    ctx.disagree({"kind": "bytes", "width": len(row), "data": datas[i + 1], "from": "torn"}, {"decode": g, "decoder": who}, {"decode": m},
                                 "decoder outcome on a torn record differs" + WHO[who])
                    return
    if outcomes["src"] is not None and outcomes["src"] != outcomes["bin"]:
        for i, (x, y) in enumerate(zip(outcomes["bin"], outcomes["src"])):
            if x != y and not same_form(x[0], y[0]):
                ctx.disagree({"kind": "bytes", "width": len(row), "data": datas[i]}, {"decode": x[0], "decoder": "bin"}, {"decode": y[0], "decoder": "src"},
                             "the loaded binary and compiled.pyx (shadow) differ on a record")
                return


def _fail_row(ctx, c, clause, impl, model):
    """Report an oracle failure on a row with the smallest input that reproduces it in a fresh process."""
    if ctx.replaying:
        ctx.fail(c, clause, impl=impl, model=model)
        return
    if _norm(clause) in _REPORTED or any(_norm(v.get("sig")) == _norm(clause) for v in ctx.violations):
        ctx.hit("violation-dup:" + _norm(clause))  # already reported with a minimal input
        return
    _REPORTED.add(_norm(clause))
    _RECORD_HISTORY[0] = False
    try:
        fresh_clause = None
        try:
            fresh_clause, _ = fresh_oracle({"kind": "row", "row": c["row"], "tuples": c.get("tuples", False), "cls": c.get("cls"), "obj": c.get("obj", "tuple"),
                                             "light": c.get("light", False)})
        except Exception as e:
            ctx.note("fresh_oracle_error", str(e)[:300])
            fresh_clause = clause
        if fresh_clause is None:
            # depends on what this process did before: a sequence is the input
            try:
                rows = history_witness(ctx, c["row"], c.get("tuples", False), clause)
            except Exception as e:
                ctx.note("history_witness_error", str(e)[:300])
                rows = None
            if rows is not None:
                sc = {"kind": "seq", "rows": rows, "tuples": c.get("tuples", False)}
                cl, _ = fresh_oracle(sc)
                ctx.fail(sc, cl or clause, impl=impl, model=None,
                         detail="the last row alone round-trips in a fresh process; it fails after the earlier rows were serialised in the same process")
                return
            ctx.fail(c, clause, impl=impl, model=model,
                     detail="observed in the run but not reproduced in a fresh process: depends on state left by earlier cases")
            return

        def still(c2):
            if not valid_case(c2) or c2.get("kind") != "row":
                return False
            rec2, err2 = impl_encode(c2)
            if rec2 is None:
                return _norm(clause) == _norm(refusal_clause(err2))
            cl = full_oracle_row(c2, rec2)
            return cl is not None and _norm(cl[0]) == _norm(clause)

        c_min = shrink(c, still)
        if c_min is not c:
            rec2, err2 = impl_encode(c_min)
            if rec2 is not None:
                cl = full_oracle_row(c_min, rec2)
                if cl is not None:
                    clause, impl = cl
        ctx.fail(c_min, clause, impl=impl, model=model if c_min is c else None)
    finally:
        _RECORD_HISTORY[0] = True


def eval_seq(ctx, c, cl, recs, mo):
    rows = c["rows"]
    ctx.case(c, len(rows) >= 2)
    ctx.hit("kind:seq")
    ctx.hit("seq:%s" % c.get("why", "random"))
    ctx.hit("seq-length:%s" % (len(rows) if len(rows) < 8 else ">=8"))
    if cl is not None:
        if ctx.replaying:
            ctx.fail(c, cl[0], impl=cl[1])
            return
        if _norm(cl[0]) in _REPORTED or any(_norm(v.get("sig")) == _norm(cl[0]) for v in ctx.violations):
            ctx.hit("violation-dup:" + _norm(cl[0]))
            return
        _REPORTED.add(_norm(cl[0]))
        # smallest sub-sequence, judged in fresh processes (the state of this one is part of the input)
        _RECORD_HISTORY[0] = False
        try:
            best = c
            try:
                fc, _ = fresh_oracle(c)
                if fc is not None:
                    idx = cl[1].get("index") if isinstance(cl[1], dict) else None
                    if idx is not None:
                        single = {"kind": "row", "row": rows[idx], "tuples": c.get("tuples", False)}
                        f1, d1 = fresh_oracle(single)
                        if f1 is not None:
                            # not a matter of what was serialised before: report (and shrink) it as a row
                            _RECORD_HISTORY[0] = True
                            _fail_row(ctx, single, f1, d1, None)
                            return
                        for cand in [[rows[idx]]] + [[rows[j], rows[idx]] for j in range(idx - 1, -1, -1)][:8]:
                            c2 = dict(c, rows=cand)
                            f2, d2 = fresh_oracle(c2)
                            if f2 is not None:
                                best, cl = c2, (f2, d2)
                                break
            except Exception as e:
                ctx.note("fresh_oracle_error", str(e)[:300])
            ctx.fail(best, cl[0], impl=cl[1])
        finally:
            _RECORD_HISTORY[0] = True
        return
    for i, (row, rec) in enumerate(zip(rows, recs)):
        me = model_forms(mo[i], "encode")[0]
        if me[0] != "ok" or me[1] != rec:
            ctx.disagree(c, {"record": rec, "index": i}, {"encode": me}, "encoder output differs from the model for a row serialised after others in the same process")
            return
    n = len(rows)
    ms = model_forms(mo[n], "stream")[0]
    want = ["ok", [[["v", x] for x in row] for row in rows]]
    got = ["ok", [model_decode_form(["ok", r])[1] for r in ms[1]]] if ms[0] == "ok" else ms
    if not wire.same(got, want):
        ctx.disagree(c, {"rows": want}, {"stream": got}, "the model's stream reader does not give back the rows")
        return
    sp = model_forms(mo[n + 1], "split")[0]
    if sp[0] != "ok" or sp[1] != recs:
        # the harness's reader agreed with the records (oracle) and the model's does not
        raise InfraError("model split differs from the harness's reader on %r" % (b"".join(recs)[:60],))


def eval_bytes(ctx, c, mo):
    data = c["data"]
    ctx.case(c, len(data) >= 14)
    ctx.hit("kind:bytes")
    outs = decode_all(c["width"], [data])
    g, exc = outs["bin"][0]
    m = model_decode_form(model_forms(mo, "decode")[0])
    ctx.hit("bytes->%s" % outcome_label(g))
    if exc not in (None, "DataError"):
        ctx.hit("payload-exception:" + exc)
    if len(data) > 14:
        ctx.hit("payload-first-byte:%s" % family(data[14]))
    if not same_form(g, m):
        ctx.disagree(c, {"decode": g, "decoder": "bin"}, {"decode": m}, "decoder outcome on arbitrary bytes differs")
        return
    if outs["src"] is not None:
        g2, exc2 = outs["src"][0]
        if not same_form(g2, m):
            ctx.disagree(c, {"decode": g2, "decoder": "src"}, {"decode": m}, "decoder outcome on arbitrary bytes differs" + WHO["src"])


def family(t):
    if t < 0x80:
        return "posfixint"
    if t < 0x90:
        return "fixmap"
    if t < 0xA0:
        return "fixarray"
    if t < 0xC0:
        return "fixstr"
    if t >= 0xE0:
        return "negfixint"
    return {0xC0: "nil", 0xC1: "reserved", 0xC2: "bool", 0xC3: "bool", 0xC4: "bin8", 0xC5: "bin16", 0xC6: "bin32", 0xC7: "ext8", 0xC8: "ext16",
            0xC9: "ext32", 0xCA: "float32", 0xCB: "float64", 0xCC: "uint8", 0xCD: "uint16", 0xCE: "uint32", 0xCF: "uint64", 0xD0: "int8",
            0xD1: "int16", 0xD2: "int32", 0xD3: "int64", 0xD4: "fixext1", 0xD5: "fixext2", 0xD6: "fixext4", 0xD7: "fixext8", 0xD8: "fixext16",
            0xD9: "str8", 0xDA: "str16", 0xDB: "str32", 0xDC: "array16", 0xDD: "array32", 0xDE: "map16", 0xDF: "map32"}[t]


def eval_refuse(ctx, c, rec, err, mo):
    c = c.get("orig", c)
    ctx.case(c, True)
    ctx.hit("kind:refuse:" + c.get("why", "?"))
    me = model_forms(mo, "encode")[0]
    if rec is not None:
        # the implementation did emit something: then it must round-trip (oracle) -- and the model must agree
        if me[0] != "ok":
            ctx.disagree(c, {"record_len": len(rec)}, {"encode": me}, "the model refuses a row the encoder accepts")
        return
    ctx.hit("encoder-refused:" + err)
    if me != ["err", err]:
        ctx.disagree(c, {"encode": ["err", err]}, {"encode": me}, "encoder refusal differs from the model")


def big_item(c):
    """One item whose msgpack form makes the payload exactly n bytes: 0x91 + bin/str header + data."""
    n = c["n"]
    text = c.get("shape") == "str"
    for hdr, lim in ((1, 32), (2, 256), (3, 65536), (5, 2**32)) if text else ((2, 256), (3, 65536), (5, 2**32)):
        ln = n - 1 - hdr
        if 0 <= ln < lim:
            return "x" * ln if text else b"\x00" * ln
    raise InfraError("big case: no item gives a payload of %d bytes" % n)


def eval_big(ctx, c, mo):
    """Records near the cap and near 2^16: the payload has exactly n bytes."""
    n, cut, ext = c["n"], c.get("cut", 0), c.get("ext", 0)
    ctx.case(c, True)
    ctx.hit("kind:big")
    ctx.hit("big:n-MAX=%d" % (n - MAX) if abs(n - MAX) <= 1000 else "big:other")
    item = big_item(c)
    m = model_forms(mo, "bigframe")
    keep = _RECORD_HISTORY[0]
    _RECORD_HISTORY[0] = False
    try:
        rec, err = impl_encode({"row": [item]})
    finally:
        _RECORD_HISTORY[0] = keep
    if rec is None:
        ctx.hit("encoder-refused:" + err)
        if err != "tooLarge":
            # a row of the value domain below the cap the code itself states: refused with something else than the size error
            if m[0][0] == "ok":
                ctx.fail(c, "the encoder refuses a row of the value domain (%s) near a size boundary" % err, impl=err, model=m)
            else:
                ctx.disagree(c, {"encode": err}, {"bigframe": m[0]})
            return
        if n <= MAX and cut == 0 and ext == 0:
            # the limit the encoder is documented to have is 16 MiB *of payload* (the property's anchor "16 MiB cap",
            # orso/row.py MAXIMUM_RECORD_SIZE and its message): a row of the value domain at or below it that is refused "for
            # its size" is a row the encoder refuses -- whatever the (regenerated) model of the changed guard says
            ctx.fail(c, "the encoder refuses a row of the value domain whose payload is within the 16 MiB limit (DataError: too large)",
                     impl={"payload_bytes": n, "limit": MAX, "refused": err}, model=m)
            return
        # past the documented limit the property does not fix the cap: a different refusal threshold is a model disagreement
        if m[0] != ["err", "tooLarge"]:
            ctx.disagree(c, {"encode": "tooLarge"}, {"bigframe": m[0]})
        if c.get("via") == "append":
            big_append(ctx, c, item, m)
        return
    if m[0][0] != "ok":
        ctx.disagree(c, {"record_len": len(rec)}, {"bigframe": m[0]}, "the encoder emits a record the model refuses")
        return
    data = rec[: max(0, len(rec) - cut)] + b"\x00" * ext
    outs = decode_all(1, [data])
    want = None
    for who in ("bin", "src"):
        if outs[who] is None:
            continue
        g, exc = outs[who][0]
        if cut == 0 and ext == 0:
            cl = judge_emitted(g, exc, [item])
            if cl is not None:
                ctx.fail(c, "an emitted record near the size limit is rejected or decoded differently" + WHO[who],
                         impl=[g[0], exc] if g[0] != "ok" else "different row", model=m, detail=cl[0])
                return
            want = ["ok", n]
        else:
            cl = judge_altered("torn/extended", g, exc)
            if cl is not None:
                ctx.fail(c, "a torn/extended record near the size limit is not rejected with a data error" + WHO[who], impl=[g[0], g[1] if g[0] != "ok" else None, exc],
                         model=m, detail=cl[0])
                return
            want = g
    if len(rec) != n + 14:
        # the oracle is silent (the record decodes to the row): its size is a matter of correspondence
        ctx.disagree(c, {"record_len": len(rec)}, {"bigframe": m[0]}, "the payload of a large record has %d bytes, the model's %d" % (len(rec) - 14, n))
    elif m[0][0] != "ok" or m[0][1][:6] != rec[:6] or m[0][2] != len(rec):
        ctx.disagree(c, {"header": rec[:6], "len": len(rec)}, {"bigframe": m[0]}, "header of a large record differs")
    elif not same_form(m[1], want):
        ctx.disagree(c, {"guards": want}, {"guards": m[1]}, "guard outcome on a large record differs")
    if c.get("via") == "append" and cut == 0 and ext == 0:
        big_append(ctx, c, item, m)


def big_append(ctx, c, item, m):
    """`DataFrame.append` sizes the new row with `Row.nbytes()` before it keeps it: that is how a frame reaches the size
    guard of `as_bytes` (theorem `nbytes_reaches_the_guard`).  Exactly at / one below / one past the limit: a row the model
    sizes must be kept and the frame's size must be the record's; a row the guard refuses must not be kept.  The frame is
    outside C01: everything here is correspondence."""
    n = c["n"]
    ctx.hit("big-append:n-MAX=%d" % (n - MAX) if abs(n - MAX) <= 1000 else "big-append:other")
    try:
        from orso import DataFrame
        from orso.exceptions import DataError
    except BaseException as e:
        ctx.hit("big-append:unavailable:" + _exc_name(e))
        return
    df = DataFrame(schema=["c0"])
    try:
        df.append({"c0": item})
        got = ["ok", len(df._rows), df.nbytes()]
    except KeyboardInterrupt:
        raise
    except DataError:
        got = ["err", "tooLarge", len(df._rows)]
    except BaseException as e:
        got = ["err", "raises " + _exc_name(e), len(df._rows)]
    want = ["ok", 1, m[0][2]] if m[0][0] == "ok" else ["err", m[0][1], 0]
    ctx.hit("big-append:%s" % got[0])
    if got != want:
        ctx.disagree(c, {"append": got}, {"append": want}, "DataFrame.append of a row near the size limit: sized / refused differently from the model of Row.nbytes")


# --------------------------------------------------------------------------- one row object used several times

OBJ_EDITS = ("e+", "e-", "e=")
OBJ_COPIES = ("cp", "dcp", "pk")  # from here on the calls go to copy.copy / copy.deepcopy / a pickle round trip of the object
OBJ_CALLS = ("a", "n", "map", "dict", "vals", "keys", "get", "json", "hash", "iter", "fb", "fbe", "cmp") + OBJ_EDITS + OBJ_COPIES


def obj_copy(obj, how):
    """A copy of the row object made by the standard library (it carries the instance `__dict__` along: whatever was kept on the
    original is kept on the copy).  -> (object to go on with, outcome).  The original is kept when no copy can be made or the copy
    does not hold the same items (copying is not C01's subject)."""
    import copy
    import pickle

    try:
        new = copy.copy(obj) if how == "cp" else (copy.deepcopy(obj) if how == "dcp" else pickle.loads(pickle.dumps(obj)))
        if type(new) is not type(obj) or not wire.same([canon(x) for x in new], [canon(x) for x in obj]):
            return obj, "another-object"
        return new, "ok"
    except KeyboardInterrupt:
        raise
    except BaseException as e:
        return obj, _exc_name(e)


def edit_in_place(v, how):
    """An in-place edit of every list / map INSIDE `v` (a `Row` is an immutable tuple; what it holds need not be): `e+` appends an
    element / adds a key, `e-` drops the last element / entry, `e=` replaces the first scalar element / value.  Tuples (the row
    itself) are walked, not changed; a list is left alone when the edit would turn it into the reserved two-element form (outside
    the property's domain).  -> number of containers changed."""
    n = 0
    if isinstance(v, (list, tuple)):
        for x in v:
            n += edit_in_place(x, how)
        if isinstance(v, list):
            new, changed = list(v), False
            if how == "e+":
                new.append(len(v))
                changed = True
            elif how == "e-" and new:
                new.pop()
                changed = True
            elif how == "e=" and new and not isinstance(new[0], (list, dict, tuple)):
                new[0] = (new[0] + "!") if isinstance(new[0], str) else "edited"
                changed = True
            if changed and not is_reserved(canon(new)):
                v[:] = new
                n += 1
    elif isinstance(v, dict):
        for x in list(v.values()):
            n += edit_in_place(x, how)
        if how == "e+":
            k = len(v)
            while ("+%d" % k) in v:
                k += 1
            v["+%d" % k] = None
            n += 1
        elif how == "e-" and v:
            v.popitem()
            n += 1
        elif how == "e=" and v:
            k = next(iter(v))
            if not isinstance(v[k], (list, dict, tuple)):
                v[k] = (v[k] + "!") if isinstance(v[k], str) else "edited"
                n += 1
    return n


def obj_touch(obj, call):
    """The members of a row object other than as_bytes / nbytes: caches of their own (`as_map` is a cached_property), views.
    Their outcome is not judged here (not C01's); what matters is that they ran between two `as_bytes`."""
    try:
        if call == "map":
            obj.as_map
        elif call == "dict":
            obj.as_dict
        elif call == "vals":
            obj.values
        elif call == "keys":
            obj.keys()
        elif call == "get":
            obj.get("c0")
        elif call == "json":
            obj.as_json
        elif call == "hash":
            hash(obj)
        elif call == "iter":
            list(obj)
        elif call == "cmp":
            obj == tuple(obj)
        return "ok"
    except KeyboardInterrupt:
        raise
    except BaseException as e:
        return _exc_name(e)


def obj_run(c):
    """Run the calls of an `obj` case on ONE row object.  -> {has_dict, ops (for the model), outs (per a/n call), recs, touched}.
    `obj: twin` = an instance of a *second* class made by `create_class` for the same fields (with the other `tuples_only`),
    used while an instance of the first one is alive and has been serialised: classes for equal field lists must not share
    anything a record depends on."""
    try:
        from orso.exceptions import DataError
    except BaseException:
        DataError = ()
    info = {"has_dict": True, "ops": [], "outs": [], "touched": [], "noobj": None, "fb": []}
    row = c["row"]
    try:
        if c.get("obj") == "twin":
            from orso.row import Row

            fields = ["c%d" % i for i in range(len(row))]
            values = tuple(to_py(x, c.get("tuples", False)) for x in row)
            first = Row.create_class(fields, tuples_only=(c.get("cls") != "tuples_only"))(values)
            first.as_bytes
            obj = Row.create_class(fields, tuples_only=(c.get("cls") == "tuples_only"))(values)
            info["keepalive"] = first
        elif c.get("obj") == "dup":
            # a class whose field names repeat (a frame with two columns of one name): the members that go through the field
            # names (`as_map`, `as_dict`) see fewer entries than the row has items -- `as_bytes` must not
            from orso.row import Row

            values = tuple(to_py(x, c.get("tuples", False)) for x in row)
            key = ("dup", len(row), c.get("cls"))
            if key not in _R:
                _R[key] = Row.create_class(["c"] * len(row), tuples_only=(c.get("cls") == "tuples_only"))
            obj = _R[key](values)
        else:
            obj = make_row_object(c)
    except KeyboardInterrupt:
        raise
    except BaseException as e:
        info["noobj"] = _exc_name(e)
        return info
    info["has_dict"] = hasattr(obj, "__dict__")
    # a row a DataFrame stored has been sized once already (`append` -> `nbytes`): for the model that is a first `nbytes` call
    info["presized"] = bool(c.get("obj") == "frame" and _LAST_FRAME[0])
    if info["presized"]:
        info["ops"].append(["n", 0])
    last = None
    cur = list(row)  # the items of the object as they are now
    last_row = cur
    for call in c["calls"]:
        if call in OBJ_EDITS:
            # the caller edits the lists / maps inside the row in place; what the object holds now is read off the object itself
            try:
                changed = edit_in_place(obj, call)
                cur = [canon(x) for x in obj]
            except KeyboardInterrupt:
                raise
            except BaseException as e:
                info["edit_failed"] = _exc_name(e)
                break
            if not valid_row(cur):
                info["edit_failed"] = "the edited row is outside the value domain"
                break
            info["ops"].append(["e", cur])
            info["outs"].append(["edited", cur, changed])
            continue
        if call == "a":
            try:
                rec = obj.as_bytes
                if isinstance(rec, bytes):
                    out = ["ok", rec]
                    last = rec
                    last_row = cur
                else:
                    out = ["err", "returns %s instead of bytes" % type(rec).__name__]
            except KeyboardInterrupt:
                raise
            except DataError:
                out = ["err", "tooLarge"]
            except TypeError:
                out = ["err", "codec"]
            except OverflowError:
                out = ["err", "overflow"]
            except BaseException as e:
                out = ["err", "raises " + _exc_name(e)]
            info["ops"].append(["a", int.from_bytes(out[1][6:14], "big") if out[0] == "ok" and len(out[1]) >= 14 else 0])
            info["outs"].append(out)
        elif call == "n":
            try:
                v = obj.nbytes()
                out = ["ok", v if (v is None or (isinstance(v, int) and not isinstance(v, bool))) else Foreign(v)]
            except KeyboardInterrupt:
                raise
            except DataError:
                out = ["err", "tooLarge"]
            except TypeError:
                out = ["err", "codec"]
            except OverflowError:
                out = ["err", "overflow"]
            except BaseException as e:
                out = ["err", "raises " + _exc_name(e)]
            info["ops"].append(["n", 0])
            info["outs"].append(out)
        elif call == "fb":
            # the last record decoded once more (the same `bytes` object handed to the decoder a second, third time)
            if last is not None:
                info["fb"].append((last, impl_decode(len(row), last, c.get("cls")), last_row))
        elif call == "fbe" and os.environ.get("C01_NO_FBE"):
            pass  # self-test switch: what the check sees without this call (design_notes/C01.md, N8)
        elif call == "fbe":
            # the last record decoded, the lists / maps inside the DECODED row edited in place (its owner may do that), the same
            # buffer decoded again: the second reader must get the row that was serialised, not the first reader's edits
            # (two decoded rows must not share their nested values)
            if last is not None:
                got = []
                impl_decode(len(row), last, c.get("cls"), got)
                try:
                    if got and isinstance(got[0], tuple):
                        for how in OBJ_EDITS:
                            edit_in_place(got[0], how)
                except KeyboardInterrupt:
                    raise
                except BaseException:
                    pass
                info["fb"].append((last, impl_decode(len(row), last, c.get("cls")), last_row))
                info.setdefault("keepalive2", []).append(got)
        elif call in OBJ_COPIES:
            obj, res = obj_copy(obj, call)
            info["touched"].append((call, res))
            info.setdefault("keepalive2", []).append(obj)
        else:
            info["touched"].append((call, obj_touch(obj, call)))
    return info


def eval_obj(ctx, c, info, mo):
    ctx.case(c, len(c["calls"]) >= 2)
    ctx.hit("kind:obj")
    ctx.hit("obj-calls:%d" % min(len(c["calls"]), 12))
    ctx.hit("obj-object:%s/%s" % (c.get("cls") or "factory", c.get("obj", "tuple")))
    for call, res in info["touched"]:
        ctx.hit("obj-touch:%s->%s" % (call, res))
    if info["noobj"] is not None:
        ctx.hit("obj:no-object:" + info["noobj"])
        return
    m = model_forms(mo, "objseq")[0]
    row = c["row"]
    if info.get("presized"):
        m = m[1:]  # the sizing `DataFrame.append` did before the first call of the case
        ctx.hit("obj:sized-by-DataFrame.append")
    if info.get("edit_failed"):
        ctx.hit("obj:edit-not-possible:" + info["edit_failed"])
    if len(m) != len(info["outs"]):
        raise InfraError("objseq: %d answers for %d calls" % (len(m), len(info["outs"])))
    before = []
    k = 0
    edited = False
    for call in c["calls"]:
        if k >= len(info["outs"]):
            break  # an edit could not be made: the calls after it were not run
        if call in OBJ_EDITS:
            out, mout = info["outs"][k], m[k]
            k += 1
            if list(mout) != ["edited"]:
                raise InfraError("objseq: the model answers %r to an edit" % (mout,))
            row = out[1]  # from here on THE row is what the object holds now
            edited = edited or out[2] > 0
            ctx.hit("obj-edit:%s->%s" % (call, "nothing-to-edit" if out[2] == 0 else "%d-container%s" % (min(out[2], 3), "s" if out[2] > 1 else "")))
            before.append(call)
            continue
        if call not in ("a", "n"):
            before.append(call)
            continue
        out, mout = info["outs"][k], m[k]
        k += 1
        if call == "a" and edited:
            ctx.hit("obj:serialised-after-an-in-place-edit" + ("-of-a-sized-row" if ("n" in before or info.get("presized")) else ""))
        if call == "a":
            # oracle: every record one object emits is a record the encoder emits -- the decoder accepts it, the row is equal
            if out[0] == "ok":
                g, exc = impl_decode(len(row), out[1], c.get("cls"))
                cl = judge_emitted(g, exc, row)
                if cl is not None:
                    _fail_obj(ctx, c, cl[0] + " [record of one row object after: %s]" % (", ".join(before) or "nothing"),
                              {"record": out[1], "got": cl[1], "calls_before": list(before)}, mout)
                    return
            elif mout[0] == "ok":
                _fail_obj(ctx, c, "the encoder refuses a row of the value domain (%s) [row object used before: %s]" % (out[1], ", ".join(before) or "nothing"),
                          {"calls_before": list(before), "outcome": out}, mout)
                return
            if not wire.same(out, mout):
                ctx.disagree(c, {"call": len(before), "as_bytes": out}, {"as_bytes": mout}, "a record of a row object used several times differs from the model's")
                return
        else:
            if not wire.same(out, mout) and not (isinstance(out[1], Foreign)):
                ctx.disagree(c, {"call": len(before), "nbytes": out}, {"nbytes": mout}, "Row.nbytes on a row object used several times differs from the model")
                return
        before.append(call)
    for rec, (g, exc), rrow in info["fb"]:
        cl = judge_emitted(g, exc, rrow)
        if cl is not None:
            _fail_obj(ctx, c, cl[0] + " [the same buffer decoded again%s]" % (" after the row decoded from it first was edited in place" if "fbe" in c["calls"] else ""),
                      {"record": rec, "got": cl[1]}, None)
            return


def _fail_obj(ctx, c, clause, impl, model):
    """Report an `obj` failure with the shortest call list (and the empty row if that is enough) that fails the same way."""
    key = ("obj", _norm(clause).split(" [")[0])
    if key in _REPORTED and not ctx.replaying:
        ctx.hit("obj:further-failure-of-a-reported-kind")
        return
    _REPORTED.add(key)
    def fails(case):
        if not valid_case(case):
            return False
        hold = []

        class _C:
            def fail(self, cs, cl, **kw):
                hold.append(cl)

            def disagree(self, *a, **k):
                pass

            def case(self, *a, **k):
                pass

            def hit(self, *a, **k):
                pass

        keep = _RECORD_HISTORY[0]
        _RECORD_HISTORY[0] = False
        try:
            info = obj_run(case)
            if info["noobj"] is not None:
                return False
            # the model's answer is not needed to re-judge the oracle: give every call "ok"
            fake = list(info["outs"])
            _eval_obj_oracle(_C(), case, info, fake)
        finally:
            _RECORD_HISTORY[0] = keep
        return bool(hold) and _norm(hold[0]).split(" [")[0] == _norm(clause).split(" [")[0]

    best = dict(c)
    try:
        calls = list(best["calls"])
        i = 0
        while i < len(calls):
            trial = calls[:i] + calls[i + 1:]
            t = dict(best, calls=trial)
            if trial and fails(t):
                calls = trial
                best = t
            else:
                i += 1
        for cand in ([], [0], [0, 1], [0, 1, 2]):
            if len(cand) < len(best["row"]) and fails(dict(best, row=cand)):
                best = dict(best, row=cand)
                break
        else:
            row, i, trials = list(best["row"]), 0, 0
            while i < len(row) and trials < 40:
                trials += 1
                trial = row[:i] + row[i + 1:]
                if fails(dict(best, row=trial)):
                    row = trial
                    best = dict(best, row=row)
                else:
                    i += 1
    except KeyboardInterrupt:
        raise
    except BaseException:
        best = dict(c)
    ctx.fail(best, clause, impl=impl, model=model)


def _eval_obj_oracle(ctx, c, info, m):
    """the oracle part of eval_obj alone (used by the minimiser)"""
    row = c["row"]
    before = []
    k = 0
    for call in c["calls"]:
        if k >= len(info["outs"]):
            break
        if call in OBJ_EDITS:
            row = info["outs"][k][1]
            k += 1
            before.append(call)
            continue
        if call not in ("a", "n"):
            before.append(call)
            continue
        out = info["outs"][k]
        k += 1
        if call == "a":
            if out[0] == "ok":
                g, exc = impl_decode(len(row), out[1], c.get("cls"))
                cl = judge_emitted(g, exc, row)
                if cl is not None:
                    ctx.fail(c, cl[0])
                    return
            else:
                ctx.fail(c, "the encoder refuses a row of the value domain (%s)" % out[1])
                return
        before.append(call)
    for rec, (g, exc), rrow in info["fb"]:
        cl = judge_emitted(g, exc, rrow)
        if cl is not None:
            ctx.fail(c, cl[0])
            return


def obj_cases(ctx, rng):
    """Sequences of calls on one row object: fixed schedules over every kind of object, and random ones."""
    out = []
    fixed = (["a", "a"], ["n", "a"], ["a", "n", "a"], ["n", "n", "a", "n"], ["map", "a"], ["dict", "map", "a", "a"], ["a", "map", "dict", "json", "a"],
             ["hash", "a", "vals", "keys", "get", "iter", "cmp", "a"], ["a", "fb", "fb", "a", "fb"], ["n", "map", "a", "fb", "n", "a"])
    rows = ([], [0], [None, True, -1, 2.5, "é", b"\x00", [1, [2]], {"k": [None]}], ["x" * 300], [2**64 - 1, -(2**63)])
    kinds = [(None, "tuple"), (None, "dict"), (None, "decoded"), (None, "frame"), (None, "plain"), (None, "slotted"), (None, "twin"), (None, "dup"), ("tuples_only", "dup"),
             ("tuples_only", "tuple"), ("tuples_only", "decoded"), ("tuples_only", "twin"), ("base", "tuple"), ("base", "decoded")]
    for i, calls in enumerate(fixed):
        for j, (cls, how) in enumerate(kinds):
            row = rows[(i + j) % len(rows)]
            case = {"kind": "obj", "row": row, "calls": list(calls), "obj": how}
            if cls:
                case["cls"] = cls
            out.append(case)
    # in-place edits of the lists / maps inside the row between the calls: sized (nbytes / DataFrame.append) or serialised or
    # viewed (as_map, as_dict, as_json) first, then edited, then serialised -- the record must be that of the row as it is NOW
    edit_fixed = (["n", "e+", "a"], ["a", "e+", "a"], ["e-", "a"], ["n", "e-", "a", "n"], ["a", "n", "e=", "a", "fb"], ["map", "dict", "e+", "a"],
                  ["n", "e+", "e-", "a"], ["dict", "n", "e=", "json", "a"], ["n", "a", "e+", "n", "a", "fb", "e-", "a", "fb"], ["hash", "e=", "n", "e+", "a"],
                  ["n", "dcp", "e+", "a"], ["a", "cp", "e-", "a", "n"], ["n", "pk", "e=", "a"], ["a", "fbe", "fbe"], ["n", "e+", "a", "fbe", "a", "fb"])
    edit_rows = ([[1, 2], {"k": [1, 2], "s": "x"}, 7], [[], {}], [[[[]]]], [None, True, -1, 2.5, "é", b"\x00", [1, [2]], {"k": [None]}], [{"a": {"b": {"c": [0.0, -0.0]}}}],
                 [["__datetime__"], ["__datetime__", 1, 2], 0])
    for i, calls in enumerate(edit_fixed):
        for j, (cls, how) in enumerate(kinds):
            case = {"kind": "obj", "row": edit_rows[(i + j) % len(edit_rows)], "calls": list(calls), "obj": how}
            if cls:
                case["cls"] = cls
            out.append(case)
    for _ in range(ctx.scale(60, 1500)):
        cls, how = kinds[rng.randrange(len(kinds))]
        calls = [OBJ_CALLS[rng.randrange(len(OBJ_CALLS))] if rng.random() < 0.5 else ("a" if rng.random() < 0.6 else "n") for _ in range(rng.randrange(2, 9))]
        if rng.random() < 0.4:
            calls.insert(rng.randrange(1, len(calls) + 1), OBJ_EDITS[rng.randrange(len(OBJ_EDITS))])
        if not any(x in ("a", "n") for x in calls) or calls[-1] in OBJ_EDITS:
            calls.append("a")
        row = random_row(rng)["row"] if rng.random() < 0.7 else (rows + edit_rows)[rng.randrange(len(rows) + len(edit_rows))]
        if not valid_row(row):
            row = [0]
        if any(x in OBJ_EDITS for x in calls) and not any(isinstance(x, (list, dict)) for x in row):
            row = list(row) + [[len(row)], {"k": []}]
        case = {"kind": "obj", "row": row, "calls": calls, "obj": how}
        if cls:
            case["cls"] = cls
        out.append(case)
    return out


# --------------------------------------------------------------------------- Row.__new__: a row from a tuple, from a dictionary


class _OD(dict):
    """a subclass of dict (what `type(data) is not dict` is there for)"""


MAPPING_KINDS = ("userdict", "chainmap", "proxy", "custom", "ordered-userdict")


def make_mapping(kind, entries):
    """A mapping that is NOT a dict (orso/row.py: `isinstance(data, Mapping)` and not a dict / tuple / list) with these entries."""
    import collections
    import collections.abc
    import types

    d = {k: to_py(v, False) for k, v in entries.items()}
    if kind == "userdict":
        return collections.UserDict(d)
    if kind == "ordered-userdict":
        class _UD(collections.UserDict):
            pass

        return _UD(d)
    if kind == "proxy":
        return types.MappingProxyType(d)
    if kind == "chainmap":
        # the front map holds every other key and shadows one key of the back map
        items = list(d.items())
        front = dict(items[::2])
        back = dict(items[1::2])
        if items:
            back[items[0][0]] = "shadowed"
        return collections.ChainMap(front, back)

    class _M(collections.abc.Mapping):  # read-only, hand-written: only __getitem__ / __iter__ / __len__
        def __init__(self, inner):
            self._inner = inner

        def __getitem__(self, k):
            return self._inner[k]

        def __iter__(self):
            return iter(self._inner)

        def __len__(self):
            return len(self._inner)

    return _M(d)


def new_run(c):
    """`cls(arg)` on the real class, then `as_bytes` / `from_bytes` of the object.  -> {built: ["ok", items] | ["err", name],
    model: is the case inside the model of Row.__new__ (text keys, a class whose __new__ is Row's), expect, rec, back}"""
    from orso.row import Row

    fields, arg = c["fields"], c["arg"]
    info = {"model": c.get("cls") != "tuples_only", "rec": None, "expect": None}
    try:
        R = Row if fields is None else Row.create_class(fields, tuples_only=(c.get("cls") == "tuples_only"))
        if arg[0] == "t":
            data = tuple(to_py(x, False) for x in arg[1])
        elif arg[0] == "m":
            data = make_mapping(arg[1], arg[2])
            stands_for = dict(data)  # Python's own reading of the mapping, before orso sees it
            info["entries"] = {k: canon(v) for k, v in stands_for.items()}
        else:
            data = {k: to_py(v, False) for k, v in arg[2].items()}
            if not arg[1]:
                data = _OD(data)
        obj = R(data)
        info["built"] = ["ok", [canon(x) for x in obj]]
        info["obj"] = obj
    except KeyboardInterrupt:
        raise
    except BaseException as e:
        info["built"] = ["err", _exc_name(e).split(".")[-1]]
        return info
    # what the constructor is specified to build (docstrings of Row.__new__ / extract_dict_columns): the tuple's items; for a
    # dictionary one value per field in field order, None for a missing field
    if arg[0] == "t":
        expect = list(arg[1])
    elif c.get("cls") == "tuples_only" or fields is None:
        expect = None  # `Row` itself has no fields to lay a dictionary out by (the model: TypeError); whatever was built is compared with that
    elif arg[0] == "m":
        expect = [info["entries"].get(f) for f in fields]
    else:
        expect = [arg[2].get(f) for f in fields]
    info["expect"] = expect
    # the property is about the row object at hand: what comes back must be *its* items (that the constructor built the row it
    # is specified to build is correspondence with the model of Row.__new__, not C01's oracle)
    own = info["built"][1]
    if expect is not None and valid_row(expect) and valid_row(own):
        try:
            rec = obj.as_bytes
            if isinstance(rec, bytes):
                info["rec"] = rec
                info["back"] = impl_decode(len(own), rec, None if fields is not None else "base")
            else:
                info["enc_err"] = "returns %s instead of bytes" % type(rec).__name__
        except KeyboardInterrupt:
            raise
        except BaseException as e:
            info["enc_err"] = "raises " + _exc_name(e)
    return info


def eval_new(ctx, c, info, mo):
    ctx.case(c, True)
    ctx.hit("kind:new")
    ctx.hit("new:%s/%s/%s" % ("base" if c["fields"] is None else (c.get("cls") or "factory"), c["arg"][0] if c["arg"][0] == "t" else ("mapping:" + c["arg"][1] if c["arg"][0] == "m" else ("dict" if c["arg"][1] else "dict-subclass")),
                              info["built"][0] if info["built"][0] == "ok" else info["built"][1]))
    mo = list(mo)
    if info["model"]:
        m = model_forms(mo.pop(0), "rownew")[0]
        if not wire.same(info["built"], m):
            ctx.disagree(c, {"row": info["built"]}, {"row": m}, "cls(data) builds another row than the model of Row.__new__")
            return
    if info.get("enc_err"):
        ctx.fail(c, "the encoder refuses a row of the value domain (%s) [row built by cls(%s)]" % (info["enc_err"], "tuple" if c["arg"][0] == "t" else ("mapping" if c["arg"][0] == "m" else "dict")),
                 impl=info["enc_err"], model=None)
        return
    if info.get("rec") is not None:
        g, exc = info["back"]
        cl = judge_emitted(g, exc, info["built"][1])
        if cl is not None:
            ctx.fail(c, cl[0] + " [row built by cls(%s)]" % ("tuple" if c["arg"][0] == "t" else ("mapping" if c["arg"][0] == "m" else "dict")), impl={"record": info["rec"], "got": cl[1], "built": info["built"]},
                     model={"row": info["expect"]})
            return
        me = model_forms(mo.pop(0), "encode")[0]
        if me[0] != "ok" or me[1] != info["rec"]:
            ctx.disagree(c, {"record": info["rec"]}, {"encode": me}, "the record of a row built by cls(data) differs from the model's record of the specified row")


def new_cases(rng):
    out = []
    vals = [None, True, 0, -1, 2**63, 1.5, float("nan"), "é", b"\x01", [1, [2]], {"k": 1}]
    for fields in (["a"], ["a", "b"], ["b", "a", "c"], ["a", "a"], []):
        full = {f: vals[(i * 3 + len(fields)) % len(vals)] for i, f in enumerate(fields)}
        rev = dict(reversed(list(full.items())))
        for exact in (True, False):
            out.append({"kind": "new", "fields": fields, "arg": ["d", exact, full]})
            out.append({"kind": "new", "fields": fields, "arg": ["d", exact, rev]})
            out.append({"kind": "new", "fields": fields, "arg": ["d", exact, dict(list(full.items())[1:])]})  # a missing field
            out.append({"kind": "new", "fields": fields, "arg": ["d", exact, dict(full, zz=7, A="upper")]})  # surplus keys
            out.append({"kind": "new", "fields": fields, "arg": ["d", exact, {}]})
        for kind in MAPPING_KINDS:
            # a mapping that is not a dict stands for its dictionary: never the row of its keys
            out.append({"kind": "new", "fields": fields, "arg": ["m", kind, full]})
            out.append({"kind": "new", "fields": fields, "arg": ["m", kind, dict(rev, zz=7)]})
            out.append({"kind": "new", "fields": fields, "arg": ["m", kind, dict(list(full.items())[1:])]})
        out.append({"kind": "new", "fields": fields, "arg": ["m", "userdict", {}]})
        out.append({"kind": "new", "fields": fields, "cls": "tuples_only", "arg": ["m", "userdict", full]})
        out.append({"kind": "new", "fields": fields, "arg": ["t", [vals[i % len(vals)] for i in range(len(fields))]]})
        out.append({"kind": "new", "fields": fields, "arg": ["t", [1, 2, 3, 4]]})  # more items than fields: a tuple is kept as it is
        out.append({"kind": "new", "fields": fields, "cls": "tuples_only", "arg": ["t", [vals[i % len(vals)] for i in range(len(fields))]]})
    out.append({"kind": "new", "fields": None, "arg": ["t", [1, "a"]]})
    out.append({"kind": "new", "fields": None, "arg": ["d", True, {"a": 1}]})
    out.append({"kind": "new", "fields": None, "arg": ["d", False, {}]})
    out.append({"kind": "new", "fields": None, "arg": ["m", "proxy", {"a": 1}]})
    for _ in range(40):
        n = rng.randrange(0, 6)
        fields = ["f%d" % rng.randrange(0, 7) for _ in range(n)]
        d = {"f%d" % rng.randrange(0, 9): vals[rng.randrange(len(vals))] for _ in range(rng.randrange(0, 8))}
        out.append({"kind": "new", "fields": fields, "arg": ["d", rng.random() < 0.7, d]})
        if rng.random() < 0.5:
            out.append({"kind": "new", "fields": fields, "arg": ["m", MAPPING_KINDS[rng.randrange(len(MAPPING_KINDS))], d]})
    return out


# --------------------------------------------------------------------------- what is handed to from_bytes: other buffer types


def eval_input(ctx, c):
    """`Row.from_bytes` is specified for `bytes`.  Handed the record in another buffer type (bytearray, memoryview, a subclass
    of bytes, a slice of a larger buffer) it may refuse the type -- but if it answers, it must answer like it does for the
    `bytes` record: the emitted record decodes to the row, a torn / extended one is not decoded into a row."""
    ctx.case(c, True)
    ctx.hit("kind:input")
    row = c["row"]
    keep = _RECORD_HISTORY[0]
    _RECORD_HISTORY[0] = False
    try:
        rec, err = impl_encode({"row": row})
    finally:
        _RECORD_HISTORY[0] = keep
    if rec is None:
        return

    class B(bytes):
        pass

    big = b"\xff" * 7 + rec + b"\x10\x00" * 9
    forms = {"bytearray": bytearray(rec), "memoryview": memoryview(rec), "bytes-subclass": B(rec), "slice-of-larger": big[7:7 + len(rec)],
             "memoryview-slice": memoryview(big)[7:7 + len(rec)], "larger-than-declared": big[7:], "torn-bytearray": bytearray(rec[:-1]),
             "torn-subclass": B(rec[:-1]), "larger-than-declared-bytearray": bytearray(big[7:]), "larger-than-declared-memoryview": memoryview(big)[7:],
             "larger-than-declared-subclass": B(rec + b"\n")}
    for name, data in forms.items():
        g, exc = impl_decode(len(row), data)
        ctx.hit("input:%s->%s" % (name, outcome_label(g) if exc in (None, "DataError") else exc))
        whole = name in ("bytearray", "memoryview", "bytes-subclass", "slice-of-larger", "memoryview-slice")
        if g[0] == "ok":
            back = decoded_values(g)
            if not whole:
                ctx.fail(c, "%s record is accepted and decoded into a row [buffer handed over as %s]" % ("torn" if "torn" in name else "ext", name), impl=g, model=None)
                return
            if not wire.same(back, row):
                ctx.fail(c, "round trip returns a different row [record handed over as %s]" % name, impl=back, model=None)
                return
        elif g[0] == "err" and exc == "TypeError":
            continue  # the buffer type is refused: nothing is decoded
        elif g[0] == "err" and exc == "DataError" and not whole:
            continue
        elif isinstance(data, bytes) and whole:
            # a bytes object (subclass / slice) holding the emitted record is a record the encoder emitted
            cl = judge_emitted(g, exc, row)
            if cl is not None:
                ctx.fail(c, cl[0] + " [record handed over as %s]" % name, impl=g, model=None)
                return
        elif isinstance(data, bytes) and not whole:
            cl = judge_altered("torn" if "torn" in name else "ext", g, exc)
            if cl is not None:
                ctx.fail(c, cl[0] + " [buffer handed over as %s]" % name, impl=g, model=None)
                return


def input_cases():
    return [{"kind": "input", "row": r} for r in ([], [0], [None, "é", b"\x00\x01", [1, {"k": 2.5}]], ["x" * 300])]


# --------------------------------------------------------------------------- `default=` glue (outside the value domain)

GLUE = {
    # name: (constructor, image in the wire universe) — image = what orso/row.py's `serialize` or ormsgpack's native
    # support turns the item into; measured once, stated here, compared on every run
    "decimal": (lambda: __import__("decimal").Decimal("1.50"), "1.50"),
    "complex": (lambda: 1 + 2j, "(1+2j)"),
    "set": (lambda: {7}, "{7}"),
    "frozenset": (lambda: frozenset([7]), "frozenset({7})"),
    "fraction": (lambda: __import__("fractions").Fraction(1, 2), "1/2"),
    "range": (lambda: range(3), "range(0, 3)"),
    "type": (lambda: float, "<class 'float'>"),
    "tuple": (lambda: (1, "a", None), [1, "a", None]),
    "bytearray": (lambda: bytearray(b"ab"), b"ab"),
    "np.int64": (lambda: __import__("numpy").int64(-5), -5),
    "np.uint64": (lambda: __import__("numpy").uint64(2**64 - 1), 2**64 - 1),
    "np.bool": (lambda: __import__("numpy").bool_(True), True),
    "np.float64": (lambda: __import__("numpy").float64(-0.0), -0.0),
    "np.str": (lambda: __import__("numpy").str_("é"), "é"),
    "ndarray:int": (lambda: __import__("numpy").array([1, 2, 3]), [1, 2, 3]),
    "ndarray:object": (lambda: __import__("numpy").array([1, "a", None], dtype=object), [1, "a", None]),
    "ndarray:str": (lambda: __import__("numpy").array(["a", "b"]), ["a", "b"]),
    "ndarray:strided": (lambda: __import__("numpy").array([[1, 2], [3, 4]])[:, 0], [1, 3]),
    "ndarray:empty": (lambda: __import__("numpy").array([], dtype="float64"), []),
    "date": (lambda: datetime.date(2024, 1, 2), "2024-01-02"),
    "time": (lambda: datetime.time(1, 2, 3), "01:02:03"),
    "datetime": (lambda: datetime.datetime(2024, 1, 2, 3, 4, 5), "2024-01-02T03:04:05"),
    "datetime:utc": (lambda: datetime.datetime(2024, 1, 2, 3, 4, 5, tzinfo=datetime.timezone.utc), "2024-01-02T03:04:05+00:00"),
    "np.datetime64:s": (lambda: __import__("numpy").datetime64("2024-01-02T03:04:05"), "2024-01-02T03:04:05"),
    "uuid": (lambda: __import__("uuid").UUID(int=5), "00000000-0000-0000-0000-000000000005"),
    # every non-native kind at once, one level down (the `default=` callback is consulted inside containers too)
    "nested-mix": (lambda: [__import__("decimal").Decimal("1.50"), __import__("numpy").int64(3), __import__("numpy").float64(2.5),
                            datetime.datetime(2024, 1, 2, 3, 4, 5), datetime.datetime(2024, 1, 2, 3, 4, 5, tzinfo=datetime.timezone.utc),
                            (1, (2,)), None, 2**64 - 1, {"k": __import__("decimal").Decimal("2")}],
                   ["1.50", 3, 2.5, "2024-01-02T03:04:05", "2024-01-02T03:04:05+00:00", [1, [2]], None, 2**64 - 1, {"k": "2"}]),
}


def glue_prepare(c):
    make, image = GLUE[c["what"]]
    before, after = c.get("before", []), c.get("after", [])
    info = {"image": before + [image] + after, "ts": 0, "rec": None, "exc": None}
    try:
        R = row_class(len(before) + 1 + len(after))
        obj = R(tuple(before) + (make(),) + tuple(after))
        rec = obj.as_bytes
        if not isinstance(rec, bytes):
            info["exc"] = "returns %s instead of bytes" % type(rec).__name__
        else:
            info["rec"] = rec
            info["ts"] = int.from_bytes(rec[6:14], "big")
            # the same object sized and serialised again: the `default=` callback runs again on the same foreign items
            obj.nbytes()
            rec2 = obj.as_bytes
            if not isinstance(rec2, bytes) or rec2[:6] + rec2[14:] != rec[:6] + rec[14:]:
                info["rec"] = None
                info["exc"] = "the second as_bytes of the same object gives another payload"
    except KeyboardInterrupt:
        raise
    except BaseException as e:
        info["exc"] = "%s: %s" % (_exc_name(e), _exc_text(e)[:100])
    return info


def eval_glue(ctx, c, info, mo):
    """Items outside the property's value domain: the property promises nothing about them; the model's
    encoder applied to the stated image must give the implementation's record (what `default=` does)."""
    ctx.case(c, True)
    ctx.hit("kind:glue")
    ctx.hit("glue:" + c["what"])
    me = model_forms(mo, "encode")[0]
    if info["rec"] is None:
        ctx.disagree(c, {"encode": info["exc"]}, {"encode": me}, "a non-native item the encoder used to serialise is refused")
        return
    if me[0] != "ok" or me[1] != info["rec"]:
        ctx.disagree(c, {"record": info["rec"]}, {"encode": me, "image": info["image"]}, "a non-native item is serialised differently from its stated image")
        return
    g, exc = impl_decode(len(info["image"]), info["rec"])
    want = ["ok", [["v", x] for x in info["image"]]]
    if not wire.same(g, want):
        ctx.disagree(c, {"decode": g}, {"decode": want}, "the record of a non-native item does not decode to its stated image")


# --------------------------------------------------------------------------- two callers at the same time
#
# The statement says "every record the encoder emits is accepted by the decoder" and "decoding it returns
# an equal row" of *every* record: it does not restrict who else is using the encoder meanwhile.  On the
# tree as it is, `as_bytes` and `from_bytes` are functions of their argument (and the clock) alone, so
# nothing here depends on a schedule; state shared between calls (a reusable module-level buffer, a
# scratch list on the class, a memo) makes the emitted record depend on what another caller does between
# two source lines.  The detector runs two real calls in two threads under the deterministic
# line-granular scheduler of C19 (harness/sched.py: exactly one thread runs, hand-over only at `line`
# events of frames whose code is defined in orso/row.py or is the source-level shadow decoder) over
# every schedule with a bounded number of pre-emptions and judges every outcome by the property.

_CONC = {}


def path_codes():
    """Every code object defined in orso/row.py (functions, methods, properties, nested functions) and the
    shadow of `from_bytes_cython`: the frames in which a hand-over may happen."""
    if "codes" in _CONC:
        return _CONC["codes"]
    import types

    import orso.row as rowmod

    out = set()

    def add(code):
        if code not in out:
            out.add(code)
            for k in code.co_consts:
                if isinstance(k, types.CodeType):
                    add(k)

    def visit(obj, depth=0):
        if isinstance(obj, types.FunctionType):
            if obj.__code__.co_filename == rowmod.__file__:
                add(obj.__code__)
        elif isinstance(obj, (classmethod, staticmethod)):
            visit(obj.__func__)
        elif isinstance(obj, property):
            for f in (obj.fget, obj.fset, obj.fdel):
                if f is not None:
                    visit(f)
        elif isinstance(getattr(obj, "func", None), types.FunctionType):  # functools.cached_property / partial
            visit(obj.func)
        elif isinstance(getattr(obj, "__wrapped__", None), types.FunctionType):  # functools.wraps / lru_cache
            visit(obj.__wrapped__)
        elif isinstance(obj, type) and depth < 2 and getattr(obj, "__module__", None) == rowmod.__name__:
            for v in list(vars(obj).values()):
                visit(v, depth + 1)

    for v in list(vars(rowmod).values()):
        try:
            visit(v)
        except KeyboardInterrupt:
            raise
        except BaseException:  # an object whose attributes cannot be looked at: not a frame of the path
            pass
    f = shadow()[0]
    if f is not None and hasattr(f, "__code__"):
        add(f.__code__)
    _CONC["codes"] = out
    return out


def module_state():
    """Contents of the mutable containers reachable by name from orso.row (module globals, attributes of
    `Row`, default arguments of its functions): what a call could leave behind for the next one."""
    import types

    import orso.row as rowmod

    snap = {}

    def look(name, v):
        if isinstance(v, (bytearray, list, dict, set)):
            try:
                snap[name] = repr(v)[:4000]
            except Exception:
                snap[name] = "<unprintable %d>" % id(v)

    for k, v in list(vars(rowmod).items()):
        if k.startswith("__"):
            continue
        look(k, v)
        if isinstance(v, types.FunctionType) and v.__module__ == rowmod.__name__:
            for i, d in enumerate(v.__defaults__ or ()):
                look("%s.<default %d>" % (k, i), d)
    for k, v in list(vars(rowmod.Row).items()):
        if not k.startswith("__"):
            look("Row." + k, v)
    return snap


def state_touched():
    """Names of module-level containers of orso.row whose content two sequential calls of different rows
    change (never a violation in itself: a hint where to spend schedules, reported in the evidence)."""
    if "touched" in _CONC:
        return _CONC["touched"]
    touched = set()
    try:
        R = row_class(2)
        before = module_state()
        for values in ((1, "a"), ("x" * 300, None), (1, "a")):
            rec = R(values).as_bytes
            after = module_state()
            touched |= {k for k in set(before) | set(after) if before.get(k) != after.get(k)}
            before = after
            R.from_bytes(rec)
            after = module_state()
            touched |= {k for k in set(before) | set(after) if before.get(k) != after.get(k)}
            before = after
    except KeyboardInterrupt:
        raise
    except BaseException:
        pass
    _CONC["touched"] = sorted(touched)
    return _CONC["touched"]


def conc_prepare(case):
    """[(thunk, spec, record given to a decoding thread | None)] for the threads of a `conc` case."""
    prepared = []
    keep = _RECORD_HISTORY[0]
    _RECORD_HISTORY[0] = False
    try:
        for t in case["threads"]:
            row = t["row"]
            values = tuple(to_py(x, t.get("tuples", False)) for x in row)
            if t["op"] == "enc":
                try:
                    R = row_class(len(row), t.get("cls"))
                    obj = R(values)
                    thunk = (lambda obj=obj: obj.as_bytes)
                except KeyboardInterrupt:
                    raise
                except BaseException as e:  # the constructor is orso code too: its failure is the thread's outcome
                    def thunk(e=e):
                        raise e
                prepared.append((thunk, t, None))
            else:
                rec, err = impl_encode({"row": row, "tuples": t.get("tuples", False), "cls": t.get("cls")})
                if rec is None:
                    # judged by the row path (the encoder refuses a row of the domain); nothing to hand to a decoding thread
                    return None
                data = apply_desc(rec, t["alter"]) if t.get("alter") else rec
                prepared.append(((lambda n=len(row), data=data, cls=t.get("cls"): impl_decode(n, data, cls)), t, data))
    finally:
        _RECORD_HISTORY[0] = keep
    return prepared


def conc_run(case, prepared=None):
    """One execution of the threads under `case['schedule']` (then lowest live thread first)."""
    from .. import sched

    prepared = prepared or conc_prepare(case)
    if prepared is None:
        return {"skipped": True, "trace": [], "alive": [], "outcomes": [], "stuck": False, "bad_prefix": None, "prepared": []}
    src = case.get("decoder") == "src" and shadow()[0] is not None and source_reachable()
    cm = using_source() if src else None
    if cm:
        cm.__enter__()
    try:
        res = sched.run([p[0] for p in prepared], case.get("schedule") or [], path_codes(), timeout=5.0)
    finally:
        if cm:
            cm.__exit__()
    res["prepared"] = prepared
    return res


def oracle_conc(case, res):
    """The property on what the threads returned: (clause, detail) or None."""
    who = " [while another thread is inside Row.as_bytes / Row.from_bytes]"
    for i, ((_, t, data), out) in enumerate(zip(res["prepared"], res["outcomes"])):
        row = t["row"]
        if out is None:
            continue
        if t["op"] == "enc":
            if out[0] != "ok":
                return "the encoder refuses a row of the value domain (raises %s)%s" % (out[1], who), {"thread": i, "row": row}
            rec = out[1]
            if not isinstance(rec, bytes):
                return "the encoder returns %s instead of bytes%s" % (type(rec).__name__, who), {"thread": i, "row": row}
            outs = decode_all(len(row), [rec], t.get("cls"))
            for w in ("bin", "src", "direct"):
                if outs[w] is None:
                    continue
                got, exc = outs[w][0]
                cl = judge_emitted(got, exc, row)
                if cl is not None:
                    return cl[0] + WHO[w] + who, {"thread": i, "row": row, "record": rec, "got": cl[1]}
        else:
            if out[0] != "ok":
                return "the decoder's caller raised %s%s" % (out[1], who), {"thread": i}
            got, exc = out[1]
            w = WHO["src"] if case.get("decoder") == "src" else ""
            if t.get("alter"):
                cl = judge_altered(_LABEL.get(t["alter"][0], "altered"), got, exc)
                if cl is not None:
                    return cl[0] + w + who, {"thread": i, "data": data}
            else:
                cl = judge_emitted(got, exc, row)
                if cl is not None:
                    return cl[0] + w + who, {"thread": i, "row": row, "record": data, "got": cl[1]}
    return None


_LABEL = {"t": "torn", "x": "ext", "f": "bitflip", "l": "lenset", "s": "vernib"}


def evaluate_conc(ctx, items):
    """items = [(case, result of conc_run)]: oracle, then the emitted records against the model byte for byte."""
    lines, plan = [], []
    for case, res in items:
        ctx.case(case, True)
        ctx.hit("kind:conc")
        ctx.hit("conc:%s" % "+".join(t["op"] + ("-altered" if t.get("alter") else "") for t in case["threads"])
                + (":src" if case.get("decoder") == "src" else ""))
        switches = sum(1 for a, b in zip(res["trace"], res["trace"][1:]) if a[0] != b[0])
        ctx.hit("conc-switches:%s" % (switches if switches < 4 else ">=4"))
        if res.get("skipped"):
            ctx.hit("conc:skipped-row-not-encodable")
            continue
        if res["stuck"]:
            ctx.hit("conc:stuck")
            ctx.note("conc_stuck", "the scheduler timed out on %s (a thread blocked outside its control); the run is not judged" % json.dumps(core._jsonable(case))[:300])
            continue
        if ctx.replaying and res.get("bad_prefix") is not None:
            ctx.note("conc_schedule", "the stored schedule could not be followed from step %d on (the source lines changed); continued with the default policy" % res["bad_prefix"])
        cl = oracle_conc(case, res)
        if cl is not None and not ctx.replaying:
            seq = conc_run(dict(case, schedule=[]), res["prepared"])  # thread 0 to its end, then thread 1
            if not seq["stuck"] and oracle_conc(case, seq) is not None:
                ctx.hit("conc:fails-sequentially-too")
                key = json.dumps(core._jsonable(case["threads"]), sort_keys=True, default=repr)
                if key in _CONC.setdefault("seq_fail", set()):
                    continue
                _CONC["seq_fail"].add(key)
                evaluate(ctx, [{"kind": "row", "row": t["row"], "tuples": t.get("tuples", False), "cls": t.get("cls")} for t in case["threads"]])
                continue
        if cl is not None:
            sig = _norm(cl[0])
            if not ctx.replaying and (sig in _REPORTED or any(_norm(v.get("sig")) == sig for v in ctx.violations) or _CONC.get("reported", 0) >= 2):
                ctx.hit("violation-dup:" + sig)  # one defect in shared state shows under many clauses: two replays are enough
                continue
            _REPORTED.add(sig)
            _CONC["reported"] = _CONC.get("reported", 0) + 1
            ctx.fail(case, cl[0], impl=cl[1], model=None,
                     detail="schedule = thread ids, one entry per source line executed inside orso/row.py (trace: %s)" % json.dumps(res["trace"])[:600])
            continue
        first = len(lines)
        recs = []
        for (_, t, _d), out in zip(res["prepared"], res["outcomes"]):
            if t["op"] == "enc" and out is not None and out[0] == "ok":
                recs.append((t, out[1]))
                lines.append("C01 encode " + wire.line(int.from_bytes(out[1][6:14], "big"), t["row"]))
        plan.append((case, first, recs))
    if not lines:
        return
    mouts = ctx.model.batch(lines)
    for case, first, recs in plan:
        for j, (t, rec) in enumerate(recs):
            me = model_forms(mouts[first + j], "encode")[0]
            if me[0] != "ok" or me[1] != rec:
                ctx.disagree(case, {"record": rec, "row": t["row"]}, {"encode": me},
                             "the record emitted while another thread is inside the encoder/decoder differs from the model")
                break


def conc_explore(ctx, base, bound, limit):
    """Schedules of `base`'s two threads over real executions.  bound 1: one thread executes i lines, the
    other runs to its end, the first finishes — for every i and either thread first (every schedule with
    one pre-emption).  bound 2: the first executes i lines, the other j lines, the first finishes, the
    other finishes — every (i, j).  Returns (number of schedules, complete?)."""
    from .. import sched

    prepared = conc_prepare(base)
    if prepared is None:
        ctx.hit("conc:skipped-row-not-encodable")
        return 0, False
    thunks = [p[0] for p in prepared]
    src = base.get("decoder") == "src" and shadow()[0] is not None and source_reachable()
    cm = using_source() if src else None
    if cm:
        cm.__enter__()
    items, seen = [], set()
    complete = True

    def one(prefix, policy):
        res = sched.run(thunks, prefix, path_codes(), timeout=5.0, policy=policy)
        res["prepared"] = prepared
        s = tuple(t for t, _ in res["trace"])
        if s not in seen or res["stuck"]:
            seen.add(s)
            items.append((dict(base, schedule=list(s)), res))
        return res

    def stop():
        return (limit is not None and len(items) >= limit) or ctx.time_left() < 6

    try:
        for first in (0, 1):
            other = 1 - first
            i = 0
            while complete:
                if bound == 1:
                    res = one([first] * i, lambda alive, step: other if other in alive else alive[0])
                    done_i = res["bad_prefix"] is not None
                else:
                    j = 1
                    done_i = False
                    while True:
                        res = one([first] * i + [other] * j, lambda alive, step: first if first in alive else alive[0])
                        if res["stuck"] or stop():
                            complete = False
                            break
                        if res["bad_prefix"] is not None:
                            done_i = res["bad_prefix"] < i  # the first thread has fewer than i lines
                            break
                        j += 1
                if res["stuck"] or stop():
                    complete = False
                if done_i or not complete:
                    break
                i += 1
            if not complete:
                break
    finally:
        if cm:
            cm.__exit__()
    evaluate_conc(ctx, items)
    return len(items), complete


LARGE_ROW = [None, True, -5, 2.5, "some longer text " * 20, b"\x00\x01\x02" * 50, [1, [2, 3]], {"k": "v"}]


def conc_bases(rng, n_random):
    E = lambda row, **kw: dict({"op": "enc", "row": row}, **kw)  # noqa: E731
    D = lambda row, **kw: dict({"op": "dec", "row": row}, **kw)  # noqa: E731
    out = [
        # two encoders, payloads of different length (1 / 2 bytes; 3 / several hundred; below and above 64 KiB)
        {"kind": "conc", "threads": [E([]), E([0])]},
        {"kind": "conc", "threads": [E([1, "a"]), E(LARGE_ROW)]},
        {"kind": "conc", "threads": [E(["x" * 300]), E([b"y" * 70000])]},
        # the same length and different content; the same row twice; different classes
        {"kind": "conc", "threads": [E([1]), E([2])]},
        {"kind": "conc", "threads": [E([-0.0, None]), E([-0.0, None])]},
        {"kind": "conc", "threads": [E([1, "a"], cls="base"), E([[1, 2], {"k": None}], tuples=True)]},
        {"kind": "conc", "threads": [E([1, "a"], cls="tuples_only"), E([])]},
        # an encoder and a decoder
        {"kind": "conc", "threads": [E([0]), D(["ab", None])]},
        {"kind": "conc", "threads": [E(LARGE_ROW), D([])], "decoder": "src"},
        {"kind": "conc", "threads": [E([]), D([1, "a"], alter=["t", 16])], "decoder": "src"},
        # two decoders: the binary (one line of glue each) and the .pyx as written (line by line)
        {"kind": "conc", "threads": [D([]), D([0, "a"])]},
        {"kind": "conc", "threads": [D([]), D([0, "a"])], "decoder": "src"},
        {"kind": "conc", "threads": [D([7, [1, 2]]), D([7, [1, 2]], alter=["x", b"\x00"])], "decoder": "src"},
        {"kind": "conc", "threads": [D(LARGE_ROW), D([None], alter=["t", 14])], "decoder": "src"},
        {"kind": "conc", "threads": [D([1]), D([2], alter=["f", 3, 0])]},
    ]
    for _ in range(n_random):
        a, b = random_row(rng)["row"], random_row(rng)["row"]
        q = rng.random()
        ta = E(a) if q < 0.7 else D(a)
        tb = E(b) if rng.random() < 0.6 else D(b)
        c = {"kind": "conc", "threads": [ta, tb]}
        if rng.random() < 0.5:
            c["decoder"] = "src"
        out.append(c)
    return out


def conc_phase(ctx):
    """All schedules with one pre-emption for every pair (quick); two pre-emptions, bounded per pair, in the
    thorough tier and whenever sequential calls are seen to change a module-level container of orso.row."""
    touched = state_touched()
    ctx.note("module_state", "containers reachable by name from orso.row whose content changes across sequential as_bytes/from_bytes calls: %s"
             % (touched or "none"))
    for name in touched:
        ctx.hit("module-state-touched:" + name)
    scope = []
    bases = conc_bases(ctx.rng, ctx.scale(4, 40))
    for i, base in enumerate(bases):
        if ctx.time_left() < 10:
            scope.append("stopped after %d of %d pairs (time)" % (i, len(bases)))
            break
        deep = ctx.tier == "thorough" or (touched and i < 4)
        bound, limit = (2, ctx.scale(400, 1500)) if deep and i < 8 else (1, 400)
        n, complete = conc_explore(ctx, base, bound, limit)
        scope.append("%s%s: %s %d schedules, <= %d pre-emptions" % ("+".join(t["op"] for t in base["threads"]),
                                                                     ":src" if base.get("decoder") == "src" else "", "all" if complete else "first", n, bound))
    ctx.note("conc_scope", scope)


# --------------------------------------------------------------------------- generators

SCALARS = (
    [None, True, False]
    + gen.INT_EDGES
    + [-(2**63) + 1, 2**64 - 2, 2**16 - 1, 2**16, -(2**15), -(2**15) - 1, 127, 128, -32, -33]
    + gen.FLOAT_EDGES
    + [struct.unpack(">d", bytes.fromhex(h))[0] for h in ("7ff0000000000001", "fff8000000000001", "7ff4000000000000", "0000000000000001", "800fffffffffffff")]
    + gen.TEXTS
    + ["\x00", "߿ࠀ￿\U00010000", "x" * 255, "x" * 256]
    + [b"", b"\x00", b"\xff" * 31, b"a" * 255, b"b" * 256]
)


def small_containers():
    return [
        [], {}, [[]], [{}], {"a": []}, {"": None}, [None], [1, "a", b"b", 2.5, None, True],
        [[[[[1]]]]], {"k": {"k": {"k": [1, {"z": -1}]}}}, list(range(15)), list(range(16)), list(range(17)),
        {str(i): i for i in range(15)}, {str(i): i for i in range(16)}, {"é": "日本", "\U0001f600": [b"\x00"]},
        ["__datetime__"], ["__datetime__", 1, 2], [["__datetime__", 1]], {"__datetime__": 1}, ["__datetime", 1],
        ["__datetime__x", 1], [b"__datetime__", 1], [1, "__datetime__"], {"k": ["__datetime__", 1]}, ["__DATETIME__", 1],
        ["", 1], [None, 1],
    ]


def extracted(key, default):
    """An item the extractor read from the working tree on this run (Generated/generated.json)."""
    try:
        with open(os.path.join(core.LEAN, "OrsoVerif", "Generated", "generated.json")) as f:
            return json.load(f).get(key, default)
    except Exception:
        return default


def marker_containers():
    """Two-element lists headed by whatever text the *source* treats as its datetime marker (decoder and
    encoder side): only `['__datetime__', x]` is excluded by the property, any other marker is an ordinary row."""
    out = []
    for m in {extracted("pyx.reserved_form", [2, 0, "__datetime__", 1])[2], extracted("row.reserved_form", ["__datetime__", 2])[0]}:
        if isinstance(m, str) and m != "__datetime__":
            out += [[m, 1], [m, 1.5], [m, None]]
    return out


LOOKALIKE_WORDS = ("decimal", "date", "time", "timedelta", "timestamp", "bytes", "set", "tuple", "ndarray", "numpy", "uuid", "ext", "type",
                   "class", "row", "complex", "nan", "null", "none", "object", "json", "struct", "interval", "datetime64")


def harvested_markers():
    """Every text literal of the form `__word__` in the CURRENT source text of orso/row.py and compiled.pyx
    (quoted, either kind of quote): the candidates for a second encoder tag.  -> (sorted list, note)"""
    found, notes = set(), []
    for rel in ("orso/row.py", "orso/compute/compiled.pyx"):
        try:
            with open(os.path.join(core.REPO, rel), encoding="utf-8", errors="replace") as f:
                text = f.read()
        except OSError as e:
            notes.append("%s unreadable (%s)" % (rel, type(e).__name__))
            continue
        for m in re.finditer(r"""(?:b|rb|br|r|u)?(["'])(__\w+?__\w*)\1""", text):
            found.add(m.group(2))
    return sorted(found), "; ".join(notes)


def lookalike_markers():
    marks = set(harvested_markers()[0]) | {"__%s__" % w for w in LOOKALIKE_WORDS}
    marks |= {"__datetime__x", "x__datetime__", "__datetime___", "_datetime_", "__datetime__\x00", "__Datetime__", "__datetime__ ", "$date", "$type",
              "__type__", "~#date", "!decimal"}
    return sorted(marks)


def lookalike_values():
    """In-domain values that LOOK like an encoder tag: the property reserves ONLY the two-element list
    `['__datetime__', x]`; every one of these is an ordinary value of the domain and comes back as itself.
    Two-element lists headed by a marker text (and the marker in second place, three-element, one-element forms),
    maps with a tag key, binary with a magic prefix, shapes an extension type would unpack to."""
    out = []
    payloads = ["1.50", "a", "", 7, 0, -1, None, 1.5, True, "2024-01-02", "NaN", b"\x00\x01", [1], {}, "2024-01-02T03:04:05"]
    light = ["1.50", 7, None]
    fixed = {"__decimal__", "__date__", "__datetime__x", "__bytes__", "__set__", "__time__", "__timedelta__"}
    for m in lookalike_markers():
        for p in (payloads if m in fixed or m in harvested_markers()[0] else light):
            if m == "__datetime__":
                continue  # the reserved pair itself: kind "reserved"
            out.append([m, p])
        out += [{m: p} for p in (payloads if m in fixed else light + [[1], [1, 2], [], {}])]
        out += [[m], [m, "1.50", 2], [1, m], {m: "1.50"}, {m: True, "value": "1.50"}, {"type": m, "value": 7}, {"__type__": m.strip("_"), "v": "1.50"}]
        b = m.encode("utf-8")
        out += [b, b + b"1.50", [b, "1.50"], b"\x00" + b]
    out = [v for v in out if not is_reserved(v)]
    # ext-type-like shapes: (code, data) pairs, the timestamp extension's unpacked forms, a msgpack ExtType rendered as a value
    out += [[-1, b"\x00\x00\x00\x00"], [1, b"\x00"], [5, b"1.50"], {"code": 1, "data": b"\x00"}, [0, 0], [1700000000, 0], {"seconds": 1, "nanoseconds": 0},
            ["ExtType", 1, b"\x00"], b"\xd6\xff\x00\x00\x00\x00", b"\xc7\x0c\xff" + b"\0" * 12, b"\x10\x00\x00\x00\x00\x01" + b"\0" * 8 + b"\x90"]
    seen, uniq = set(), []
    for v in out:
        k = repr(v)
        if k not in seen:
            seen.add(k)
            uniq.append(v)
    return uniq


def lookalike_cases():
    """Each look-alike at top level (alone, between two plain columns, twice), one level down in a list and as a map
    value, and as an element of a tuple column."""
    vals = lookalike_values()
    for v in vals:
        yield {"kind": "row", "row": [v], "why": "tag-lookalike", "light": True}
    for i, v in enumerate(vals):
        if isinstance(v, dict) and len(v) == 1 and i % 2 == 0:
            yield {"kind": "row", "row": [None, v], "why": "tag-lookalike", "light": True}
            yield {"kind": "row", "row": [[v], {"k": v}], "why": "tag-lookalike-nested", "light": True}
        if isinstance(v, list) and len(v) == 2 and isinstance(v[0], str):
            yield {"kind": "row", "row": [1, v, "a"], "why": "tag-lookalike", "light": True}
            yield {"kind": "row", "row": [[v]], "why": "tag-lookalike-nested", "light": True}
            yield {"kind": "row", "row": [{"k": v}], "why": "tag-lookalike-nested", "light": True}
            if i % 3 == 0:
                yield {"kind": "row", "row": [v, v], "why": "tag-lookalike", "light": True}
                yield {"kind": "row", "row": [v], "tuples": True, "why": "tag-lookalike", "light": True}
                yield {"kind": "row", "row": [[1, [v, None]], {"a": {"b": v}}], "why": "tag-lookalike-nested", "light": True}


# --------------------------------------------------------------------------- text is an opaque sequence of code points
#
# The property's domain is "text" (empty and multi-byte): a text value is its sequence of Unicode scalar values and
# nothing else.  Code that treats "equivalent" texts as the same -- Unicode normalisation (NFC / NFD / NFKC / NFKD), case
# mapping, stripping, newline translation, dropping a byte-order mark / zero-width / control / NUL characters, un-escaping
# -- returns a different row.  None of the texts below is a fixed point of all of those rewrites, each is written with
# explicit escapes (the file itself holds ASCII only here, so no editor or tool can normalise the inputs), and the
# comparison is `==` on `str`, which compares code points.  `unicodedata` is used by the harness ONLY to measure the
# input distribution (which rewrites a generated text is not a fixed point of), never to build or compare a value.

OPAQUE_TEXTS = [
    # canonical composition: a base letter + combining mark(s) that have a precomposed form (NFC rewrites them)
    "e\u0301", "A\u030a", "o\u0308\u0304", "cafe\u0301", "n\u0303o", "D\u0307\u0323", "\u1e0b\u0323", "q\u0307\u0323", "q\u0323\u0307",
    "a\u0301\u0301", "\u0301", "\u0301e", "\u0627\u0653", "a\u0328\u0301",
    # canonical decomposition: precomposed forms (NFD rewrites them), Hangul syllables
    "\xe9", "\xc5", "\u1e69", "\u01d6", "\uac00", "\ud55c\uae00", "\xf1",
    # singletons: one code point canonically equivalent to ANOTHER single code point (NFC and NFD both rewrite them)
    "\u212b", "\u2126", "\u212a", "\u2000", "\u2001", "\u0340", "\u0341", "\u0343", "\u0374", "\u037e", "\u0387", "\u1f71", "\u1fbe", "\u2329\u232a",
    "\uf900", "\ufa0e\uf9ff", "\U0002f800", "10 \u2126 resistor",
    # composition exclusions: NFC DEcomposes these
    "\u0958", "\u0dda", "\ufb1d", "\ufb2a", "\u0f43", "\u2adc", "\U0001d15e",
    # conjoining Hangul jamo (L V, L V T, a syllable followed by a trailing consonant)
    "\u1100\u1161", "\u1112\u1161\u11ab", "\uac00\u11a8", "\u1100\u1161\u11a8\u1100\u1173\u11af", "\u1100", "\u11a8",
    # compatibility forms (NFKC / NFKD): ligatures, full-width / half-width, super/subscripts, fractions, circled, squared, no-break space
    "\ufb01", "\ufb03", "\ufb06", "\u0132", "\uff21\uff42\uff11", "\uff01", "\uff76\uff9e", "\xb2", "\u2075", "\u2081", "\xbd", "\u2460", "\u2122", "\u2121",
    "\u33a1", "\u3392", "\xa0", "a\xa0b", "\u3000", "\u2002\u2003", "\u202f", "\xb5", "\u017f", "\u1e9b", "\u2025", "\u2026", "\ufdfa", "\u2163", "\xaa",
    "\u02b0", "\u1d2c", "\u3131", "\uffa1", "\u320e", "\U0001d400", "\U0001f100", "\ufe10", "\ufe64",
    # case: upper, lower, title, mixed; characters whose case mapping changes length or is context dependent
    "A", "Ab", "aB", "ABC", "Hello World", "Stra\xdfe", "\xdf", "\u1e9e", "SS", "\u0130", "\u0131", "i\u0307", "\u01c5", "\u01c4", "\u01c6",
    "\u03a3", "\u03c2", "\u03c3", "\u1f88", "\u0149", "\ufb00", "\u0390", "\xc9", "\u0401", "\u0451", "\u10d0", "\u1c90", "\u13a0", "\uab70", "\U00010400", "\U00010428",
    # white space at either end / inside, the newline family, other separators
    " a", "a ", " a ", "  ", "\ta", "a\t", "a\n", "\na", "\n", "\r", "\r\n", "a\r\nb", "a\rb", "a\nb", "a\n\rb", "a\r\n", "\r\na", "a\r\r\nb", "a  b", "a \n",
    "\x0b", "\x0c", "a\x0b", "\x1c", "\x1d\x1e\x1f", "\x85", "a\x85b", "\u2028", "\u2029", "a\u2028b", "\u1680", "\u180e", "\u205f", "\u2007 1",
    # byte-order mark, zero-width and other invisible / default-ignorable characters, bidi controls, variation selectors, tags
    "\ufeff", "\ufeffa", "a\ufeff", "\ufeff\ufeff", "a\ufeffb", "\ufffe", "\u200b", "a\u200bb", "\u200ba", "a\u200b", "\u200c", "\u200d", "a\u200db",
    "\U0001f468\u200d\U0001f469\u200d\U0001f467", "\u2060", "\u2061", "\xad", "co\xadop", "\u034f", "\u061c", "\u200e", "\u200f", "\u202a\u202c", "\u202e", "\u2066\u2069",
    "\u2708\ufe0f", "\u2708\ufe0e", "\ufe0f", "\ufe00", "\U000e0100", "\U000e0001", "\U000e0061", "\u115f", "\u3164", "\u17b4", "\U0001d173",
    # NUL and other C0 / C1 controls: leading, trailing, in the middle
    "\x00", "a\x00", "\x00a", "a\x00b", "\x00\x00", "abc\x00\x00", "\x01", "\x07", "\x08", "a\x08", "\x1b", "\x1b[0m", "\x7f", "a\x7f", "\x80", "\x9f", "\x1a", "a\x1a", "\x04",
    # boundaries of the encoding forms, noncharacters, the replacement character, private use, unassigned
    "\x7f\x80", "\u07ff\u0800", "\ud7ff", "\ue000", "\uf8ff", "\ufdd0", "\ufdef", "\uffff", "\ufffd", "a\ufffd", "\ufffc", "\U00010000", "\U0001fffe", "\U0001ffff",
    "\U0010fffd", "\U0010fffe", "\U0010ffff", "\U000f0000", "\u0378", "\U000e0080", "\U0003134b",
    # escapes a layer might undo, quoting, text that reads as a number / keyword / padded number
    "&amp;", "&#233;", "%20", "%C3%A9", "a%00", "\\n", "\\u00e9", "\\x00", "\\", "a\\", "\"", "'", "\"a\"", "'a'", "``", "a\"b", "+1", " 1", "1 ", "01", "1.0", "1e3", "-0", "0x10",
    "true", "True", "None", "null", "nan", "NaN", "Infinity", "\uff11", "\u0661", "b'a'", "b\"\"",
]

# texts a rewrite would MERGE: members of a group are different values of the domain (different code points)
OPAQUE_GROUPS = [
    ["\xe9", "e\u0301"], ["\xc5", "A\u030a", "\u212b"], ["\u03a9", "\u2126"], ["K", "\u212a", "k"], ["\uac00", "\u1100\u1161"], ["\uac01", "\uac00\u11a8", "\u1100\u1161\u11a8"],
    ["q\u0307\u0323", "q\u0323\u0307"], ["\u1e69", "s\u0323\u0307", "s\u0307\u0323", "\u1e63\u0307", "\u1e61\u0323"], ["\u0958", "\u0915\u093c"],
    ["\ufb01", "fi"], ["\uff21", "A", "a"], ["\xb5", "\u03bc"], ["\xa0", " ", "\u2002", "\u2000"], ["\u017f", "s", "S"], ["\xdf", "ss", "SS", "\u1e9e"],
    ["\u0131", "i", "\u0130", "I", "i\u0307"], ["\u03c3", "\u03c2", "\u03a3"], ["a", " a", "a ", " a ", "a\n", "\ta"], ["a\r\nb", "a\nb", "a\rb", "a\u2028b", "a\x85b"],
    ["a", "a\x00", "\x00a", "a\x00\x00"], ["", "\x00", "\ufeff", "\u200b", " ", "\u200d", "\xad"], ["a", "\ufeffa", "a\ufeff"], ["ab", "a\u200bb", "a\u200db", "a\xadb", "a\ufeffb", "a\x00b"],
    ["\u2708", "\u2708\ufe0f", "\u2708\ufe0e"], ["1", "\uff11", "\u0661", " 1", "01", "1 ", "+1"], ["\ufffd", "\ufffe", "\uffff", "\ufdd0"], ["e", "e\u0301", "\u0301e", "\u0301"],
    ["&", "&amp;"], ["\n", "\\n", "\r", "\r\n"], ["abc", "ABC", "Abc", "aBC"],
]

_OPAQUE_RANGES = [(0x00, 0x20), (0x7F, 0xA0), (0xA0, 0x100), (0x300, 0x370), (0x1100, 0x1200), (0x1E00, 0x2000), (0x2000, 0x2070), (0x2100, 0x2190), (0xAC00, 0xAC40),
                  (0xF900, 0xFA10), (0xFB00, 0xFB50), (0xFE00, 0xFE10), (0xFEFF, 0xFF00), (0xFF00, 0xFFF0), (0xFFF0, 0x10000), (0x41, 0x7B), (0x1D400, 0x1D440), (0xE0000, 0xE0080)]


def opaque_text(rng):
    """Random text built from the pieces above and from code points of the ranges where the rewrites act."""
    r = rng.random()
    if r < 0.35:
        return rng.choice(OPAQUE_TEXTS)
    if r < 0.45:
        return rng.choice(rng.choice(OPAQUE_GROUPS))
    parts = []
    for _ in range(rng.randint(1, 4)):
        q = rng.random()
        if q < 0.4:
            parts.append(rng.choice(OPAQUE_TEXTS))
        elif q < 0.6:
            parts.append(rng.choice("abcXYZ e"))
        else:
            lo, hi = rng.choice(_OPAQUE_RANGES)
            parts.append("".join(chr(rng.randrange(lo, hi)) for _ in range(rng.randint(1, 3))))
    return "".join(parts)


def opaque_value(rng, depth=2):
    """An opaque text at a random place: alone, in a list, as a map value, as a map key, nested."""
    t = opaque_text(rng)
    if depth <= 0 or rng.random() < 0.4:
        return t
    q = rng.random()
    if q < 0.35:
        xs = [gen.gen_scalar(rng) for _ in range(rng.randint(0, 2))]
        xs.insert(rng.randint(0, len(xs)), opaque_value(rng, depth - 1))
        return xs
    if q < 0.6:
        return {rng.choice(["k", "", "key"]): opaque_value(rng, depth - 1)}
    if q < 0.85:
        return {t: gen.gen_scalar(rng), opaque_text(rng): opaque_value(rng, depth - 1)}
    g = rng.choice(OPAQUE_GROUPS)
    return {k: i for i, k in enumerate(g)} if rng.random() < 0.5 else list(g)


def text_traits(s):
    """Which rewrites the text is NOT a fixed point of (measured for the evidence only)."""
    import unicodedata

    out = []
    for form in ("NFC", "NFD", "NFKC", "NFKD"):
        if unicodedata.normalize(form, s) != s:
            out.append("not-" + form)
    if s.lower() != s or s.upper() != s or s.casefold() != s:
        out.append("cased")
    if s.strip() != s:
        out.append("strippable")
    if "\r" in s or len(s.splitlines()) > 1 or (s and s.splitlines() and s.splitlines()[0] != s):
        out.append("newline-family")
    if "\x00" in s:
        out.append("NUL")
    if any(unicodedata.category(ch) in ("Cc", "Cf", "Cn", "Co") for ch in s):
        out.append("control/format/unassigned/private")
    return out


def opaque_text_cases():
    """Every opaque text at top level (alone, with full alteration coverage; between two other columns), nested in a list
    and as a map value, as a map key, in a tuple column; every pair of texts a rewrite would merge side by side in one row,
    as two elements of one list and as two keys of one map; a few through every kind of row object and class variant."""
    seen = set()
    texts = [t for t in OPAQUE_TEXTS + [t for g in OPAQUE_GROUPS for t in g] if not (t in seen or seen.add(t))]
    for i, t in enumerate(texts):
        yield {"kind": "row", "row": [t], "why": "opaque-text-top"}
        yield {"kind": "row", "row": [1, t, None], "why": "opaque-text-top", "light": True}
        yield {"kind": "row", "row": [[t], {"k": t}], "why": "opaque-text-nested", "light": True}
        yield {"kind": "row", "row": [{t: 1}], "why": "opaque-text-key", "light": True}
        if i % 3 == 0:
            yield {"kind": "row", "row": [[None, [t, {"m": [t]}]], t], "why": "opaque-text-nested", "light": True, "tuples": i % 2 == 0}
            yield {"kind": "row", "row": [{"a": {t: {t: [t]}}}], "why": "opaque-text-key", "light": True}
            yield {"kind": "row", "row": ["plain ascii", t, "\u65e5\u672c"], "why": "opaque-text-top", "light": True}
    for g in OPAQUE_GROUPS:
        yield {"kind": "row", "row": list(g), "why": "opaque-text-group", "light": True}
        yield {"kind": "row", "row": [list(g), {k: i for i, k in enumerate(g)}], "why": "opaque-text-group", "light": True}
        yield {"kind": "row", "row": [{k: k for k in reversed(g)}], "why": "opaque-text-group", "light": True}
    picks = ["e\u0301", "\u212b", "\u1100\u1161", "\ufb01", " a ", "a\r\nb", "\ufeffa", "a\x00", "Stra\xdfe", "\uac00"]
    for cls in (None, "tuples_only", "base"):
        for obj in ("decoded", "slotted", "plain", "dict", "frame"):
            if obj in ("dict", "frame") and cls is not None:
                continue
            for t in picks:
                c = {"kind": "row", "row": [t, [t], {t: t}], "obj": obj, "why": "opaque-text-object", "light": True}
                if cls:
                    c["cls"] = cls
                yield c


def opaque_seq_cases():
    """Texts a rewrite would merge, serialised one after the other in one process (a cache or an interning table keyed
    on the normalised / case-folded / stripped text hands the first one's bytes to the second)."""
    for g in OPAQUE_GROUPS:
        yield {"kind": "seq", "why": "opaque-text-merge", "rows": [[t] for t in g] + [[g[0]]] + [[t] for t in reversed(g)]}
        yield {"kind": "seq", "why": "opaque-text-merge", "rows": [[{t: [t]}] for t in g] + [[{g[0]: [g[0]]}]]}


def exhaustive_cases():
    vals = SCALARS + small_containers() + marker_containers()
    yield {"kind": "row", "row": []}
    for v in vals:
        yield {"kind": "row", "row": [v]}
    short = [None, True, 0, -1, 2**64 - 1, -(2**63), float("nan"), -0.0, "", "é", b"", [], {}, [1, [2]], {"a": {"b": 1}}]
    for a in short:
        for b in short:
            yield {"kind": "row", "row": [a, b]}
    for v in [[1, 2], {"a": [1, 2]}, [[1, "x"], [2, "y"]]]:
        yield {"kind": "row", "row": [v, v], "tuples": True}
    # payload lengths at which a byte of the length field crosses 0x7f/0x80 or 0xff/0x100 (a signed read, a dropped byte)
    for n in (127, 128, 129, 255, 256, 257, 32767, 32768, 32769):
        hdr = 2 if n - 3 < 256 else 3  # 0x91, then bin8 / bin16 header
        yield {"kind": "row", "row": [b"\x5a" * (n - 1 - hdr)], "light": n > 600, "why": "payload-length-%d" % n}
    for cls in ("tuples_only", "base"):
        for row in ([], [None], [1, "a"], [-0.0, True, b"x", [1, {"k": 2}]]):
            yield {"kind": "row", "row": row, "cls": cls}
    # the kind of row *object*: built from a tuple / from a dict, handed back by from_bytes (what a reader holds),
    # an instance of a user subclass with and without `__slots__ = ()` -- of each class variant
    for cls in (None, "tuples_only", "base"):
        for obj in ("decoded", "slotted", "plain", "dict", "frame"):
            if obj in ("dict", "frame") and cls is not None:
                continue
            for row in ([], [None], [1, "a"], [-0.0, True, b"x", [1, {"k": 2}]]):
                c = {"kind": "row", "row": row, "obj": obj}
                if cls:
                    c["cls"] = cls
                yield c


def boundary_cases(ctx):
    out = []
    for n in (65535, 65536):
        out.append({"kind": "row", "row": ["s" * n]})
        out.append({"kind": "row", "row": [b"\x01" * n]})
    out.append({"kind": "row", "row": [[None] * 65535]})
    out.append({"kind": "row", "row": [[0] * 65536, "tail"]})
    out.append({"kind": "row", "row": [{"k%d" % i: i for i in range(65536)}]})
    out.append({"kind": "row", "row": [None] * 65536})
    out.append({"kind": "row", "row": list(range(-40, 300))})
    for d in (10, 100, 200, 253, 254, 255, 256, 400):
        out.append({"kind": "deep", "depth": d, "shape": "list", "inner": 1})
        out.append({"kind": "deep", "depth": d, "shape": "mixed", "inner": None})
    for d in (252, 253, 254):
        out.append({"kind": "deep", "depth": d, "shape": "list", "inner": []})
        out.append({"kind": "deep", "depth": d, "shape": "mixed", "inner": {}})
    return out


def shape_cases(ctx):
    """Rows of one shape (what a fast path would single out) at every width where a MessagePack header
    changes form, alone and with one element of another kind at either end."""
    kinds = {
        "posfixint": lambda i: i % 128, "uint8": lambda i: 128 + i % 128, "negfixint": lambda i: -1 - i % 32, "zero": lambda i: 0,
        "none": lambda i: None, "bool": lambda i: i % 2 == 0, "float": lambda i: i * 0.5, "fixstr": lambda i: "s%d" % (i % 10),
        "empty-str": lambda i: "", "bin": lambda i: bytes([i % 256]), "empty-list": lambda i: [], "empty-map": lambda i: {},
        "int64": lambda i: 2**40 + i, "pair": lambda i: [i % 128, "v"],
    }
    widths = [15, 16, 17, 31, 32, 33, 127, 128, 129, 255, 256, 257]
    out = []
    for name, f in kinds.items():
        for w in widths:
            out.append({"kind": "row", "row": [f(i) for i in range(w)], "shape": name, "light": w > 40})
        out.append({"kind": "row", "row": [f(i) for i in range(16)] + ["odd"], "shape": name})
        out.append({"kind": "row", "row": [None] + [f(i) for i in range(16)], "shape": name})
    for w in (65535, 65536, 65537) if ctx.tier == "thorough" else (65536,):
        out.append({"kind": "row", "row": [i % 128 for i in range(w)], "shape": "posfixint", "light": True})
        out.append({"kind": "row", "row": [False] * w, "shape": "bool", "light": True})
    return out


def random_row(rng, big=False):
    r = rng.random()
    width = rng.choice([0, 1, 1, 2, 3, 5, 8]) if r < 0.8 else rng.randint(9, 40)
    row = []
    for _ in range(width):
        q = rng.random()
        if q < 0.25:
            v = rng.choice(SCALARS)
        elif q < 0.3:
            v = rng.choice(small_containers())
        elif q < 0.42:
            v = opaque_value(rng)  # text that is not a fixed point of normalisation / case mapping / stripping / ..., at any place
        else:
            v = gen.gen_pyval(rng, rng.choice([1, 2, 3, 4]))
        row.append(v)
    if big and rng.random() < 0.5:
        row.append(rng.choice(["t" * rng.randint(300, 6000), bytes(rng.getrandbits(8) for _ in range(rng.randint(300, 6000))),
                               [gen.gen_scalar(rng) for _ in range(rng.randint(20, 400))]]))
    row = [x for x in row if not is_reserved(x)]
    c = {"kind": "row", "row": row}
    if rng.random() < 0.2:
        c["tuples"] = True
    q = rng.random()
    if q < 0.1:
        c["cls"] = "tuples_only"
    elif q < 0.2:
        c["cls"] = "base"
    q = rng.random()
    if q < 0.15:
        c["obj"] = rng.choice(["decoded", "slotted", "plain"] + (["dict", "frame"] if "cls" not in c else []))
    return c


# values that compare equal under Python's == (and hash alike) but are different values of the domain
EQ_GROUPS = [[0, False, 0.0, -0.0], [1, True, 1.0], [-1, -1.0], [2, 2.0], [2**53, float(2**53)], [255, 255.0], [-(2**63), -float(2**63)],
             [2**63, float(2**63)]]


def eq_variant(rng, row):
    """A different row that Python's == calls equal (element-wise swaps inside the EQ_GROUPS)."""
    def sw(v):
        if isinstance(v, list):
            return [sw(x) for x in v]
        if isinstance(v, (bool, int, float)) and v == v:
            for g in EQ_GROUPS:
                if any(v == x for x in g):
                    return rng.choice([x for x in g if not wire.same(x, v)])
        return v

    return [sw(v) for v in row]


def seq_cases(rng, n_random):
    out = []
    # Python-equal, value-different rows one after the other (both orders), flat (hashable) and nested
    for g in EQ_GROUPS:
        for a in g:
            for b in g:
                if not wire.same(a, b):
                    out.append({"kind": "seq", "why": "py-equal", "rows": [[a], [b], [a]]})
    out.append({"kind": "seq", "why": "py-equal", "rows": [[0, False, 0.0], [False, 0, -0.0], [0.0, 0.0, 0]]})
    out.append({"kind": "seq", "why": "py-equal", "rows": [[-0.0, "reading", None], [0.0, "reading", None], [0, "reading", None]]})
    out.append({"kind": "seq", "why": "py-equal", "rows": [[[1, 2]], [[True, 2.0]], [[1.0, 2]]], "tuples": True})
    out.append({"kind": "seq", "why": "py-equal", "rows": [[[1, 2]], [[True, 2.0]], [[1.0, 2]]]})
    out.append({"kind": "seq", "why": "py-equal", "rows": [[{"a": 1}], [{"a": True}], [{"a": 1.0}]]})
    # the same row again, the same values in rows of different width, bytes vs text
    out.append({"kind": "seq", "why": "repeat", "rows": [[1, "a"], [1, "a"], [1, "a"]]})
    out.append({"kind": "seq", "why": "repeat", "rows": [[], [], [None], [], [None, None]]})
    out.append({"kind": "seq", "why": "width", "rows": [[1], [1, 2], [1], [1, 2, 3], [1, 2]]})
    out.append({"kind": "seq", "why": "kinds", "rows": [["a"], [b"a"], ["a"], [[]], [{}], [[]], [""], [b""], [None], [False], [0]]})
    nan1, nan2 = struct.unpack(">d", bytes.fromhex("7ff8000000000000"))[0], struct.unpack(">d", bytes.fromhex("7ff8000000000001"))[0]
    out.append({"kind": "seq", "why": "nan", "rows": [[nan1], [nan2], [-nan1], [nan1]]})
    out.append({"kind": "seq", "why": "size", "rows": [["x" * 40], ["x" * 4], ["x" * 400], ["x" * 4]]})
    for _ in range(n_random):
        q = rng.random()
        if q < 0.5:
            base = [rng.choice([x for g in EQ_GROUPS for x in g] + [None, "a", 7, 2.5]) for _ in range(rng.randint(1, 4))]
            rows = [base]
            for _ in range(rng.randint(1, 3)):
                rows.append(eq_variant(rng, rows[-1]))
            rows.append(base)
            c = {"kind": "seq", "why": "py-equal", "rows": rows}
            if rng.random() < 0.3:
                c["rows"] = [[r] for r in rows]  # one nested item per row
                c["tuples"] = rng.random() < 0.6
            out.append(c)
        else:
            rows = [random_row(rng)["row"] for _ in range(rng.randint(2, 12))]
            if rng.random() < 0.5:
                rows.append(rows[0])
            out.append({"kind": "seq", "why": "random", "rows": rows})
    return out


MSGPACK_TAGS = [0x90, 0x91, 0x92, 0x93, 0x80, 0x81, 0xa0, 0xa1, 0xa3, 0xc0, 0xc1, 0xc2, 0xc3, 0xc4, 0xc5, 0xc6, 0xc7, 0xc8, 0xc9,
                0xca, 0xcb, 0xcc, 0xcd, 0xce, 0xcf, 0xd0, 0xd1, 0xd2, 0xd3, 0xd4, 0xd5, 0xd6, 0xd7, 0xd8, 0xd9, 0xda, 0xdb,
                0xdc, 0xdd, 0xde, 0xdf, 0xe0, 0xff, 0x00, 0x7f, 0x61, 0x01, 0x02]


def tame(payload):
    """ormsgpack.unpackb pre-sizes a container from an array32/map32 header before reading the
    elements; a count near 2^32 in a short buffer leaves a multi-gigabyte (virtual) object behind
    that every later garbage collection walks for tens of seconds.  That is a property of the
    library on hostile input, not of the record format: keep the 32-bit counts below 2^16."""
    b = bytearray(payload)
    for i, t in enumerate(b):
        if t in (0xDD, 0xDF, 0xDB, 0xC6, 0xC9) and i + 2 < len(b):
            b[i + 1] = 0
            b[i + 2] = 0
    return bytes(b)


def framed(payload, b0=0x10, b1=0, ts=b"\0" * 8):
    return bytes([b0, b1]) + struct.pack(">I", len(payload)) + ts + payload


def random_bytes_case(rng):
    """Arbitrary buffers, biased towards well-framed ones with arbitrary (msgpack-looking) payloads."""
    r = rng.random()
    if r < 0.15:
        n = rng.choice([0, 1, 5, 13, 14, 15, 20, 40])
        data = bytes(rng.getrandbits(8) for _ in range(n))
        data = data[:14] + tame(data[14:])
    else:
        n = rng.randint(0, 24)
        payload = bytes(rng.choice(MSGPACK_TAGS) if rng.random() < 0.6 else rng.getrandbits(8) for _ in range(n))
        if rng.random() < 0.5 and payload:
            payload = bytes([rng.choice([0x90 + min(15, rng.randint(0, 4)), 0xdc, 0xdd])]) + payload
        payload = tame(payload)
        ln = len(payload)
        q = rng.random()
        if q < 0.1:
            ln = rng.choice([ln + 1, max(0, ln - 1), ln + 256, ln | 0x80000000, 0xFFFFFFFF, 0])
        b0 = 0x10 | rng.getrandbits(4) if rng.random() < 0.9 else rng.getrandbits(8)
        data = bytes([b0, rng.getrandbits(8)]) + struct.pack(">I", ln & 0xFFFFFFFF) + bytes(rng.getrandbits(8) for _ in range(8)) + payload
    return {"kind": "bytes", "width": 1, "data": data}


def mutated_payload_case(rng, recs):
    """A well-framed record whose *payload* is an emitted payload with one byte changed, a byte dropped or
    a family header rewritten to its longer form: the decoder must give a row or an error, as the model says."""
    rec = rng.choice(recs)
    if len(rec) < 14:  # (an encoder that emits less than a header: judged by the row path; here only a source of payloads)
        rec = framed(b"\x90")
    p = bytearray(rec[14:])
    if not p:
        p = bytearray(b"\x90")
    q = rng.random()
    i = rng.randrange(len(p))
    if q < 0.4:
        p[i] = rng.choice(MSGPACK_TAGS) if rng.random() < 0.7 else rng.getrandbits(8)
    elif q < 0.6:
        del p[i]
    elif q < 0.8:
        p.insert(i, rng.choice(MSGPACK_TAGS))
    else:
        p[i] ^= 1 << rng.randrange(8)
    return {"kind": "bytes", "width": 1, "data": framed(tame(bytes(p)), b0=rec[0], b1=rec[1], ts=rec[6:14]), "from": "mutated-payload"}


def family_cases():
    """Every MessagePack family on the decode side, in every length form, inside a one-item row and as the
    whole payload (never emitted in the longer forms; accepted or refused exactly as the model says)."""
    I = struct.pack
    forms = [
        b"\x05", b"\xcc\x05", b"\xcd\x00\x05", b"\xce\x00\x00\x00\x05", b"\xcf" + I(">Q", 5), b"\xcf" + I(">Q", 2**64 - 1),
        b"\xff", b"\xe0", b"\xd0\xff", b"\xd0\x80", b"\xd1\xff\xff", b"\xd1\x80\x00", b"\xd2\xff\xff\xff\xff", b"\xd2\x80\x00\x00\x00",
        b"\xd3" + I(">q", -1), b"\xd3" + I(">q", -(2**63)), b"\xd0\x05", b"\xd3" + I(">q", 5),
        b"\xa1a", b"\xd9\x01a", b"\xda\x00\x01a", b"\xdb\x00\x00\x00\x01a", b"\xd9\x00", b"\xda\x00\x00", b"\xdb\x00\x00\x00\x00",
        b"\xd9\x02\xc3\xa9", b"\xd9\x01\xc3", b"\xa2\xc0\x80", b"\xa3\xed\xa0\x80", b"\xa4\xf4\x90\x80\x80", b"\xa4\xf0\x9f\x98\x80",
        b"\xc4\x01a", b"\xc5\x00\x01a", b"\xc6\x00\x00\x00\x01a", b"\xc4\x00", b"\xc4\x02a",
        b"\x91\x01", b"\xdc\x00\x01\x01", b"\xdd\x00\x00\x00\x01\x01", b"\xdc\x00\x00", b"\xdd\x00\x00\x00\x00", b"\xdc\x00\x02\x01",
        b"\x81\xa1k\x01", b"\xde\x00\x01\xa1k\x01", b"\xdf\x00\x00\x00\x01\xa1k\x01", b"\xde\x00\x00", b"\x81\x01\x01", b"\x81\xc0\x01",
        b"\x81\xc4\x01k\x01", b"\x82\xa1k\x01\xa1k\x02", b"\x81\xd9\x01k\x01", b"\x81\xda\x00\x01k\x01", b"\x81\xdb\x00\x00\x00\x01k\x01",
        b"\xca" + I(">f", 1.5), b"\xca\x7f\xc0\x00\x00", b"\xca\x00\x00\x00\x01", b"\xcb" + I(">d", -0.0), b"\xca\x00\x00", b"\xcb\x00",
        b"\xc0", b"\xc1", b"\xc2", b"\xc3",
        b"\xd4\x01\x00", b"\xd5\x01\x00\x00", b"\xd6\x01" + b"\0" * 4, b"\xd7\x01" + b"\0" * 8, b"\xd8\x01" + b"\0" * 16,
        b"\xc7\x01\x01\x00", b"\xc8\x00\x01\x01\x00", b"\xc9\x00\x00\x00\x01\x01\x00", b"\xd6\xff\x00\x00\x00\x00", b"\xd7\xff" + b"\0" * 8,
        b"\xc7\x0c\xff" + b"\0" * 12,
        b"\x92\xac__datetime__\x01", b"\x92\xd9\x0c__datetime__\x01", b"\x92\xac__datetime__\xca\x3f\xc0\x00\x00", b"\x92\xac__datetime__\xc3",
        b"\x92\xac__datetime__\xc0", b"\xdc\x00\x02\xac__datetime__\x01", b"\x92\xc4\x0c__datetime__\x01", b"\x93\xac__datetime__\x01\x02",
    ]
    for f in forms:
        yield {"kind": "bytes", "width": 1, "data": framed(b"\x91" + f), "from": "family"}
        yield {"kind": "bytes", "width": 1, "data": framed(f), "from": "family-bare"}
        yield {"kind": "bytes", "width": 2, "data": framed(b"\x92" + f + b"\xc0"), "from": "family"}
        if len(f) > 1:
            yield {"kind": "bytes", "width": 1, "data": framed(b"\x91" + f[:-1]), "from": "family-truncated"}
        yield {"kind": "bytes", "width": 1, "data": framed(b"\x91" + f + b"\x00"), "from": "family-trailing"}


def unguarded_cases():
    """The smallest emitted-shape records with one unguarded bit set (low nibble of byte 0, each bit of the flags
    byte, bits of the clock): the property is silent about them, the model accepts them as the same row."""
    for payload in (b"\x90", b"\x91\xc0"):
        for j in range(4):
            yield {"kind": "bytes", "width": len(payload) - 1, "data": framed(payload, b0=0x10 | (1 << j)), "from": "unguarded-low-nibble"}
        for j in range(8):
            yield {"kind": "bytes", "width": len(payload) - 1, "data": framed(payload, b1=1 << j), "from": "unguarded-flags-byte"}
        yield {"kind": "bytes", "width": len(payload) - 1, "data": framed(payload, b1=0xFF), "from": "unguarded-flags-byte"}
        yield {"kind": "bytes", "width": len(payload) - 1, "data": framed(payload, ts=b"\xff" * 8), "from": "unguarded-clock"}


def float32_cases():
    """The float32 family (never emitted for Python floats, accepted by the decoder): boundary bit patterns."""
    pats = [0, 0x80000000, 1, 0x007FFFFF, 0x00800000, 0x3F800000, 0xBFC00000, 0x7F7FFFFF, 0x7F800000, 0xFF800000,
            0x7FC00000, 0x00000002, 0x00400000, 0x34000000, 0x7F800001, 0xFFC12345]
    for p in pats:
        payload = b"\x91\xca" + struct.pack(">I", p)
        yield {"kind": "bytes", "width": 1, "data": b"\x10\x00" + struct.pack(">I", len(payload)) + b"\0" * 8 + payload}


def reserved_cases(rng):
    out = []
    for x in (0, 1, 86400, 1700000000, 1.5, 1700000000.25, -1, True, False):
        out.append({"kind": "reserved", "row": [["__datetime__", x]]})
        out.append({"kind": "reserved", "row": [1, ["__datetime__", x], "a"]})
    for x in ("a", None, [1], b"x", {}, ["__datetime__", 1]):
        out.append({"kind": "reserved", "row": [["__datetime__", x]]})
    out.append({"kind": "reserved", "row": [["__datetime__", 5]], "tuples": True})
    # the range of datetime.fromtimestamp (model: RowCodec.tsMin / tsEnd, measured for a process in UTC): exactly at,
    # one before / after each bound, as int and as float; non-finite floats; the 64-bit limits
    import math
    import time

    if time.timezone == 0 and not time.daylight:
        lo, end = -62135510400, 253402300800
        for x in (lo, lo - 1, lo + 1, end - 1, end, end + 1, -62135596800, 2**63 - 1, 2**63, 2**64 - 1, -(2**63), 10**12, -(10**12),
                  float(lo), math.nextafter(float(lo), -math.inf), math.nextafter(float(lo), math.inf), float(end),
                  math.nextafter(float(end), -math.inf), math.nextafter(float(end), math.inf), float("nan"), float("inf"), float("-inf"),
                  1e18, -1e18, 1e300, -1e300, -0.0, 5e-324, -5e-324, 0.9999995, 253402300799.5):
            out.append({"kind": "reserved", "row": [["__datetime__", x]], "why": "fromtimestamp-range"})
    else:
        out.append({"kind": "reserved", "row": [["__datetime__", 0]], "why": "fromtimestamp-range-skipped-not-utc"})
    return out


def refuse_cases():
    return [
        {"kind": "refuse", "why": "int>=2^64", "row": [2**64]},
        {"kind": "refuse", "why": "int<-2^63", "row": [-(2**63) - 1]},
        {"kind": "refuse", "why": "int>=2^64", "row": [[1, {"a": 10**30}]]},
    ]


def glue_cases():
    out = [{"kind": "glue", "what": w} for w in GLUE]
    out.append({"kind": "glue", "what": "decimal", "before": [1, "a"], "after": [None]})
    out.append({"kind": "glue", "what": "ndarray:object", "before": [[]], "after": [{"k": 1}]})
    return out


def cap_cases(ctx):
    big = [{"kind": "big", "n": MAX + 1, "via": "append"}, {"kind": "big", "n": MAX, "via": "append"}, {"kind": "big", "n": MAX - 1, "via": "append"},
           {"kind": "big", "n": MAX - 13, "shape": "str"},
           {"kind": "big", "n": MAX - 14}, {"kind": "big", "n": 70000}, {"kind": "big", "n": 70000, "cut": 3},
           {"kind": "big", "n": 70000, "ext": 2}, {"kind": "big", "n": 65536 + 14}, {"kind": "big", "n": 65536 - 14, "shape": "str"},
           {"kind": "big", "n": 8 * 1024 * 1024}]  # 0x800000: the third length byte crosses 0x7f/0x80
    if ctx.tier == "thorough":
        big += [{"kind": "big", "n": MAX + 1000}, {"kind": "big", "n": MAX, "cut": 1}, {"kind": "big", "n": MAX, "ext": 1},
                {"kind": "big", "n": MAX, "shape": "str"}, {"kind": "big", "n": MAX - 1}, {"kind": "big", "n": MAX - 15},
                {"kind": "big", "n": 8 * 1024 * 1024 + 1}, {"kind": "big", "n": 8 * 1024 * 1024 + 1, "cut": 5},
                {"kind": "big", "n": 8 * 1024 * 1024 - 14}, {"kind": "big", "n": 8 * 1024 * 1024}, {"kind": "big", "n": MAX, "cut": MAX // 2},
                {"kind": "big", "n": 2**24 - 1, "shape": "str"}, {"kind": "big", "n": 2**16}, {"kind": "big", "n": 2**16 - 1}]
    return big


def run(ctx):
    ctx.note("rule", "one case = one row (encoded, decoded by the loaded binary and by compiled.pyx's source-level shadow, and decoded again under "
             "every strict prefix up to 4 KiB records / sampled beyond, 4 extensions, the 36 single-bit flips and 15 other values of the version "
             "nibble, up to 15 other length fields, 13 unguarded bit flips), or one sequence of rows serialised in one process, or one arbitrary "
             "buffer, or one complete line-level schedule of two real as_bytes/from_bytes calls in two threads; non-trivial = non-empty row that was emitted, a sequence of at least two rows, or a buffer of at least header size; distinct "
             "by canonical JSON")
    ctx.note("assumptions", [
        "ormsgpack is external: its format choices, its pack depth limit (255 containers) and unpack recursion limit (1023 levels) are parameters of the model, validated byte-for-byte / at the boundary by correspondence",
        "time.time_ns() is a parameter (< 2^64); bytes 6..13 are read back from the record and fed to the model",
        "text is valid Unicode (no lone surrogates: packb raises on them)",
        "decoded maps with repeated keys (never emitted) are compared after applying Python's dict semantics to the model's association list",
        "the stream reader (split) is the model's and the harness's: orso ships no reader for concatenated records; what is checked on the implementation is that its records, concatenated, are cut back into exactly those records by their length fields",
    ])
    f, why = shadow()
    ctx.note("source_shadow", "compiled.pyx:from_bytes_cython executed by harness/pyxshadow.py as a second decoder" if f is not None
             else "unavailable (%s): the loaded binary is the only decoder under test" % why)
    rng = ctx.rng
    batch = list(exhaustive_cases())
    n_ex = len(batch)
    evaluate(ctx, batch)
    ctx.exhaustive = False
    ctx.note("exhaustive_scope", "all rows of width 0, 1 over %d boundary values and all rows of width 2 over 15 values (%d rows); "
             "for each, every tear point, the 36 guarded bit flips, every other version nibble, 4 extensions" % (len(SCALARS) + len(small_containers()), n_ex))
    look = list(lookalike_cases())
    hm, hnote = harvested_markers()
    ctx.note("tag_lookalikes", "%d rows over %d look-alike values; marker literals `__word__` found in the source text of orso/row.py and "
             "compiled.pyx on this run: %s%s; only ['__datetime__', x] is excluded" % (len(look), len(lookalike_values()), json.dumps(hm), " (%s)" % hnote if hnote else ""))
    evaluate(ctx, look)
    opq = list(opaque_text_cases())
    ctx.note("opaque_text", "%d rows over %d texts that are not fixed points of NFC/NFD/NFKC/NFKD, case mapping, stripping, newline translation or the "
             "removal of BOM / zero-width / control / NUL characters (top level, nested, as map keys, %d groups of texts such a rewrite would merge); "
             "texts are compared by code points (str ==), the harness and the model never normalise" % (len(opq), len(set(OPAQUE_TEXTS)), len(OPAQUE_GROUPS)))
    evaluate(ctx, opq)
    evaluate(ctx, list(unguarded_cases()) + list(float32_cases()) + list(family_cases()) + reserved_cases(rng) + refuse_cases() + glue_cases())
    evaluate(ctx, seq_cases(rng, ctx.scale(60, 1500)) + list(opaque_seq_cases()))
    evaluate(ctx, obj_cases(ctx, rng))
    evaluate(ctx, new_cases(rng) + input_cases())
    conc_phase(ctx)
    evaluate(ctx, boundary_cases(ctx))
    evaluate(ctx, shape_cases(ctx))
    n_rows = ctx.scale(450, 12000)
    n_bytes = ctx.scale(5000, 150000)
    done = 0
    pool = []
    while done < n_rows and ctx.time_left() > 8:
        k = min(150, n_rows - done)
        batch = [random_row(rng, big=(i % 5 == 0)) for i in range(k)]
        evaluate(ctx, batch)
        done += k
    _RECORD_HISTORY[0] = False
    for row, tuples in HISTORY[-400:]:
        rec, _ = impl_encode({"row": row, "tuples": tuples})
        if rec is not None and len(rec) < 300:
            pool.append(rec)
    _RECORD_HISTORY[0] = True
    done = 0
    while done < n_bytes and ctx.time_left() > 4:
        k = min(2500, n_bytes - done)
        evaluate(ctx, [random_bytes_case(rng) if (i % 3 or not pool) else mutated_payload_case(rng, pool) for i in range(k)])
        done += k
    for c in cap_cases(ctx):
        evaluate(ctx, [c])
    for k, n in sorted(_FRAME_UNAVAILABLE.items()):
        ctx.hit("object:frame-unavailable:" + k, n)
    correspondence_replay(ctx)


def correspondence_replay(ctx):
    """The runner writes the model/implementation disagreements into a replay only when the oracle found nothing.
    When it did, the disagreements of *another kind* would be lost (e.g. the decoder answering None for a buffer the
    property says nothing about, next to a tear that raises the wrong exception): keep one of each kind in a replay
    file of their own, named in the evidence (no VIOLATION line of its own: the oracle's violations are printed)."""
    if not ctx.violations or not ctx.disagreements or ctx.replaying:
        return
    def head(side):
        f = side.get("decode") if isinstance(side, dict) else None
        if isinstance(f, list) and f:
            return json.dumps(f[:1] if f[0] == "ok" else f[:2], default=repr)
        return json.dumps(side, sort_keys=True, default=repr)[:60]

    seen, keep = set(), []
    for d in ctx.disagreements:
        key = (d["what"], head(d["impl"]), head(d["model"]))
        if key not in seen and len(keep) < 12:
            seen.add(key)
            keep.append(d)
    path = ctx._write_replay({"property": ctx.prop_id, "seed": ctx.seed, "tier": ctx.tier, "kind": "correspondence-disagreement",
                              "correspondence_disagreements": keep,
                              "note": "model and implementation differ on these inputs while the property's oracle is silent about them; "
                                      "the oracle's own violations of this run are in the other replay files"})
    ctx.note("correspondence_replay", path)


def intensify(ctx):
    rng = ctx.rng
    n = 0
    if ctx.replaying:
        return  # a replay shows what is stored in it; the search belongs to the run
    while n < 4000 and ctx.time_left() > 5:
        evaluate(ctx, [random_row(rng, big=(i % 4 == 0)) for i in range(150)])
        evaluate(ctx, seq_cases(rng, 40))
        evaluate(ctx, [random_bytes_case(rng) for _ in range(2000)])
        n += 150


def replay(ctx, case):
    evaluate(ctx, [case])


KNOWN_PREDICATES = {}

if __name__ == "__main__":
    if "--fresh" in sys.argv:
        _fresh_main()
