"""C19 — Memoised functions return only results computed for the same arguments.

Three kinds of cases (all JSON):

* mode "seq":  a history of calls / clock advances on `single_item_cache` or
  `lru_cache_with_expiry` (clock patched through `orso.tools.time`), compared event by
  event with Model/Cache.lean (statement-level machine AND declarative spec) and with a
  Python mirror of the specification; oracle on the implementation's own outputs.
* mode "frames": accesses to DataFrame.column_names / columncount on several frames
  (the real shared caches); oracle: every access returns that frame's own names / count.
* mode "conc": N real threads call the real wrapper under the deterministic line-granular
  scheduler (harness/sched.py) following a stored schedule; the schedule is projected onto
  the extracted step lines and replayed on the Lean small-step model; outcomes, executed
  step kinds and the invocation log are compared; oracle: every returned value was
  produced by the wrapped function for the caller's own arguments.
"""
import gc
import itertools
import json
import os

from .. import core, sched, wire
from ..core import InfraError, shrink

T0 = 1000
VALID = 10


# --------------------------------------------------------------------------- implementation side


class _Clock:
    now = T0

    def time(self):
        return float(self.now)

    def __getattr__(self, name):  # anything else orso.tools wants from `time`
        import time as _t

        return getattr(_t, name)


CLOCK = _Clock()


class Res:
    """What the wrapped function returns: a fresh object per invocation."""

    __slots__ = ("id", "key", "fn")

    def __init__(self, i, key, fn=0):
        self.id = i
        self.key = key
        self.fn = fn


class FalsyRes(Res):
    """A fresh object per invocation that is FALSE in a boolean context and has length 0 (like an empty list / frame):
    a wrapper that tests the cached result with `if result:` / `or` / `len()` instead of asking whether an entry is held
    treats a held entry as a miss."""

    __slots__ = ()

    def __bool__(self):
        return False

    def __len__(self):
        return 0


# results that carry no identity: None and the falsy constants.  `kind_of` recognises exactly these objects.
CONST_RESULTS = {"none": None, "zero": 0, "empty": "", "false": False, "etuple": ()}
RESULT_KINDS = ("obj", "falsy") + tuple(CONST_RESULTS)


def kind_of(r):
    for k, v in CONST_RESULTS.items():
        if type(r) is type(v) and r == v:
            return k
    return None


class Obj:
    """An argument object in the style of orso's DataFrame: equality is identity (no __eq__), the hash is chosen by the
    case - so two different objects may have EQUAL hashes (DataFrame.__hash__ is computed from the rows only)."""

    __slots__ = ("i", "h")

    def __init__(self, i, h):
        self.i, self.h = i, h

    def __hash__(self):
        return self.h

    def __repr__(self):
        return "Obj(%d)" % self.i


class EqV:
    """An argument object with VALUE equality: a fresh object per call, == to every other EqV with the same payload."""

    __slots__ = ("v",)

    def __init__(self, v):
        self.v = v

    def __eq__(self, other):
        return type(other) is EqV and other.v == self.v

    def __hash__(self):
        return hash(("EqV", self.v))

    def __repr__(self):
        return "EqV(%r)" % (self.v,)


class Inst:
    """base of the classes whose METHODS are decorated in mode "apply": `self` is compared by identity"""

    idx = None


OBJ_POOL = {}


def pyval(v):
    """JSON form of an argument value -> a FRESH Python value ({"t": [...]} is a tuple, a list is a list,
    {"obj": i, "hash": h} the case's persistent identity-compared object number i, {"eqv": x} a fresh value-compared object)."""
    if isinstance(v, dict) and list(v) == ["t"]:
        return tuple(pyval(x) for x in v["t"])
    if isinstance(v, dict) and "obj" in v:
        o = OBJ_POOL.get((v["obj"], v.get("hash", 0)))
        if o is None:
            o = OBJ_POOL[(v["obj"], v.get("hash", 0))] = Obj(v["obj"], v.get("hash", 0))
        return o
    if isinstance(v, dict) and list(v) == ["eqv"]:
        return EqV(v["eqv"])
    if isinstance(v, dict) and list(v) == ["fs"]:
        return frozenset(pyval(x) for x in v["fs"])
    if isinstance(v, list):
        return [pyval(x) for x in v]
    if isinstance(v, int) and not isinstance(v, bool) and abs(v) > 256:
        return int(str(v))  # equal but not identical to any earlier occurrence
    return v


def norm(v):
    """Python value -> canonical form in which Python-EQUAL values coincide (True == 1 == 1.0) and tuples differ from lists."""
    if isinstance(v, bool):
        return int(v)
    if isinstance(v, float) and v == v and v not in (float("inf"), float("-inf")) and v == int(v):
        return int(v)
    if isinstance(v, tuple):
        return {"t": [norm(x) for x in v]}
    if isinstance(v, list):
        return [norm(x) for x in v]
    if isinstance(v, frozenset):
        return {"fs": sorted((norm(x) for x in v), key=lambda x: json.dumps(x, sort_keys=True))}
    if isinstance(v, Obj):
        return {"obj": v.i}
    if isinstance(v, EqV):
        return {"eqv": v.v}
    if isinstance(v, Inst):
        return {"inst": v.idx}
    return v


def canon_key(args, kwargs_pairs):
    """Key of a call as the property sees it: equal positional and keyword arguments (Python equality, keyword order irrelevant)."""
    return [[norm(a) for a in args], sorted(([k, norm(v)] for k, v in kwargs_pairs), key=lambda p: p[0])]


def op_key(op):
    return canon_key([pyval(a) for a in op[1]], [(k, pyval(v)) for k, v in op[2]])


class Patched:
    def __enter__(self):
        import orso.tools as T

        self.T = T
        self.old = T.time
        T.time = CLOCK
        return T

    def __exit__(self, *a):
        self.T.time = self.old


class Boom(Exception):
    """what the wrapped function raises for the keys in case["raises"]"""


def make_function(case, log, fn=0):
    """The wrapped function: logs (key, time), advances the clock by the key's cost, returns what `rets` says for the key
    (default: a fresh truthy object per invocation)."""
    costs = {json.dumps(k): d for k, d in case.get("costs", [])}
    rets = {json.dumps(k): r for k, r in case.get("rets", [])}
    raises = {json.dumps(k) for k in case.get("raises", [])}

    def F(*args, **kwargs):
        key = canon_key(args, kwargs.items())
        kind = rets.get(json.dumps(key), case.get("ret", "obj"))
        i = len(log)
        log.append((key, CLOCK.now))
        CLOCK.now += costs.get(json.dumps(key), 0)
        if json.dumps(key) in raises:
            raise Boom("the wrapped function fails for these arguments")
        if kind == "obj":
            return Res(i, key, fn)
        if kind == "falsy":
            return FalsyRes(i, key, fn)
        return CONST_RESULTS[kind]

    F.__name__ = "F%d" % fn
    return F


def ret_kind(case, key):
    kind = case.get("ret", "obj")
    for k, r in case.get("rets", []):
        if k == key:
            kind = r  # the last entry for a key counts, as in make_function
    return kind


def observe(w, args, kwargs):
    try:
        r = w(*args, **kwargs)
    except Exception as e:
        return ["err", type(e).__name__], None
    if isinstance(r, Res):
        return ["ok", r.id], r
    k = kind_of(r)
    if k is not None:
        return ["val", k], r
    return ["other", repr(r)[:60]], r


class Wrapped:
    def __init__(self, T, case):
        CLOCK.now = T0
        self.log = []
        F = make_function(case, self.log)
        kw = {}
        if case.get("valid") is not None:
            kw["valid_for_seconds"] = case["valid"]
        if case["cache"] == "single":
            self.w = T.single_item_cache(F, **kw)
        else:
            self.w = T.lru_cache_with_expiry(F, max_size=case["max_size"], **kw)

    def call(self, op):
        args = tuple(pyval(a) for a in op[1])
        kwargs = dict((k, pyval(v)) for k, v in op[2])
        return observe(self.w, args, kwargs)[0]


def fresh(valid, now, t):
    return valid is None or now - t <= valid


def run_seq_impl(case):
    with Patched() as T:
        w = Wrapped(T, case)
        evs = []
        for op in case["ops"]:
            if op[0] == "adv":
                CLOCK.now += op[1]
                continue
            n0, now = len(w.log), CLOCK.now
            out = w.call(op)
            evs.append({"key": op_key(op), "now": now, "out": out, "invoked": len(w.log) - n0})
        return evs, [[k, t] for k, t in w.log]


def mirror_seq(case):
    """The specification, written directly (no implementation involved): list of [ret, invoked, now]."""
    now, log, evs = T0, [], []
    costs = {json.dumps(k): d for k, d in case.get("costs", [])}
    valid, single = case.get("valid"), case["cache"] == "single"
    held = []  # [key, ret] least recently used first; single: at most the last call's
    for op in case["ops"]:
        if op[0] == "adv":
            now += op[1]
            continue
        key = op_key(op)
        held = [h for h in held if fresh(valid, now, log[h[1]][1])]
        hit = [h for h in held if h[0] == key]
        if hit:
            ret = hit[0][1]
            held = [h for h in held if h[0] != key] + [hit[0]]
            evs.append([ret, False, now])
        else:
            ret = len(log)
            log.append([key, now])
            evs.append([ret, True, now])
            held = held + [[key, ret]]
            now += costs.get(json.dumps(key), 0)
        cap = 1 if single else case["max_size"]
        if single:
            held = [[key, ret]]  # "the last call only": what the last call returned is what is held
        else:
            held = held[len(held) - cap:] if len(held) > cap else held
    return evs, log


def oracle_seq(case, evs, log):
    """The property on the implementation's own outputs. Returns clause or None.

    A result that carries no identity (None, 0, '', False, ()) is judged by value: it must be what the wrapped function
    returns for THESE arguments; which invocation it came from is then read off the specification (a miss returns its own
    invocation, a hit the held entry's)."""
    valid, single = case.get("valid"), case["cache"] == "single"
    held = []
    ninv = 0
    for e in evs:
        if e["out"][0] == "err":
            return "call raised %s" % e["out"][1]
        if e["invoked"] not in (0, 1):
            return "wrapped function invoked more than once"
        held = [h for h in held if fresh(valid, e["now"], log[h[1]][1])]
        if e["out"][0] == "val":
            want = ret_kind(case, e["key"])
            if e["out"][1] != want:
                if any(ret_kind(case, k) == e["out"][1] for k, _ in log):
                    return "result computed for different arguments"
                return "returned an object the wrapped function did not produce"
            mine = [h for h in held if h[0] == e["key"]]
            ret = ninv if e["invoked"] else (mine[0][1] if mine else None)
            if ret is None:
                return "wrapped function not invoked although no unexpired entry is held"
        elif e["out"][0] != "ok" or not (0 <= e["out"][1] < len(log)):
            return "returned an object the wrapped function did not produce"
        else:
            ret = e["out"][1]
        if log[ret][0] != e["key"]:
            return "result computed for different arguments"
        if not fresh(valid, e["now"], log[ret][1]):
            return "result older than the validity period"
        expect_hit = any(h[0] == e["key"] for h in held)
        if expect_hit and e["invoked"]:
            return "wrapped function invoked although an unexpired entry for equal arguments is held"
        if not expect_hit and not e["invoked"]:
            return "wrapped function not invoked although no unexpired entry is held"
        if e["invoked"] and ret != ninv:
            return "miss returned an old result"
        if not e["invoked"] and not any(h[0] == e["key"] and h[1] == ret for h in held):
            return "hit returned a value that is not the held entry's"
        ninv += e["invoked"]
        if single:
            held = [[e["key"], ret]]
        else:
            held = [h for h in held if h[0] != e["key"]] + [[e["key"], ret]]
            if len(held) > case["max_size"]:
                held = held[len(held) - case["max_size"]:]
    return None


def model_line_seq(case):
    ops = [["call", op_key(op)] if op[0] == "call" else ["adv", op[1]] for op in case["ops"]]
    return "C19 seq " + wire.line(case["cache"], case.get("valid"), case.get("max_size", 1), T0, case.get("costs", []), ops)


def valid_seq(c):
    try:
        if c.get("mode") != "seq" or c["cache"] not in ("single", "lru") or not c["ops"]:
            return False
        if c["cache"] == "lru" and not (isinstance(c.get("max_size"), int) and c["max_size"] >= 1):
            return False
        if c.get("ret", "obj") not in RESULT_KINDS or any(len(r) != 2 or r[1] not in RESULT_KINDS for r in c.get("rets", [])):
            return False
        for op in c["ops"]:
            if op[0] == "adv":
                if not (isinstance(op[1], int) and op[1] >= 0 and len(op) == 2):
                    return False
            elif op[0] == "call":
                if len(op) != 3 or not isinstance(op[1], list) or not isinstance(op[2], list):
                    return False
                if any(not (isinstance(p, list) and len(p) == 2 and isinstance(p[0], str) and p[0]) for p in op[2]):
                    return False
                if len({p[0] for p in op[2]}) != len(op[2]):
                    return False
            else:
                return False
        return True
    except Exception:
        return False


def _norm(clause):
    return None if clause is None else "".join(ch for ch in clause if not ch.isdigit())


def impl_events(case, evs):
    return [[e["out"][1] if e["out"][0] == "ok" else e["out"], bool(e["invoked"]), e["now"]] for e in evs]


def model_events_as_observed(case, impl, m_evs, m_log):
    """The model returns invocation indices; where the implementation's result carries no identity (a constant), the
    model's index is turned into the constant the wrapped function returns for the key of that invocation."""
    out = []
    for i, me in enumerate(m_evs):
        if i < len(impl) and isinstance(impl[i][0], list) and impl[i][0][0] == "val" and 0 <= me[0] < len(m_log):
            out.append([["val", ret_kind(case, m_log[me[0]][0])], me[1], me[2]])
        else:
            out.append(me)
    return out


def generated_vs_model(ctx, m_evs, g_evs):
    """The driver also runs the wrapper bodies as GENERATED from the working tree (Gen.CacheFns).  They are proved equal
    to the hand-written machines (C19.generated_*_eq_model); when the source changed that theorem no longer checks and the
    two may differ - recorded in the input distribution, decided by the oracle and the proof audit, never an error here."""
    same = [[e[0], e[2]] for e in m_evs] == g_evs
    ctx.hit("seq:generated-wrapper-" + ("agrees-with-model" if same else "DIFFERS-from-model"))


def evaluate_seq(ctx, cases):
    mouts = ctx.model.batch([model_line_seq(c) for c in cases])
    for c, mo in zip(cases, mouts):
        if not mo.startswith("ok "):
            raise InfraError("model rejected case %r: %r" % (c, mo))
        m_evs, m_log, s_evs, g_evs = wire.dec_all(mo[3:])
        mir_evs, mir_log = mirror_seq(c)
        if m_evs != mir_evs or m_log != mir_log or s_evs != mir_evs:
            raise InfraError("Lean model and the Python mirror of the specification differ on %r: %r / %r / %r" % (c, m_evs, s_evs, mir_evs))
        generated_vs_model(ctx, m_evs, g_evs)
        evs, log = run_seq_impl(c)
        ncalls = sum(1 for op in c["ops"] if op[0] == "call")
        ctx.case(c, ncalls >= 2)
        ctx.hit("seq:" + c["cache"])
        ctx.hit("seq:len:%d" % min(len(c["ops"]), 9))
        ctx.hit("seq:results:" + (c.get("ret", "obj") if not c.get("rets") else "mixed"))
        for e in evs:
            ctx.hit("seq:" + ("miss" if e["invoked"] else "hit"))
        clause = oracle_seq(c, evs, log)
        impl = impl_events(c, evs)
        if clause is not None:
            def still(c2):
                if not valid_seq(c2):
                    return False
                e2, l2 = run_seq_impl(c2)
                return _norm(oracle_seq(c2, e2, l2)) == _norm(clause)

            c_min = shrink(c, still) if not ctx.replaying else c
            e2, l2 = run_seq_impl(c_min)
            ctx.fail(c_min, oracle_seq(c_min, e2, l2) or clause, impl={"events": e2, "log": l2}, model=m_evs if c_min is c else None)
        elif impl != model_events_as_observed(c, impl, m_evs, m_log) or log != m_log:
            ctx.disagree(c, {"events": impl, "log": log}, {"events": m_evs, "log": m_log})


# --------------------------------------------------------------------------- mode "raise": wrapped functions that fail
#
# A call whose wrapped function raises produces no value: the exception propagates, nothing is stored, and - this is what
# the mode is about - nothing that was held is lost: the entries for the max_size most recently used keys THAT HAVE A VALUE
# are still served afterwards.  Judged against the specification mirror extended by "a failing call = sweep + invocation";
# the Lean machines have no exceptions, so this mode is oracle + mirror only.

def mirror_raise(case):
    now, log, evs = T0, [], []
    costs = {json.dumps(k): d for k, d in case.get("costs", [])}
    raises = {json.dumps(k) for k in case.get("raises", [])}
    valid, single = case.get("valid"), case["cache"] == "single"
    held = []
    for op in case["ops"]:
        if op[0] == "adv":
            now += op[1]
            continue
        key = op_key(op)
        held = [h for h in held if fresh(valid, now, log[h[1]][1])]
        hit = [h for h in held if h[0] == key]
        if hit:
            held = [h for h in held if h[0] != key] + [hit[0]]
            evs.append([hit[0][1], False, now])
            if single:
                held = [hit[0]]
            continue
        ret = len(log)
        log.append([key, now])
        t_call = now
        now += costs.get(json.dumps(key), 0)
        if json.dumps(key) in raises:
            evs.append([["err", "Boom"], True, t_call])
            continue  # nothing stored, nothing evicted
        evs.append([ret, True, t_call])
        held = [[key, ret]] if single else (held + [[key, ret]])[-case["max_size"]:]
    return evs, log


def valid_raise(c):
    try:
        return c.get("mode") == "raise" and valid_seq(dict(c, mode="seq")) and isinstance(c.get("raises"), list)
    except Exception:
        return False


def judge_raise(case):
    evs, log = run_seq_impl(case)
    mir, mlog = mirror_raise(case)
    raises = {json.dumps(k) for k in case.get("raises", [])}
    for e, m in zip(evs, mir):
        failing = json.dumps(e["key"]) in raises
        if e["out"][0] == "err":
            if not (failing and e["out"][1] == "Boom" and m[1]):
                return "call raised %s" % e["out"][1], evs
            continue
        if failing:
            return "returned a value although the wrapped function failed for these arguments", evs
        if e["invoked"] and not m[1]:
            return "wrapped function invoked although an unexpired entry for equal arguments is held", evs
        if not e["invoked"] and m[1]:
            return "wrapped function not invoked although no unexpired entry is held", evs
        if e["out"][0] == "ok" and e["out"][1] != m[0]:
            return ("result computed for different arguments" if 0 <= e["out"][1] < len(log) and log[e["out"][1]][0] != e["key"]
                    else "hit returned a value that is not the held entry's"), evs
    return None, evs


def evaluate_raise(ctx, cases):
    for c in cases:
        clause, evs = judge_raise(c)
        ctx.case(c, sum(1 for op in c["ops"] if op[0] == "call") >= 2)
        ctx.hit("raise:" + c["cache"])
        ctx.hit("raise:failing-calls:%d" % min(3, sum(1 for e in evs if e["out"][0] == "err")))
        if clause is not None:
            def still(c2):
                return valid_raise(c2) and _norm(judge_raise(c2)[0]) == _norm(clause)

            c_min = shrink(c, still) if not ctx.replaying else c
            cl2, e2 = judge_raise(c_min)
            ctx.fail(c_min, cl2 or clause, impl={"events": e2}, model=mirror_raise(c_min)[0])


def exhaustive_raise(length):
    x, y, z = P("x"), P("y"), P("z")
    alpha = [x, y, z, ["adv", VALID + 1]]
    for cache, sizes in (("single", (1,)), ("lru", (1, 2))):
        for m in sizes:
            for hist in itertools.product(alpha, repeat=length):
                if not any(op == z for op in hist):
                    continue
                c = {"mode": "raise", "cache": cache, "valid": VALID, "ops": [list(op) for op in hist], "raises": [op_key(z)]}
                if cache == "lru":
                    c["max_size"] = m
                yield c


# --------------------------------------------------------------------------- the ways a decorator is applied
#
# mode "apply": several wrappers made from one decorator in the ways Python allows -
#   direct   w_j = D(F_j, **cfg)                      bare     w_j = D(F_j)  (defaults: no expiry, max_size 5)
#   factory  w_j = D(**cfg)(F_j), one D(**cfg) each   shared   d = D(**cfg); w_j = d(F_j)  (ONE configured decorator)
#   twice    d = D(**cfg); w_0 = d(F_0); w_1 = d(F_0) (the same function wrapped twice)
#   method   class C: m_j = d(F_j) - called through instances, so `self` is the first positional argument
# Every wrapper is one cache: its calls (with all clock advances) are judged by the sequential oracle against the
# invocations made on its behalf, and compared with the Lean machine run on that wrapper's own history.

STYLES = ("direct", "bare", "factory", "shared", "twice", "method")
DEFAULT_MAX_SIZE = 5  # tools.py: `max_size: int = 5` (read from the signature at run time, see apply_defaults)


def apply_defaults(T):
    import inspect

    sig = inspect.signature(T.lru_cache_with_expiry)
    m = sig.parameters.get("max_size")
    return m.default if m is not None and isinstance(m.default, int) else DEFAULT_MAX_SIZE


class Applied:
    def __init__(self, T, case):
        CLOCK.now = T0
        D = T.single_item_cache if case["cache"] == "single" else T.lru_cache_with_expiry
        style, n = case["style"], case.get("nfun", 2)
        cfg = {}
        if style != "bare":
            if case.get("valid") is not None:
                cfg["valid_for_seconds"] = case["valid"]
            if case["cache"] == "lru":
                cfg["max_size"] = case["max_size"]
        self.flog = [[] for _ in range(n)]          # per function: (key, time)
        self.fns = [make_function(case, self.flog[j], fn=j) for j in range(n)]
        self.fn_of = list(range(n))
        if style == "direct":
            self.ws = [D(f, **cfg) for f in self.fns]
        elif style == "bare":
            self.ws = [D(f) for f in self.fns]
        elif style == "factory":
            self.ws = [D(**cfg)(f) for f in self.fns]
        elif style == "shared":
            d = D(**cfg)
            self.ws = [d(f) for f in self.fns]
        elif style == "twice":
            d = D(**cfg)
            self.ws = [d(self.fns[0]) for _ in range(n)]
            self.fn_of = [0] * n
        elif style == "method":
            d = D(**cfg)
            ns = {"m%d" % j: d(f) for j, f in enumerate(self.fns)}
            cls = type("C", (Inst,), ns)
            self.insts = [cls(), cls()]
            self.insts[0].idx, self.insts[1].idx = 0, 1
            self.ws = [getattr(cls, "m%d" % j) for j in range(n)]
        else:
            raise InfraError("unknown style %r" % (style,))
        self.style = style
        self.own = [[] for _ in self.ws]             # per wrapper: (fn, index in that function's log) of the invocations made for it


def apply_config(case, T=None):
    """(valid, max_size) the wrappers of the case are configured with"""
    if case["style"] == "bare":
        return None, (apply_defaults(T) if T is not None else DEFAULT_MAX_SIZE)
    return case.get("valid"), case.get("max_size", 1)


def run_apply_impl(case):
    """per wrapper: (projected sequential case, events, own log); plus the first cross-wrapper clause seen"""
    with Patched() as T:
        a = Applied(T, case)
        valid, max_size = apply_config(case, T)
        nw = len(a.ws)
        evs = [[] for _ in range(nw)]
        hist = [[] for _ in range(nw)]
        cross = None
        for op in case["ops"]:
            if op[0] == "adv":
                CLOCK.now += op[1]
                for h in hist:
                    h.append(["adv", op[1]])
                continue
            j = op[1] % nw
            args = [pyval(x) for x in op[2]]
            kwargs = dict((k, pyval(v)) for k, v in op[3])
            if a.style == "method":
                inst = op[4] if len(op) > 4 else 0
                recv = a.insts[inst % 2]
                call = lambda: observe(getattr(recv, "m%d" % j), tuple(args), kwargs)  # noqa: E731
                key = canon_key([{"inst": inst % 2}] + [norm(x) for x in args], list(kwargs.items()))
                hist[j].append(["call", [{"inst": inst % 2}] + op[2], op[3]])
            else:
                call = lambda: observe(a.ws[j], tuple(args), kwargs)  # noqa: E731
                key = canon_key(args, list(kwargs.items()))
                hist[j].append(["call", op[2], op[3]])
            before = [len(l) for l in a.flog]
            now = CLOCK.now
            out, r = call()
            made = [(f, i) for f in range(len(a.flog)) for i in range(before[f], len(a.flog[f]))]
            a.own[j].extend(made)
            if out[0] == "ok":
                # translate the result's identity (function, index in its log) into the index in THIS wrapper's own log
                ident = (r.fn, r.id)
                if r.fn != a.fn_of[j]:
                    cross = cross or "returned a value produced by a different wrapped function"
                    out = ["foreign", list(ident)]
                elif ident in a.own[j]:
                    out = ["ok", a.own[j].index(ident)]
                else:
                    cross = cross or "returned a value held by another wrapper's cache"
                    out = ["foreign", list(ident)]
            if any(f != a.fn_of[j] for f, _ in made):
                cross = cross or "a different wrapped function was invoked"
            evs[j].append({"key": key, "now": now, "out": out, "invoked": len(made)})
        res = []
        for j in range(nw):
            own_log = [[a.flog[f][i][0], a.flog[f][i][1]] for f, i in a.own[j]]
            sub = {"mode": "seq", "cache": case["cache"], "valid": valid, "max_size": max_size, "ops": hist[j]}
            for k in ("ret", "rets"):
                if k in case:
                    sub[k] = case[k]
            while sub["ops"] and sub["ops"][-1][0] == "adv":
                sub["ops"] = sub["ops"][:-1]
            res.append((sub, evs[j], own_log))
        return res, cross


def oracle_apply(case, res, cross):
    if cross is not None:
        return cross
    for sub, evs, log in res:
        if not evs:
            continue
        if any(e["out"][0] == "foreign" for e in evs):
            return "returned a value held by another wrapper's cache"
        c = oracle_seq(sub, evs, log)
        if c is not None:
            return c
    return None


def valid_apply(c):
    try:
        if c.get("mode") != "apply" or c["cache"] not in ("single", "lru") or c["style"] not in STYLES or not c["ops"]:
            return False
        if c["cache"] == "lru" and c["style"] != "bare" and not (isinstance(c.get("max_size"), int) and c["max_size"] >= 1):
            return False
        if c.get("ret", "obj") not in RESULT_KINDS or c.get("nfun", 2) not in (1, 2, 3):
            return False
        for op in c["ops"]:
            if op[0] == "adv":
                if not (isinstance(op[1], int) and op[1] >= 0 and len(op) == 2):
                    return False
            elif op[0] == "call":
                if len(op) not in (4, 5) or not isinstance(op[1], int) or op[1] < 0 or not isinstance(op[2], list) or not isinstance(op[3], list):
                    return False
                if any(not (isinstance(q, list) and len(q) == 2 and isinstance(q[0], str) and q[0]) for q in op[3]):
                    return False
                if len({q[0] for q in op[3]}) != len(op[3]) or (len(op) == 5 and op[4] not in (0, 1)):
                    return False
            else:
                return False
        return True
    except Exception:
        return False


def evaluate_apply(ctx, cases):
    runs = []
    lines = []
    for c in cases:
        res, cross = run_apply_impl(c)
        runs.append((res, cross))
        for sub, evs, _ in res:
            if evs:
                lines.append(model_line_seq(sub))
    mouts = iter(ctx.model.batch(lines))
    for c, (res, cross) in zip(cases, runs):
        ncalls = sum(1 for op in c["ops"] if op[0] == "call")
        ctx.case(c, ncalls >= 2 and len({op[1] for op in c["ops"] if op[0] == "call"}) >= 2)
        ctx.hit("apply:%s:%s" % (c["cache"], c["style"]))
        clause = oracle_apply(c, res, cross)
        differ = None
        for sub, evs, log in res:
            if not evs:
                continue
            mo = next(mouts)
            if not mo.startswith("ok "):
                raise InfraError("model rejected case %r: %r" % (sub, mo))
            m_evs, m_log, s_evs, g_evs = wire.dec_all(mo[3:])
            mir_evs, mir_log = mirror_seq(sub)
            if m_evs != mir_evs or m_log != mir_log or s_evs != mir_evs:
                raise InfraError("Lean model and the Python mirror of the specification differ on %r" % (sub,))
            generated_vs_model(ctx, m_evs, g_evs)
            impl = impl_events(sub, evs)
            if differ is None and (impl != model_events_as_observed(sub, impl, m_evs, m_log) or log != m_log):
                differ = ({"events": impl, "log": log}, {"events": m_evs, "log": m_log})
        if clause is not None:
            def still(c2):
                if not valid_apply(c2):
                    return False
                r2, x2 = run_apply_impl(c2)
                return _norm(oracle_apply(c2, r2, x2)) == _norm(clause)

            c_min = shrink(c, still) if not ctx.replaying else c
            r2, x2 = run_apply_impl(c_min)
            ctx.fail(c_min, oracle_apply(c_min, r2, x2) or clause,
                     impl=[{"wrapper": j, "events": e, "invocations_made_for_it": l} for j, (_, e, l) in enumerate(r2)])
        elif differ is not None:
            ctx.disagree(c, differ[0], differ[1], what="one wrapper's own history differs from the model run on that history")


# --------------------------------------------------------------------------- DataFrame.column_names

SCHEMAS = [["a", "b"], ["c"], ["a", "b"], ["x", "y", "z"]]

# Frame specifications for mode "frames".  An int is an index into SCHEMAS (no rows; the original cases).  A dict is
#   {"kind": "list" | "tuple" | "relation" | "dicts", "labels": [...], "rows": [[...], ...]}
# with labels in JSON: str / int / float / bool, {"dec": "1.00"} a Decimal.  `schema=` labels need not be strings:
# column_names renders them with str(), so labels that are == but render differently (1 / 1.0 / True / Decimal('1.00'),
# 0 / -0.0 / False) belong to DIFFERENT frames with different names; frames with EQUAL ROWS have equal hashes
# (DataFrame.__hash__ is computed from the rows only) and different names.
def _L(kind, labels, rows=()):
    return {"kind": kind, "labels": list(labels), "rows": [list(r) for r in rows]}


SPEC_FAMILIES = {
    # == but not str-equal labels, as lists and as tuples (list == list and tuple == tuple, never list == tuple)
    "eq_one": [_L("list", [1, 2], [[10, 20]]), _L("list", [1.0, 2.0], [[10, 20]]), _L("list", [True, 2], [[10, 20]]),
               _L("list", [{"dec": "1.00"}, 2], [[10, 20]])],
    "eq_zero": [_L("list", [0, 5], [[1, 2]]), _L("list", [-0.0, 5], [[1, 2]]), _L("list", [False, 5], [[1, 2]]),
                _L("tuple", [0, 5], [[1, 2]])],
    "eq_tuple": [_L("tuple", [1, 2]), _L("tuple", [1.0, 2.0]), _L("tuple", [True, 2.0]), _L("list", [1, 2])],
    # equal rows (equal hashes), different names
    "same_rows": [_L("list", ["id", "name"], [[1, "x"], [2, "y"]]), _L("list", ["key", "value"], [[1, "x"], [2, "y"]]),
                  _L("tuple", ["id", "name"], [[1, "x"], [2, "y"]]), _L("list", ["name", "id"], [[1, "x"], [2, "y"]])],
    "no_rows": [_L("list", ["p", "q", "r"]), _L("list", ["s", "t", "u"]), _L("list", ["p"]), _L("tuple", ["p", "q", "r"])],
    "dicts": [_L("dicts", ["id", "height_m"], [[1, 2], [3, 4]]), _L("dicts", ["key", "height_ft"], [[1, 2], [3, 4]]),
              _L("dicts", ["height_m", "id"], [[1, 2], [3, 4]]), _L("dicts", ["a"], [[None]])],
    "relation": [_L("relation", ["a", "b"], [[1, 2]]), _L("relation", ["b", "a"], [[1, 2]]), _L("relation", ["a"], [[1]]),
                 _L("list", ["a", "b"], [[1, 2]])],
    "equal_labels": [_L("list", ["a", "b"], [[1, 2]]), _L("list", ["a", "b"], [[3, 4]]), _L("list", ["a", "b"]), _L("tuple", ["a", "b"], [[1, 2]])],
}
READS = ("names", "count", "shape", "str")


def _label(v):
    if isinstance(v, dict) and list(v) == ["dec"]:
        import decimal

        return decimal.Decimal(v["dec"])
    return v


def build_frame(spec):
    from orso import DataFrame

    if isinstance(spec, int):
        return DataFrame(rows=[], schema=list(SCHEMAS[spec % len(SCHEMAS)]))
    labels = [_label(v) for v in spec["labels"]]
    rows = [tuple(r) for r in spec.get("rows", [])]
    kind = spec["kind"]
    if kind == "dicts":
        return DataFrame([dict(zip(labels, r)) for r in rows])
    if kind == "relation":
        from orso.schema import FlatColumn, RelationSchema
        from orso.types import OrsoTypes

        sch = RelationSchema(name="t", columns=[FlatColumn(name=str(l), type=OrsoTypes.INTEGER) for l in labels])
        return DataFrame(rows=rows, schema=sch)
    return DataFrame(rows=rows, schema=list(labels) if kind == "list" else tuple(labels))


def expected_names(spec):
    """what the property promises: the frame's OWN column names - its labels rendered with str()"""
    if isinstance(spec, int):
        return [str(x) for x in SCHEMAS[spec % len(SCHEMAS)]]
    return [str(_label(v)) for v in spec["labels"]]


def _strict(v):
    """a value up to type and rendering (1 / 1.0 / True differ)"""
    if isinstance(v, (tuple, list)):
        return [type(v).__name__] + [_strict(x) for x in v]
    return [type(v).__name__, repr(v)]


def cached_use_sites(T):
    """Every function in the orso package that is a wrapper made by one of the two cache decorators (recognised by its
    code object, however the decorator was spelled): (description, owner, attribute, how it is bound, wrapper)."""
    import importlib
    import pkgutil

    import orso

    codes = set(wrapper_codes(T).values())
    mods = [orso]
    for m in pkgutil.walk_packages(orso.__path__, "orso."):
        if ".tests" in m.name or m.name.endswith(".compiled"):
            continue
        try:
            mods.append(importlib.import_module(m.name))
        except Exception:
            continue
    sites, seen = [], set()

    def is_wrapper(f):
        return callable(f) and getattr(f, "__code__", None) in codes

    for mod in mods:
        for name, obj in list(vars(mod).items()):
            if is_wrapper(obj):
                if (id(mod), name) not in seen:
                    seen.add((id(mod), name))
                    sites.append(("%s.%s" % (mod.__name__, name), mod, name, "function", obj))
            elif isinstance(obj, type) and obj.__module__ == mod.__name__:
                for attr, v in list(vars(obj).items()):
                    kind, f = "function", v
                    if isinstance(v, property):
                        kind, f = "property", v.fget
                    elif isinstance(v, (staticmethod, classmethod)):
                        kind, f = type(v).__name__, v.__func__
                    if is_wrapper(f) and (id(obj), attr) not in seen:
                        seen.add((id(obj), attr))
                        sites.append(("%s.%s.%s" % (mod.__name__, obj.__name__, attr), obj, attr, kind, f))
    return sites


_SITES = None


class Interposed:
    """While active, every call that goes through a cached use site is judged: the value it returns must be, up to type
    and rendering, what the wrapped computation gives for THESE arguments now (the frames of a case are never changed after
    construction, so the computation is a function of its arguments; a site whose computation is not repeatable is not judged)."""

    def __init__(self, T):
        global _SITES
        if _SITES is None:
            _SITES = cached_use_sites(T)
        self.sites = _SITES
        self.saved = []
        self.bad = []
        self.calls = {}

    def _proxy(self, desc, w):
        import functools

        inner = getattr(w, "__wrapped__", None)

        @functools.wraps(w)
        def proxy(*a, **k):
            r = w(*a, **k)
            self.calls[desc] = self.calls.get(desc, 0) + 1
            if inner is not None:
                try:
                    f1, f2 = inner(*a, **k), inner(*a, **k)
                except Exception:
                    return r
                if _strict(f1) == _strict(f2) and _strict(r) != _strict(f1):
                    self.bad.append([desc, repr(r)[:80], repr(f1)[:80]])
            return r

        return proxy

    def __enter__(self):
        for desc, owner, attr, kind, w in self.sites:
            p = self._proxy(desc, w)
            new = {"function": p, "property": None, "staticmethod": staticmethod(p), "classmethod": classmethod(p)}[kind]
            old = vars(owner)[attr]
            if kind == "property":
                new = property(p, old.fset, old.fdel, old.__doc__)
            self.saved.append((owner, attr, old))
            setattr(owner, attr, new)
        return self

    def __exit__(self, *a):
        for owner, attr, old in reversed(self.saved):
            setattr(owner, attr, old)
        self.saved = []


def _read(df, k):
    if k == "names":
        return list(df.column_names)
    if k == "count":
        return df.columncount
    if k == "shape":
        return list(df.shape)
    if k == "str":
        return str(df).splitlines()[:4]
    raise InfraError("unknown read %r" % (k,))


def run_frames_impl(case, interpose=True):
    import orso.tools as T

    if True:
        frames, specs = {}, {}
        outs = []
        # The caches behind the use sites live as long as the process: start every case from the same state by reading a few
        # sentinel frames nobody else has (so a replay of the case alone, in a fresh process, behaves the same).
        try:
            for i in range(6):
                sentinel = build_frame({"kind": "list", "labels": ["__sentinel_%d__" % i], "rows": []})
                sentinel.column_names, sentinel.columncount
        except Exception:
            pass
        ip = Interposed(T) if interpose else None
        if ip is not None:
            ip.__enter__()
        try:
            for op in case["ops"]:
                k = op[0]
                if k == "new":
                    try:
                        frames[op[1]] = build_frame(op[2])
                        specs[op[1]] = op[2]
                        outs.append(["unit"])
                    except Exception as e:
                        frames.pop(op[1], None)
                        outs.append(["unbuildable", type(e).__name__])
                elif k == "drop":
                    frames.pop(op[1], None)
                    gc.collect()
                    outs.append(["unit"])
                elif k in READS:
                    df = frames.get(op[1])
                    if df is None:
                        outs.append(["unit"])
                        continue
                    n0 = len(ip.bad) if ip is not None else 0
                    try:
                        v = _read(df, k)
                        out = ["ok", v, expected_names(specs[op[1]]), len(df._rows) if isinstance(df._rows, list) else None]
                    except Exception as e:
                        out = ["err", type(e).__name__]
                    if ip is not None and len(ip.bad) > n0:
                        out = out + [{"sites": ip.bad[n0:]}]
                    outs.append(out)
        finally:
            if ip is not None:
                ip.__exit__()
        return outs, (dict(ip.calls) if ip is not None else {})


def oracle_frames(case, outs):
    for op, out in zip(case["ops"], outs):
        if out[0] == "err":
            return "%s raised %s" % (op[0], out[1])
        if out[0] == "ok":
            names = out[2]
            if op[0] == "names" and out[1] != names:
                return "frame was served another frame's cached column names"
            if op[0] == "count" and out[1] != len(names):
                return "frame was served another frame's cached column count"
            if op[0] == "shape" and out[1][1] != len(names):
                return "frame was served another frame's cached column count"
            if isinstance(out[-1], dict) and out[-1].get("sites"):
                return "a cached use site returned a value that differs from what the wrapped computation gives for these arguments"
    return None


def valid_frames(c):
    try:
        return c.get("mode") == "frames" and all(
            op[0] in ("new", "drop") + READS and isinstance(op[1], int)
            and (op[0] != "new" or isinstance(op[2], int) or (isinstance(op[2], dict) and op[2].get("kind") in ("list", "tuple", "relation", "dicts")
                                                                  and isinstance(op[2].get("labels"), list) and op[2]["labels"]
                                                                  and len({str(_label(v)) for v in op[2]["labels"]}) == len(op[2]["labels"])
                                                                  and all(str(_label(v)) for v in op[2]["labels"])
                                                                  and (op[2]["kind"] not in ("dicts", "relation") or all(isinstance(v, str) for v in op[2]["labels"]))
                                                                  and (op[2]["kind"] != "dicts" or op[2].get("rows"))
                                                                  and all(isinstance(r, list) and len(r) == len(op[2]["labels"]) for r in op[2].get("rows", []))))
            for op in c["ops"]
        ) and bool(c["ops"])
    except Exception:
        return False


def use_site_notes(ctx, info):
    """evidence: the use sites found in the sources (extractor) and the ones found at run time; a difference is a note"""
    import orso.tools as T

    global _SITES
    if _SITES is None:
        _SITES = cached_use_sites(T)
    runtime = sorted(d for d, *_ in _SITES)
    parsed = info.get("c19.use_sites") or []
    ctx.note("cached_use_sites_runtime", runtime)
    ctx.note("cached_use_sites_parsed", parsed)
    ctx.note("dataframe_defines_eq", info.get("c19.dataframe_defines_eq"))  # False: frames are cache keys by identity
    want = sorted("%s.%s" % (p["module"], p["qualname"]) for p in parsed if not p.get("nested"))
    if want != runtime:
        ctx.note("cached_use_sites_differ", {"parsed_only": sorted(set(want) - set(runtime)), "runtime_only": sorted(set(runtime) - set(want))})
    pinned = ["orso.dataframe.DataFrame.column_names", "orso.dataframe.DataFrame.columncount"]
    if runtime != pinned:
        ctx.note("cached_use_sites_changed", "the check was written for %s; every site found is still judged when a frame operation goes through it" % pinned)


def evaluate_frames(ctx, cases):
    for c in cases:
        outs, calls = run_frames_impl(c)
        ctx.case(c, sum(1 for o in outs if o[0] == "ok") >= 2)
        ctx.hit("frames")
        for op, o in zip(c["ops"], outs):
            if o[0] == "ok":
                ctx.hit("frames:read:" + op[0])
            elif o[0] == "unbuildable":
                ctx.hit("frames:unbuildable")
        for d, n in calls.items():
            ctx.hit("site-calls:" + d, n)
        clause = oracle_frames(c, outs)
        if clause is not None:
            def still(c2):
                return valid_frames(c2) and _norm(oracle_frames(c2, run_frames_impl(c2)[0])) == _norm(clause)

            if ctx.replaying:
                ctx.fail(c, clause, impl=outs)
                continue
            if any(v.get("sig") == clause for v in ctx.violations):
                ctx.hit("violation-dup:" + clause)  # already reported with a confirmed replay: do not pay for another shrink
                continue
            # The state behind a use site outlives a case (module-level caches).  A replay runs the case alone in a fresh
            # process, so the reported case must fail THERE: shrink in this process, confirm in a fresh interpreter, and
            # fall back to (a bounded shrink of) the unshrunk case when the small one only fails after earlier cases.
            c_min = shrink(c, still)
            detail = None
            if not frames_fails_fresh(c_min, clause):
                if frames_fails_fresh(c, clause):
                    c_min = shrink(c, lambda c2: valid_frames(c2) and frames_fails_fresh(c2, clause), budget=40)
                else:
                    detail = "fails only after the earlier cases of this run (state outside the case); shown as observed in this process"
            ctx.fail(c_min, clause, impl=run_frames_impl(c_min)[0], detail=detail)


def frames_fails_fresh(case, clause):
    """does the frames case, run alone in a fresh interpreter, fail with the same clause?"""
    import subprocess
    import sys

    code = ("import sys, json\n"
            "sys.path.insert(0, %r); sys.path.insert(0, %r)\n"
            "from harness import ext, core\n"
            "try:\n    ext.preload(core.REPO)\nexcept Exception:\n    pass\n"
            "from harness.props import c19\n"
            "c = core.unjson(json.loads(sys.stdin.read()))\n"
            "print('RESULT ' + json.dumps(c19.oracle_frames(c, c19.run_frames_impl(c)[0])))\n") % (core.REPO, core.VERIF)
    try:
        p = subprocess.run([sys.executable, "-c", code], input=json.dumps(core._jsonable(case)), capture_output=True, text=True, timeout=60,
                           env=dict(os.environ, ORSO_REPO=core.REPO))
        for line in p.stdout.splitlines():
            if line.startswith("RESULT "):
                return _norm(json.loads(line[7:])) == _norm(clause)
    except Exception:
        pass
    return False


# --------------------------------------------------------------------------- concurrent cases



# --------------------------------------------------------------------------- mode "mutate": use -> mutate the receiver -> use again

MUTATIONS = ("append_label", "replace_label", "drop_label", "append_row", "none")
MUT_SCHEMAS = (["a", "b"], ["c"], [1, 2], ["x", "y", "z"])


def run_mutate_impl(case):
    """Frames built on schema LISTS the caller keeps (so the caller can edit them: `DataFrame.append` documents that a
    schema object is shared with its other users and may be edited).  ops: ["new", i, schema_index, shared_with or None] /
    ["read", i, site] / ["mut", i, kind] / ["drop", i].  Every read is reported with what the undecorated function
    (`__wrapped__`) gives for the same receiver right after it."""
    import gc

    from orso import DataFrame

    with Patched() as T:
        sites = {d: (owner, attr, kind, w) for d, owner, attr, kind, w in cached_use_sites(T) if owner is DataFrame and kind == "property"}
    frames, schemas, outs = {}, {}, []
    for op in case["ops"]:
        if op[0] == "new":
            _, i, si, shared = op
            sch = schemas[shared] if shared is not None and shared in schemas else list(MUT_SCHEMAS[si % len(MUT_SCHEMAS)])
            schemas[i] = sch
            frames[i] = DataFrame(rows=[], schema=sch)
            outs.append(None)
        elif op[0] == "drop":
            frames.pop(op[1], None)
            schemas.pop(op[1], None)
            gc.collect()
            outs.append(None)
        elif op[0] == "mut":
            _, i, kind = op
            sch = schemas.get(i)
            if sch is not None:
                if kind == "append_label":
                    sch.append("m%d" % len(sch))
                elif kind == "replace_label" and sch:
                    sch[0] = "r_%s" % sch[0]
                elif kind == "drop_label" and len(sch) > 1:
                    sch.pop()
                elif kind == "append_row" and i in frames:
                    try:
                        frames[i]._rows = list(frames[i]._rows) + [tuple(range(len(sch)))]
                    except Exception:
                        pass
            outs.append(None)
        else:
            _, i, site = op
            df = frames.get(i)
            if df is None or site not in sites:
                outs.append(None)
                continue
            w = sites[site][3]
            try:
                got = w(df)
                now = w.__wrapped__(df)
                # re-derivation from the schema list the harness holds (the undecorated function may itself memoise)
                sch = schemas.get(i)
                attr = sites[site][1]
                if attr == "column_names" and sch is not None:
                    now = tuple(str(c) for c in sch)
                elif attr == "columncount" and sch is not None:
                    now = len(sch)
                outs.append([_strict(got), _strict(now)])
            except Exception as e:
                outs.append(["err", type(e).__name__])
    return outs


def oracle_mutate(case, outs):
    """The property speaks of ARGUMENTS: a read of receiver r must return what the wrapped function produced for r - now
    (recomputed) or at an earlier read of this same r (served from the cache; stale after a mutation of r is the same
    argument object, hence not a violation of C19: counted, never an alarm).  Anything else was computed for another receiver."""
    seen = {}  # (receiver, site) -> values the wrapped function has produced for it so far
    stale = 0
    for op, o in zip(case["ops"], outs):
        if op[0] == "drop":
            for k in [k for k in seen if k[0] == op[1]]:
                del seen[k]
        if op[0] == "new":
            for k in [k for k in seen if k[0] == op[1]]:
                del seen[k]
        if op[0] != "read" or o is None:
            continue
        if o[0] == "err":
            return "use site raised %s" % o[1], stale
        got, now = o
        k = (op[1], op[2])
        if got != now:
            if got in seen.get(k, []):
                stale += 1
            else:
                return "use site served a value computed for a different receiver", stale
        seen.setdefault(k, []).append(now)
        if got not in seen[k]:
            seen[k].append(got)
    return None, stale


def valid_mutate(c):
    try:
        return c.get("mode") == "mutate" and all(op[0] in ("new", "read", "mut", "drop") for op in c["ops"]) and any(op[0] == "read" for op in c["ops"])
    except Exception:
        return False


def evaluate_mutate(ctx, cases):
    for case in cases:
        outs = run_mutate_impl(case)
        clause, stale = oracle_mutate(case, outs)
        ctx.case(case, sum(1 for op in case["ops"] if op[0] == "read") >= 2)
        ctx.hit("mutate:reads:%d" % min(4, sum(1 for op in case["ops"] if op[0] == "read")))
        for op in case["ops"]:
            if op[0] == "mut":
                ctx.hit("mutate:kind:" + op[2])
        if stale:
            ctx.hit("mutate:stale-after-mutation-of-the-same-receiver")
            for op in case["ops"]:
                if op[0] == "read":
                    _STALE_SITES.add(op[2])
        if clause is not None:
            def still(c2):
                if not valid_mutate(c2):
                    return False
                return oracle_mutate(c2, run_mutate_impl(c2))[0] == clause

            small = core.shrink(case, still) if hasattr(core, "shrink") else case
            ctx.fail(small, clause, impl={"outs": run_mutate_impl(small)})


_STALE_SITES = set()


def exhaustive_mutate(T):
    with Patched() as T_:
        names = sorted(d for d, owner, attr, kind, w in cached_use_sites(T_) if kind == "property" and owner.__name__ == "DataFrame")
    for site in names:
        for kind in MUTATIONS:
            # one receiver: read, mutate, read
            yield {"mode": "mutate", "ops": [["new", 0, 0, None], ["read", 0, site], ["mut", 0, kind], ["read", 0, site]]}
            # two receivers sharing ONE schema object: read A, mutate, read B, read A
            yield {"mode": "mutate", "ops": [["new", 0, 0, None], ["new", 1, 0, 0], ["read", 0, site], ["mut", 0, kind], ["read", 1, site], ["read", 0, site]]}
            # two receivers with equal but distinct schema objects
            yield {"mode": "mutate", "ops": [["new", 0, 0, None], ["new", 1, 0, None], ["read", 0, site], ["mut", 0, kind], ["read", 1, site], ["read", 0, site]]}
            # a receiver dropped and another one created (ids may be reused)
            yield {"mode": "mutate", "ops": [["new", 0, 0, None], ["read", 0, site], ["mut", 0, kind], ["drop", 0], ["new", 1, 0, None], ["read", 1, site]]}
            for other in names:
                if other != site:
                    yield {"mode": "mutate", "ops": [["new", 0, 2, None], ["read", 0, site], ["mut", 0, kind], ["read", 0, other], ["read", 0, site]]}




# --------------------------------------------------------------------------- mode "lifetime": keys that outlive their object
#
# The class of change: a cache key derived from the IDENTITY of an argument object (id(), a weak reference, hash() of an
# object with the default hash) instead of the object itself.  Such a cache does not keep its argument alive; once the
# argument is garbage CPython hands its address to the next object of the same size, the hit test sees an equal key and
# serves the DEAD object's result to a different object without invoking the wrapped function.  It manifests only when
# the first object really dies before the second is created, so every session here creates its argument objects inside a
# helper (no reference survives the helper), drops them, and builds the next one with the same shape of allocation.  A
# case is a RECIPE (how the objects are allocated / whether the collector runs in between) repeated `attempts` times; the
# answer is judged on EVERY attempt (whether the address was in fact reused is counted, never required).

LIFETIME_FRAME_RECIPES = ("comprehension+row", "literal", "list()", "tuple", "held-schema", "relation", "dicts")
LIFETIME_SHAPES = ("slots", "dict", "kw", "pair", "nested", "two", "weakrefable")


class Token:
    """an argument object with the default __eq__ / __hash__ (identity), as small as an object gets"""

    __slots__ = ("tag",)

    def __init__(self, tag):
        self.tag = tag


class TokenD:
    """the same with an instance dictionary"""

    def __init__(self, tag):
        self.tag = tag


class TokenW:
    __slots__ = ("tag", "__weakref__")

    def __init__(self, tag):
        self.tag = tag


def _lifetime_frame(labels, recipe, held):
    from orso import DataFrame

    if recipe == "comprehension+row":
        s = [x for x in labels]
        return DataFrame(rows=[tuple(range(len(s)))], schema=s)
    if recipe == "literal":
        return DataFrame(rows=[], schema=[*labels])
    if recipe == "list()":
        return DataFrame(rows=[], schema=list(labels))
    if recipe == "tuple":
        return DataFrame(rows=[], schema=tuple(labels))
    if recipe == "held-schema":  # the caller keeps every schema list: only the FRAME dies
        s = [x for x in labels]
        held.append(s)
        return DataFrame(rows=[], schema=s)
    if recipe == "relation":
        from orso.schema import FlatColumn, RelationSchema
        from orso.types import OrsoTypes

        return DataFrame(rows=[], schema=RelationSchema(name="t", columns=[FlatColumn(name=str(l), type=OrsoTypes.INTEGER) for l in labels]))
    if recipe == "dicts":
        return DataFrame([dict((l, 0) for l in labels)])
    raise InfraError("unknown lifetime recipe %r" % (recipe,))


def _lifetime_frame_read(labels, recipe, held, site, sites):
    """build a frame nobody else refers to, read one cached use site, let the frame die: (value, expected, addresses)"""
    df = _lifetime_frame(labels, recipe, held)
    ids = [id(df), id(df._schema)]
    want = [str(l) for l in labels]
    if site == "names":
        got, exp = list(df.column_names), want
    elif site == "count":
        got, exp = df.columncount, len(want)
    elif site == "shape":
        got, exp = list(df.shape)[1], len(want)
    else:  # any other cached property of DataFrame found at run time: the undecorated function is the reference
        owner, attr, kind, w = sites[site]
        got, exp = _strict(getattr(df, attr)), _strict(w.__wrapped__(df))
    return got, exp, ids


def _lifetime_unread(labels, recipe, held):
    df = _lifetime_frame(labels, recipe, held)
    return [id(df), id(df._schema)]


def lifetime_sites():
    import orso.tools as T
    from orso import DataFrame

    global _SITES
    if _SITES is None:
        _SITES = cached_use_sites(T)
    return {d: (owner, attr, kind, w) for d, owner, attr, kind, w in _SITES if owner is DataFrame and kind == "property"}


def run_lifetime_frames(case):
    """attempts x (frame A with `first` labels: read, dies; frame B with `second` labels, same allocation: read, dies).
    Stops at the first wrong answer.  Returns (outs, stats)."""
    sites = lifetime_sites()
    held = []
    outs, reused, control = [], 0, 0
    recipe, site = case["recipe"], case["site"]
    if site not in ("names", "count", "shape") and site not in sites:
        return [], {"skipped": "no such site"}
    try:  # start from the same state in every process: a sentinel nobody else has
        _lifetime_frame_read(["__sentinel_lifetime__"], "literal", [], "names", sites)
    except Exception:
        pass
    last = None
    for i in range(case.get("attempts", 40)):
        for which in ("first", "second"):
            labels = [_label(v) for v in case[which]]
            try:
                got, exp, ids = _lifetime_frame_read(labels, recipe, held, site, sites)
            except Exception as e:
                outs.append([i, which, "err", type(e).__name__])
                return outs, {"reused": reused}
            was = last is not None and (last == ids if recipe != "held-schema" else last[0] == ids[0])
            reused += int(was)
            last = ids
            if case.get("collect"):
                gc.collect()
            if got != exp:
                outs.append([i, which, "wrong", got, exp, {"addresses_of_the_previous_frame_and_schema_reused": was}])
                return outs, {"reused": reused}
        outs.append([i, "ok"])
    # control: the same recipe with frames that are never read (so no cache can hold them) does reuse the addresses
    a = _lifetime_unread([_label(v) for v in case["first"]], recipe, held)
    for _ in range(8):
        b = _lifetime_unread([_label(v) for v in case["second"]], recipe, held)
        control += int(a == b if recipe != "held-schema" else a[0] == b[0])
        a = b
    return outs, {"reused": reused, "control_reuse": control}


def _lifetime_call(w, log, shape, tag):
    """create the argument object(s), call, let them die: (result, expected, number of invocations, address)"""
    cls = {"dict": TokenD, "weakrefable": TokenW}.get(shape, Token)
    tok = cls(tag)
    n0 = len(log)
    if shape == "kw":
        r = w(t=tok)
    elif shape == "pair":
        r = w(tok, 0)
    elif shape == "nested":
        r = w((tok,))
    elif shape == "two":
        r = w(tok, cls(-tag))
    else:
        r = w(tok)
    return r, ["for", tag], len(log) - n0, id(tok)


def run_lifetime_decor(case):
    """the decorators themselves: a wrapped function over argument objects that are created and dropped between calls;
    every call has a NEW argument object (equal to no earlier one), so every call must invoke the wrapped function and
    return what it produced for this object."""
    def find(v):
        if isinstance(v, (Token, TokenD, TokenW)):
            return v.tag
        if isinstance(v, tuple):
            for x in v:
                t = find(x)
                if t is not None:
                    return t
        return None

    with Patched() as T:
        CLOCK.now = T0
        log = []

        def F(*args, **kwargs):
            tag = find(args) if find(args) is not None else find(tuple(kwargs.values()))
            log.append(tag)
            return ["for", tag]

        kw = {}
        if case.get("valid") is not None:
            kw["valid_for_seconds"] = case["valid"]
        if case["cache"] == "single":
            w = T.single_item_cache(F, **kw)
        else:
            w = T.lru_cache_with_expiry(F, max_size=case["max_size"], **kw)
        outs, reused, last = [], 0, None
        for i in range(case.get("attempts", 40)):
            try:
                r, exp, inv, addr = _lifetime_call(w, log, case["shape"], i + 1)
            except Exception as e:
                outs.append([i, "err", type(e).__name__])
                break
            reused += int(addr == last)
            last = addr
            if case.get("collect"):
                gc.collect()
            if r != exp or inv != 1:
                outs.append([i, "wrong", r, exp, inv])
                break
            outs.append([i, "ok"])
        return outs, {"reused": reused}


def run_lifetime_impl(case):
    return run_lifetime_frames(case) if case["target"] == "frames" else run_lifetime_decor(case)


def oracle_lifetime(case, outs):
    for o in outs:
        if o[1] == "err" or (len(o) > 2 and o[2] == "err"):
            return "call raised %s" % o[-1]
        if case["target"] == "frames" and len(o) > 2 and o[2] == "wrong":
            # (own wording: the runner keeps one replay per clause, and the replay of this mode is self-contained)
            return ("frame was served the cached column names of another frame (one that no longer exists)" if case["site"] == "names" else
                    "frame was served the cached column count of another frame (one that no longer exists)" if case["site"] in ("count", "shape") else
                    "a cached use site served a frame the value computed for another frame (one that no longer exists)")
        if case["target"] == "decor" and o[1] == "wrong":
            if o[2] != o[3]:
                return "result computed for a different argument object (one that no longer exists)"
            return "wrapped function not invoked although the only entry held is for an argument object that no longer exists"
    return None


def valid_lifetime(c):
    try:
        if c.get("mode") != "lifetime" or not isinstance(c.get("attempts", 40), int) or not (3 if c.get("collect") else 20) <= c.get("attempts", 40) <= 400:
            return False
        if c["target"] == "frames":
            ok = lambda ls: (isinstance(ls, list) and ls and all(isinstance(v, str) and v for v in ls) and len(set(ls)) == len(ls))  # noqa: E731
            return c["recipe"] in LIFETIME_FRAME_RECIPES and isinstance(c["site"], str) and ok(c["first"]) and ok(c["second"])
        return (c["target"] == "decor" and c["cache"] in ("single", "lru") and c["shape"] in LIFETIME_SHAPES
                and (c["cache"] == "single" or (isinstance(c.get("max_size"), int) and c["max_size"] >= 1)))
    except Exception:
        return False


_LIFETIME_STATS = {}


def evaluate_lifetime(ctx, cases):
    for c in cases:
        outs, stats = run_lifetime_impl(c)
        if stats.get("skipped"):
            continue
        ctx.case(c, len(outs) >= 1)
        k = "lifetime:%s:%s" % (c["target"], c.get("recipe") or "%s:%s" % (c["cache"], c["shape"]))
        ctx.hit(k)
        ctx.hit("lifetime:attempts", len(outs))
        st = _LIFETIME_STATS.setdefault(k, {"cases": 0, "attempts": 0, "address_reused_while_cached": 0, "address_reused_when_never_read": 0})
        st["cases"] += 1
        st["attempts"] += len(outs)
        st["address_reused_while_cached"] += stats.get("reused", 0)
        st["address_reused_when_never_read"] += stats.get("control_reuse", 0)
        clause = oracle_lifetime(c, outs)
        if clause is not None:
            def still(c2):
                return valid_lifetime(c2) and oracle_lifetime(c2, run_lifetime_impl(c2)[0]) == clause

            if ctx.replaying:
                ctx.fail(c, clause, impl=outs)
                continue
            if any(v.get("sig") == clause for v in ctx.violations):
                ctx.hit("violation-dup:" + clause)
                continue
            small = shrink(c, still, budget=60)
            ctx.fail(small, clause, impl=run_lifetime_impl(small)[0],
                     detail="the argument object of the earlier call was garbage when this one was created (addresses are reused by CPython); "
                            "the case is a loop of `attempts` rounds, judged on every round")


def exhaustive_lifetime(thorough):
    attempts = 200 if thorough else 60
    slow = 12 if thorough else 3  # a full collection costs ~10 ms in this process
    pairs = [(["a", "b"], ["c", "d", "e"]), (["p", "q", "r"], ["s", "t", "u"]), (["x"], ["y"])]
    sites = ["names", "count", "shape"] + sorted(d for d, (o, attr, k, w) in lifetime_sites().items() if attr not in ("column_names", "columncount"))
    for recipe in LIFETIME_FRAME_RECIPES:
        for site in sites:
            for collect in (False, True):
                for first, second in (pairs if thorough or site == "names" else pairs[:1]):
                    yield {"mode": "lifetime", "target": "frames", "recipe": recipe, "site": site, "collect": collect,
                           "first": first, "second": second, "attempts": slow if collect else attempts}
    for cache, ms in (("single", None), ("lru", 1), ("lru", 2)):
        for shape in LIFETIME_SHAPES:
            for collect in (False, True):
                c = {"mode": "lifetime", "target": "decor", "cache": cache, "shape": shape, "collect": collect, "valid": VALID, "attempts": slow if collect else attempts}
                if ms is not None:
                    c["max_size"] = ms
                yield c


def gen_info():
    p = os.path.join(core.LEAN, "OrsoVerif", "Generated", "generated.json")
    return json.load(open(p))


def wrapper_codes(T):
    s = T.single_item_cache(lambda: None)
    l = T.lru_cache_with_expiry(lambda: None)
    return {"single": s.__code__, "lru": l.__code__}


def run_conc_impl(case, schedule=None, policy=None):
    """Run the pre phase sequentially, the threads under the scheduler, the post phase sequentially."""
    with Patched() as T:
        code = wrapper_codes(T)[case["cache"]]
        if case.get("frames"):
            return _run_conc_frames(case, code, schedule, policy)
        w = Wrapped(T, case)
        pre = []
        for op in case.get("pre", []):
            if op[0] == "adv":
                CLOCK.now += op[1]
            else:
                pre.append(w.call(op))
        thunks = [(lambda op=op: w.call(op)) for op in case["threads"]]
        # a lock in the wrapper's closure (the LRU wrapper's RLock) is replaced by one that co-operates
        # with the scheduler: a thread that finds it taken is "blocked", not stuck
        sched.coop_locks(w.w)
        res = sched.run(thunks, schedule or [], [code], timeout=5.0, policy=policy)
        outs = []
        for o in res["outcomes"]:
            if o is None:
                outs.append(None)
            elif o[0] == "ok":
                outs.append(o[1])
            else:
                outs.append(["err", o[1]])
        post = []
        for op in case.get("post", []):
            if op[0] == "adv":
                CLOCK.now += op[1]
            else:
                post.append(w.call(op))
        return {"pre": pre, "outs": outs, "post": post, "log": [[k, t] for k, t in w.log], "trace": res["trace"],
                "alive": res["alive"], "stuck": res["stuck"], "bad_prefix": res["bad_prefix"]}


def _run_conc_frames(case, code, schedule, policy):
    """Threads read DataFrame.column_names of different frames (the real shared cache)."""
    from orso import DataFrame

    frames = [DataFrame(rows=[], schema=list(SCHEMAS[i % len(SCHEMAS)])) for i in range(4)]
    pre = [list(frames[op[1][0]].column_names) for op in case.get("pre", []) if op[0] == "call"]
    thunks = [(lambda op=op: list(frames[op[1][0]].column_names)) for op in case["threads"]]
    res = sched.run(thunks, schedule or [], [code], timeout=5.0, policy=policy)
    outs = []
    for o, op in zip(res["outcomes"], case["threads"]):
        if o is None:
            outs.append(None)
        elif o[0] == "ok":
            outs.append(["names", o[1], list(frames[op[1][0]]._schema)])
        else:
            outs.append(["err", o[1]])
    return {"pre": pre, "outs": outs, "post": [], "log": None, "trace": res["trace"], "alive": res["alive"],
            "stuck": res["stuck"], "bad_prefix": res["bad_prefix"]}


def oracle_conc(case, r):
    if r["stuck"]:
        return None
    if case.get("frames"):
        for o in r["outs"]:
            if o is not None and o[0] == "names" and o[1] != o[2]:
                return "frame was served another frame's cached column names"
            if o is not None and o[0] == "err":
                return "call raised %s" % o[1]
        return None
    log = r["log"]
    ops = [op for op in case.get("pre", []) if op[0] == "call"], case["threads"], [op for op in case.get("post", []) if op[0] == "call"]
    for opl, outs in zip(ops, (r["pre"], r["outs"], r["post"])):
        for op, o in zip(opl, outs):
            if o is None:
                continue
            if o[0] == "ok":
                if not (0 <= o[1] < len(log)) or log[o[1]][0] != op_key(op):
                    return "result computed for different arguments"
            elif o[0] == "other":
                return "returned an object the wrapped function did not produce"
    for op, o in zip(case["threads"], r["outs"]):
        if o is not None and o[0] == "err":
            return "call raised %s" % o[1]
    return None


def model_conc(ctx, case, r, info):
    """Model line for the schedule the implementation actually followed (projected on step lines)."""
    if case["cache"] == "single":
        step_lines = info["c19.single"]["linenos"]
        kinds = {ln: i for i, ln in enumerate(step_lines)}
    else:
        kinds = {ln: k for ln, k in info["c19.lru"]["lines"]}
    keys, steps = [], []
    n_pre = 0
    for op in case.get("pre", []):
        if op[0] == "adv":
            steps.append([op[1]])
        else:
            keys.append(op_key(op))
            steps.append(["f", n_pre])
            n_pre += 1
    for op in case["threads"]:
        keys.append(op_key(op))
    want_trace = []
    for tid, ln in r["trace"]:
        if ln in kinds:
            steps.append(n_pre + tid)
            want_trace.append(kinds[ln])
    j = n_pre + len(case["threads"])
    for op in case.get("post", []):
        if op[0] == "adv":
            steps.append([op[1]])
        else:
            keys.append(op_key(op))
            steps.append(["f", j])
            j += 1
    if case["cache"] == "single":
        mkeys = [[k[0], k[1]] for k in keys]
        costs = case.get("costs", [])
    else:
        mkeys, costs = keys, case.get("costs", [])
    line = "C19 conc " + wire.line(case["cache"], "extracted", case.get("valid"), case.get("max_size", 1), T0, costs, mkeys, steps)
    return line, want_trace, n_pre


def compare_conc(case, r, mo, want_trace, n_pre):
    """None when implementation and model agree, else a description."""
    if not mo.startswith("ok "):
        raise InfraError("model rejected concurrent case %r: %r" % (case, mo))
    m = wire.dec_all(mo[3:])
    if m[0] == "bad-schedule":
        return {"what": "the model cannot execute the schedule the implementation followed", "model": m}
    _, m_outs, m_trace, m_log = m
    nthr = len(case["threads"])
    impl_outs = r["pre"] + r["outs"] + r["post"]
    if case.get("frames"):
        # the model's returned invocation index -> the frame it was computed for
        def frame_of(o):
            return None if o is None or o[0] != "ok" else m_log[o[1]][0][0][0]

        got = [None if o is None or o[0] != "names" else o[1] for o in r["outs"]]
        exp = [None if frame_of(o) is None else list(SCHEMAS[frame_of(o) % len(SCHEMAS)]) for o in m_outs[n_pre:n_pre + nthr]]
        if got != exp:
            return {"what": "column names differ from the model's", "impl": got, "model": exp}
        return None
    m_tr = [x for x in m_trace if x is not None]
    if [list(o) if o is not None else None for o in impl_outs] != m_outs:
        return {"what": "outcomes differ", "impl": impl_outs, "model": m_outs}
    if m_tr != want_trace:
        return {"what": "executed step lines differ", "impl": want_trace, "model": m_tr}
    if r["log"] != m_log:
        return {"what": "invocation logs differ", "impl": r["log"], "model": m_log}
    return None


def valid_conc(c):
    try:
        if c.get("mode") != "conc" or c["cache"] not in ("single", "lru") or not c["threads"]:
            return False
        if c["cache"] == "lru" and not (isinstance(c.get("max_size"), int) and c["max_size"] >= 1):
            return False
        for op in c.get("pre", []) + c.get("post", []):
            if op[0] == "adv":
                if not (isinstance(op[1], int) and op[1] >= 0):
                    return False
            elif not (op[0] == "call" and len(op) == 3):
                return False
        if any(not (op[0] == "call" and len(op) == 3) for op in c["threads"]):
            return False
        n = len(c["threads"])
        return all(isinstance(t, int) and 0 <= t < n for t in c.get("schedule", []))
    except Exception:
        return False


def judge_conc(ctx, case, r, degraded, info, pending):
    """Oracle now; queue the model comparison (batched)."""
    nthr = len(case["threads"])
    ctx.case(case, nthr >= 2 and len(set(t for t, _ in r["trace"])) >= 2)
    ctx.hit("conc:%s:%d-threads" % (case["cache"] + ("-frames" if case.get("frames") else ""), nthr))
    if r["stuck"]:
        ctx.hit("conc:stuck")
        ctx.disagree(case, {"stuck": True, "trace": r["trace"]}, None, what="scheduler timed out (a thread blocked outside the scheduler's control)")
        return
    clause = oracle_conc(case, r)
    if clause is not None:
        ctx.hit("conc:oracle:" + _norm(clause))
        verdict = ctx.fail(case, clause, impl={"outs": r["outs"], "pre": r["pre"], "post": r["post"], "log": r["log"], "trace": r["trace"]})
        if verdict != "known":
            return
    if not degraded:
        pending.append((case, r))


def flush_conc(ctx, pending, info):
    if not pending:
        return
    built = [model_conc(ctx, c, r, info) for c, r in pending]
    mouts = ctx.model.batch([b[0] for b in built])
    for (c, r), (_, want, n_pre), mo in zip(pending, built, mouts):
        d = compare_conc(c, r, mo, want, n_pre)
        if d is not None:
            ctx.disagree(c, d.get("impl", r["outs"]), d.get("model"), what=d["what"])
    del pending[:]


def enumerate_conc(ctx, base, degraded, info, limit=None, max_preemptions=None):
    """All schedules (optionally bounded) of `base`'s threads, by backtracking over real runs."""
    with Patched() as T:
        code = wrapper_codes(T)[base["cache"]]
    stack = [[]]
    n = 0
    pending = []
    complete = True
    while stack:
        if (limit is not None and n >= limit) or ctx.time_left() < 3:
            complete = False
            break
        prefix = stack.pop()
        r = run_conc_impl(base, schedule=prefix)
        s = [t for t, _ in r["trace"]]
        case = dict(base, schedule=s)
        judge_conc(ctx, case, r, degraded, info, pending)
        n += 1
        if r["stuck"] or r["bad_prefix"] is not None:
            continue
        for pos in range(len(s) - 1, len(prefix) - 1, -1):
            for alt in r["alive"][pos]:
                if alt != s[pos]:
                    cand = s[:pos] + [alt]
                    if max_preemptions is not None and sched.preemptions(cand, r["alive"][: pos + 1]) > max_preemptions:
                        continue
                    stack.append(cand)
        if len(pending) >= 2000:
            flush_conc(ctx, pending, info)
    flush_conc(ctx, pending, info)
    return n, complete


def sample_conc(ctx, base, degraded, info, count):
    pending = []
    for _ in range(count):
        if ctx.time_left() < 3:
            break
        rng = ctx.rng
        burst = rng.choice([1, 2, 3, 5])
        state = {"cur": None, "left": 0}

        def policy(alive, step):
            if state["cur"] not in alive or state["left"] <= 0:
                state["cur"] = rng.choice(alive)
                state["left"] = rng.randint(1, burst)
            state["left"] -= 1
            return state["cur"]

        r = run_conc_impl(base, schedule=[], policy=policy)
        case = dict(base, schedule=[t for t, _ in r["trace"]])
        judge_conc(ctx, case, r, degraded, info, pending)
    flush_conc(ctx, pending, info)


def evaluate_conc(ctx, cases, degraded, info):
    pending = []
    for c in cases:
        r = run_conc_impl(c, schedule=c.get("schedule", []))
        if r["bad_prefix"] is not None and not r["stuck"]:
            ctx.hit("conc:schedule-not-followed")
        judge_conc(ctx, dict(c, schedule=[t for t, _ in r["trace"]]), r, degraded, info, pending)
    flush_conc(ctx, pending, info)


# --------------------------------------------------------------------------- generators

P = lambda *a: ["call", list(a), []]
TU = lambda *a: {"t": list(a)}  # a tuple VALUE
FS = lambda *a: {"fs": list(a)}  # a frozenset VALUE
KW = lambda a, **k: ["call", list(a), [[n, v] for n, v in k.items()]]
BIG = 2**61 - 1
FAMILIES = {
    "pos": [P(0), P(1), P(2)],
    "kw": [["call", [], [["x", 0]]], ["call", [], [["x", 1]]], ["call", [], [["y", 0]]]],
    "mixed": [["call", [0], [["x", 1]]], ["call", [0], [["x", 2]]], ["call", [1], [["x", 1]]]],
    "forms": [["call", [1], []], ["call", [], [["x", 1]]], ["call", [1], [["x", 1]]]],
    "kworder": [["call", [], [["x", 1], ["y", 2]]], ["call", [], [["y", 2], ["x", 1]]], ["call", [], [["x", 2], ["y", 1]]]],
    "edge": [["call", [], []], ["call", [None], []], ["call", [None, None], []]],
    "unhashable": [["call", [[0]], []], ["call", [[1]], []], ["call", [], [["x", [0]]]]],
    # unequal values with EQUAL CPython hashes (hash(-1) == hash(-2) == -2, hash(2**61-1) == hash(0) == 0, and tuples /
    # frozensets of them): a cache keyed by a hash instead of the arguments serves one caller's result to the other
    "hc_pos_a": [P(-1), P(-2), P(0)],
    "hc_pos_b": [P(0), P(BIG), P(-2)],
    "hc_pair": [P(-1, -2), P(-2, -1), P(-1, -1)],
    "hc_kw_a": [["call", [], [["x", -1]]], ["call", [], [["x", -2]]], ["call", [], [["y", -1]]]],
    "hc_kw_b": [["call", [], [["x", 0]]], ["call", [], [["x", BIG]]], ["call", [], [["x", -1], ["y", -2]]]],
    "hc_mixed": [["call", [-1], [["x", -2]]], ["call", [-2], [["x", -1]]], ["call", [-1], [["x", -1]]]],
    "hc_tuple": [P({"t": [-1]}), P({"t": [-2]}), P({"t": [0, BIG]})],
    # -1.0 and -2.0 also hash to -2; -1.0 == -1, so those two share an entry legitimately
    "hc_float": [P(-1.0), P(-2.0), P(-1)],
    # equal but not identical / of different type: 1 == 1.0 == True must share an entry, 2 must not
    "equal": [P(1), P(1.0), P(True)],
    "equal_kw": [["call", [], [["x", 1]]], ["call", [], [["x", True]]], ["call", [2], [["x", 1.0]]]],
    # argument OBJECTS: compared by identity with colliding hashes (orso's DataFrame: no __eq__, __hash__ from the rows only) ...
    "objs": [P({"obj": 0, "hash": 7}), P({"obj": 1, "hash": 7}), ["call", [{"obj": 0, "hash": 7}], [["x", {"obj": 1, "hash": 7}]]]],
    # ... and compared by value: a fresh object per call, == to the earlier ones with the same payload
    "eqv": [P({"eqv": 1}), P({"eqv": 2}), ["call", [], [["x", {"eqv": 1}]]]],
    # zeros: 0 == -0.0 == False share an entry (they are equal), 0.5 and '' do not
    "zero_eq": [P(0), P(-0.0), P(0.5)],
    "zero_kw": [["call", [], [["x", 0]]], ["call", [], [["x", False]]], ["call", [], [["x", ""]]]],
    # non-ASCII text as a positional value, as a keyword value and as a keyword NAME
    "unicode": [P("\u00e9"), ["call", ["e\u0301"], [["k", "\u00e9"]]], ["call", [], [["\u043a\u043b\u044e\u0447", "\u00e9"]]]],
    # numeric limits: equal-but-not-identical big ints (re-created per call), 2**63 vs 2**63 - 1, and their float neighbour
    "limits": [P(2**63), P(2**63 - 1), P(-(2**63))],
    "limits_f": [P(2**53), P(2**53 + 1), P(float(2**53))],
    # look-alikes: DIFFERENT argument lists that a carelessly built key confuses - the positional part with the keyword part
    # (a trailing positional (name, value) 2-tuple / a tuple of such items vs the keyword name=value), a nested tuple vs flat
    # arguments, an empty tuple / empty kwargs vs nothing.  For every keyword call f(*A, k=v) also f(*A, (k, v)) and f(*A, ((k, v),)).
    "look_kw": [KW([], x=1), P(TU("x", 1)), P(TU(TU("x", 1)))],
    "look_mixed": [KW([1], x=2), P(1, TU("x", 2)), P(1, TU(TU("x", 2)))],
    "look_two": [KW([], x=1, y=2), P(TU("x", 1), TU("y", 2)), KW([TU("x", 1)], y=2)],
    "look_two_b": [KW([], x=1, y=2), P(TU(TU("x", 1), TU("y", 2))), KW([TU("y", 2)], x=1)],
    "look_nest": [P(TU(1, 2)), P(1, 2), P(TU(TU(1, 2)))],
    "look_nest_kw": [KW([], x=TU(1, 2)), P(TU("x", TU(1, 2))), P("x", TU(1, 2))],
    "look_empty": [P(), P(TU()), P(TU(), TU())],
    "look_empty_b": [P(TU(TU())), KW([], x=TU()), P(TU("x", TU()))],
    "look_split": [KW([0], x=1), KW([], x=1), P(0, "x", 1)],
    # the key ITSELF as an argument: (args, items) of another call passed positionally ...
    "look_self": [KW([0], x=1), P(TU(0), TU(TU("x", 1))), P(TU(TU(0), TU(TU("x", 1))))],
    # ... and with the frozenset of the keyword items as a positional VALUE
    "look_fs": [KW([0], x=1), P(0, FS(TU("x", 1))), P(TU(0), FS(TU("x", 1)))],
}
LOOKALIKE = sorted(f for f in FAMILIES if f.startswith("look_"))
# five distinct keys: the only histories on which max_size 3 and 4 ever evict
WIDE = [P(0), P(1), P(2), P(3), P(4)]
ADV = [["adv", 5], ["adv", VALID], ["adv", VALID + 1]]


def configs(thorough):
    cs = [{"cache": "single", "valid": VALID}]
    cs += [{"cache": "lru", "valid": VALID, "max_size": m} for m in (1, 2, 3, 4)]
    if thorough:
        cs += [{"cache": "single", "valid": None}, {"cache": "single", "valid": 0}]
        cs += [{"cache": "lru", "valid": None, "max_size": m} for m in (1, 2, 3)]
    return cs


def exhaustive_seq(fam, length, thorough, ret=None):
    alpha = FAMILIES[fam] + ADV
    cfgs = configs(thorough)
    if fam == "edge" and not thorough:
        cfgs = cfgs + [{"cache": "single", "valid": None}, {"cache": "lru", "valid": None, "max_size": 2}]  # the defaults: no expiry
    for cfg in cfgs:
        if fam == "unhashable" and cfg["cache"] == "lru":
            continue
        for hist in itertools.product(alpha, repeat=length):
            if hist[0][0] == "adv" or hist[-1][0] == "adv":
                continue  # covered by a shorter history / no observable effect
            c = dict(cfg, mode="seq", ops=[list(x) for x in hist])
            if isinstance(ret, str):
                c["ret"] = ret
            elif ret is not None:
                c["rets"] = ret
            yield c


def random_seq(rng):
    fam = rng.choice(sorted(FAMILIES))
    cache = rng.choice(["single", "lru"]) if fam != "unhashable" else "single"
    alpha = FAMILIES[fam] + (FAMILIES["pos"] if fam != "unhashable" and rng.random() < 0.3 else [])
    c = {"mode": "seq", "cache": cache, "valid": rng.choice([VALID, VALID, 0, 3, None])}
    if cache == "lru":
        c["max_size"] = rng.randint(1, 4)
    ops = []
    for _ in range(rng.randint(2, 24)):
        if rng.random() < 0.3:
            ops.append(["adv", rng.choice([0, 1, 2, 3, 4, 5, 7, VALID, VALID + 1])])
        else:
            ops.append(rng.choice(alpha))
    c["ops"] = ops
    if rng.random() < 0.4:
        c["costs"] = [[op_key(rng.choice(alpha)), rng.choice([1, 5, VALID, VALID + 1])]]
    r = rng.random()
    if r < 0.2:
        c["ret"] = rng.choice(RESULT_KINDS[1:])
    elif r < 0.4:
        c["rets"] = [[op_key(a), rng.choice(RESULT_KINDS)] for a in alpha if a[0] == "call" and rng.random() < 0.6]
    return c


def random_frames(rng):
    ops = []
    live = set()
    fam = rng.choice(sorted(SPEC_FAMILIES)) if rng.random() < 0.8 else None
    for _ in range(rng.randint(3, 16)):
        r = rng.random()
        if r < 0.25 or not live:
            i = rng.randrange(4)
            if fam is None:
                spec = rng.randrange(4)
            elif rng.random() < 0.85:
                spec = rng.choice(SPEC_FAMILIES[fam])
            else:
                spec = rng.choice(SPEC_FAMILIES[rng.choice(sorted(SPEC_FAMILIES))])
            ops.append(["new", i, spec])
            live.add(i)
        elif r < 0.35:
            i = rng.choice(sorted(live))
            ops.append(["drop", i])
            live.discard(i)
        else:
            ops.append([rng.choice(["names", "names", "count", "count", "shape", "str"]), rng.choice(sorted(live))])
    return {"mode": "frames", "ops": ops}


def exhaustive_frames():
    """every family of frame specifications: every ordered pair (the frame asked before, this frame), each kind of read,
    asked twice over (previous, this, previous, this) - the second round meets a cache that holds the OTHER frame's entry"""
    for fam in sorted(SPEC_FAMILIES):
        specs = SPEC_FAMILIES[fam]
        for i, a in enumerate(specs):
            for j, b in enumerate(specs):
                if i == j:
                    continue
                for rd in (("names", "names"), ("count", "count"), ("names", "count"), ("shape", "names")):
                    yield {"mode": "frames", "family": fam,
                           "ops": [["new", 0, a], ["new", 1, b], [rd[0], 0], [rd[0], 1], [rd[1], 0], [rd[1], 1], [rd[0], 0]]}
        yield {"mode": "frames", "family": fam,
               "ops": [["new", k, sp] for k, sp in enumerate(specs)] + [[rd, k] for rd in ("names", "count", "str") for k in (0, 1, 2, 3, 2, 1, 0)]}


def apply_alphabet(fam, nw, style):
    calls = FAMILIES[fam]
    out = []
    for j in range(nw):
        for c in calls[:2]:
            if style == "method":
                out.append(["call", j, c[1], c[2], 0])
            else:
                out.append(["call", j, c[1], c[2]])
    if style == "method":
        c = calls[0]
        out.append(["call", 0, c[1], c[2], 1])
    return out + [["adv", VALID + 1]]


def exhaustive_apply(length, thorough):
    """every way of applying each decorator x every history of `length` operations over (2 wrappers x 2 argument tuples
    + one clock advance past the validity period)"""
    for cache in ("single", "lru"):
        for style in STYLES:
            cfgs = [{"max_size": m} for m in ((1, 2) if cache == "lru" else (1,))]
            for cfg in cfgs:
                for fam in (("pos", "kw") if not thorough else ("pos", "kw", "mixed", "hc_pos_a", "equal")):
                    alpha = apply_alphabet(fam, 2, style)
                    for hist in itertools.product(alpha, repeat=length):
                        if hist[0][0] == "adv" or hist[-1][0] == "adv":
                            continue
                        if len({op[1] for op in hist if op[0] == "call"}) < 2 and style != "method":
                            continue  # one wrapper only: the sequential histories cover it
                        c = {"mode": "apply", "cache": cache, "style": style, "valid": VALID, "ops": [list(x) for x in hist]}
                        if cache == "lru":
                            c["max_size"] = cfg["max_size"]
                        yield c


def random_apply(rng):
    cache = rng.choice(["single", "lru"])
    style = rng.choice(STYLES)
    fam = rng.choice(sorted(f for f in FAMILIES if f != "unhashable" or cache == "single"))
    nfun = rng.choice([2, 2, 3])
    c = {"mode": "apply", "cache": cache, "style": style, "valid": rng.choice([VALID, VALID, 3, None]), "nfun": nfun}
    if cache == "lru":
        c["max_size"] = rng.randint(1, 3)
    if rng.random() < 0.3:
        c["ret"] = rng.choice(RESULT_KINDS)
    ops = []
    for _ in range(rng.randint(2, 16)):
        if rng.random() < 0.2:
            ops.append(["adv", rng.choice([1, 5, VALID, VALID + 1])])
        else:
            k = rng.choice(FAMILIES[fam])
            op = ["call", rng.randrange(nfun), k[1], k[2]]
            if style == "method":
                op.append(rng.randrange(2))
            ops.append(op)
    c["ops"] = ops
    return c


def conc_scenarios(thorough):
    """(scenario, exhaustive?) — two callers with different / equal arguments on warm and cold caches."""
    x, y, z = P("x"), P("y"), P("z")
    kx = ["call", ["x"], [["k", 1]]]
    out = []
    for i, (pre, thr) in enumerate((([y], [x, x]), ([y], [x, y]), ([], [x, y]), ([x], [x, y]), ([y], [kx, x]), ([x], [x, x]))):
        out.append(({"mode": "conc", "cache": "single", "valid": VALID, "pre": pre, "threads": thr, "post": [x, y]}, thorough or i < 2))
    out.append(({"mode": "conc", "cache": "single", "valid": VALID, "pre": [y, ["adv", 6]], "threads": [x, y], "post": [["adv", 5], x, y],
                 "costs": [[op_key(x), 6]]}, thorough))
    out.append(({"mode": "conc", "cache": "single", "frames": True, "pre": [P(1)], "threads": [P(0), P(1)]}, True))
    out.append(({"mode": "conc", "cache": "single", "frames": True, "pre": [P(1)], "threads": [P(0), P(0)]}, thorough))
    for m, pre, thr in ((1, [x], [x, y]), (2, [x, y], [x, z]), (2, [], [x, y]), (1, [x], [x, x]), (2, [x, y], [y, x])):
        # the LRU wrapper executes 10-15 lines per call: C(25,12) schedules per scenario, enumerated with a pre-emption bound
        out.append(({"mode": "conc", "cache": "lru", "valid": VALID, "max_size": m, "pre": pre, "threads": thr, "post": [x, y, z]}, False))
    # argument pairs that are unequal but hash-equal in CPython, positional / keyword / mixed
    a, b = P(-1), P(-2)
    ka, kb = ["call", [], [["x", -1]]], ["call", [], [["x", -2]]]
    ma, mb = ["call", [0], [["x", BIG]]], ["call", [BIG], [["x", 0]]]
    for pre, thr in (([a], [b, a]), ([ka], [kb, ka]), ([ma], [mb, ma])):
        out.append(({"mode": "conc", "cache": "single", "valid": VALID, "pre": pre, "threads": thr, "post": [thr[0], thr[1]]}, thorough))
        out.append(({"mode": "conc", "cache": "lru", "valid": VALID, "max_size": 2, "pre": pre, "threads": thr, "post": [thr[0], thr[1]]}, False))
    out.append(({"mode": "conc", "cache": "lru", "valid": VALID, "max_size": 2, "pre": [x, ["adv", 6], y, ["adv", 5]], "threads": [x, z],
                 "post": [y, x], "costs": [[op_key(z), 6]]}, False))
    # the first two LRU scenarios (the lock: a hit that loses its entry to a concurrent insert + evict; two misses) come FIRST:
    # under load the quick tier's budget used to run out before any LRU scenario was reached
    first = [sc for sc in out if sc[0]["cache"] == "lru"][:2]
    return first + [sc for sc in out if not any(sc is f for f in first)]


def conc3_scenarios():
    x, y, z = P("x"), P("y"), P("z")
    return [
        {"mode": "conc", "cache": "single", "valid": VALID, "pre": [y], "threads": [x, y, x], "post": [x, y]},
        {"mode": "conc", "cache": "single", "valid": VALID, "pre": [], "threads": [x, y, z], "post": [z]},
        {"mode": "conc", "cache": "single", "frames": True, "pre": [P(1)], "threads": [P(0), P(1), P(3)]},
        {"mode": "conc", "cache": "lru", "valid": VALID, "max_size": 2, "pre": [x, y], "threads": [x, y, z], "post": [x, y, z]},
        {"mode": "conc", "cache": "lru", "valid": VALID, "max_size": 1, "pre": [x], "threads": [x, y, z], "post": [z]},
    ]


# --------------------------------------------------------------------------- entry points


def _degraded(ctx):
    d = ctx.notes.get("extraction_degraded") or []
    keys = [x.split(" ")[0] for x in d]
    return {"single": "c19.single" in keys, "lru": "c19.lru" in keys}


def _batched(ctx, gen, fn, size=4000):
    batch, n = [], 0
    for c in gen:
        batch.append(c)
        if len(batch) >= size:
            fn(ctx, batch)
            n += len(batch)
            batch = []
            if ctx.time_left() < 5:
                return n, False
    fn(ctx, batch)
    return n + len(batch), True


def run(ctx):
    thorough = ctx.tier == "thorough"
    if thorough:
        ctx.budget_s = min(ctx.budget_s, 540)  # the whole run stays under ten minutes with build, audit and leanchecker
    ctx.note("rule", "seq: call/advance histories on both caches, non-trivial = at least two calls; frames: accesses to "
             "DataFrame.column_names/columncount, non-trivial = at least two reads; conc: one complete line-level schedule of N real "
             "threads per case, non-trivial = at least two threads actually interleaved; lifetime: rounds of create -> use -> drop -> create a "
             "different object at the same address -> use, non-trivial = at least one round; distinct by canonical JSON of the case")
    ctx.note("assumptions", [
        "one bytecode-level load/store of a closure cell or dict slot is atomic under the GIL; pre-emption below source-line "
        "granularity (CPython 'line' trace events) is not explored",
        "lines of the wrapper that touch only locals commute with other threads' steps: the model has no step for them "
        "(the real threads are still pre-empted there)",
        "argument values are drawn from a domain on which Python equality and structural equality coincide",
    ])
    info = gen_info()
    deg = _degraded(ctx)
    # 1. corpus: the witness of the repaired defect, boundary histories
    corpus_cases(ctx, deg, info)
    # 2. exhaustive sequential histories
    import time as _time

    phase = {}
    t_ = _time.time()
    scope = []
    complete = True
    for fam in sorted(FAMILIES):
        length = ctx.scale(5 if fam == "pos" else 4, 6 if fam in ("pos", "kw") else 5)
        if fam in LOOKALIKE:
            length = ctx.scale(3, 4)  # two calls already tell a look-alike apart; eleven families
        n, ok = _batched(ctx, exhaustive_seq(fam, length, thorough), evaluate_seq)
        scope.append("%s: length %d (%d histories)" % (fam, length, n))
        complete = complete and ok
    n, ok = _batched(ctx, ({"mode": "seq", "cache": "lru", "valid": VALID, "max_size": m, "ops": [list(x) for x in hist]}
                           for m in (3, 4) for hist in itertools.product(WIDE, repeat=ctx.scale(5, 6))), evaluate_seq)
    scope.append("wide (5 keys, max_size 3 and 4, no advance): length %d (%d histories)" % (ctx.scale(5, 6), n))
    complete = complete and ok
    # 2b. the same histories with results that are None / falsy / constants without identity (a wrapper must ask whether an
    # entry is HELD, never whether the cached result is None or true)
    for fam in ("pos", "kw", "edge"):
        mixed = [[op_key(FAMILIES[fam][0]), "none"], [op_key(FAMILIES[fam][1]), "zero"]]
        for ret in ("none", "falsy", mixed) + (("zero", "empty", "false", "etuple") if thorough or fam == "pos" else ()):
            length = ctx.scale(4 if fam == "pos" else 3, 4)
            n, ok = _batched(ctx, exhaustive_seq(fam, length, thorough, ret=ret), evaluate_seq)
            scope.append("%s, results %s: length %d (%d histories)" % (fam, ret if isinstance(ret, str) else "none/zero/object", length, n))
            complete = complete and ok
    # 2b'. wrapped functions that FAIL for some arguments: the failure propagates and costs no held entry
    rcases = list(exhaustive_raise(ctx.scale(4, 5)))
    evaluate_raise(ctx, rcases)
    scope.append("failing wrapped function (x, y, z fails, advance past the validity; both caches, max_size 1-2): length %d (%d histories)" % (ctx.scale(4, 5), len(rcases)))
    ctx.note("exhaustive_scope_seq", scope)
    phase["seq_exhaustive_s"] = round(_time.time() - t_, 1)
    # 2c. the ways a decorator is applied: several wrappers, each must have its own entries
    t_ = _time.time()
    length = ctx.scale(3, 4)
    n, ok = _batched(ctx, exhaustive_apply(length, thorough), evaluate_apply, size=1500)
    ctx.note("exhaustive_scope_apply", "styles %s x both caches x histories of length %d over 2 wrappers x 2 argument tuples + advance: %d cases%s"
             % ("/".join(STYLES), length, n, "" if ok else " (cut short by the time budget)"))
    complete = complete and ok
    phase["apply_exhaustive_s"] = round(_time.time() - t_, 1)
    # 2d. every cached use site in orso (found by parsing the sources and by scanning the imported package for the wrappers'
    # code objects), driven through DataFrame's public API
    t_ = _time.time()
    use_site_notes(ctx, info)
    evaluate_frames(ctx, list(exhaustive_frames()))
    phase["frames_exhaustive_s"] = round(_time.time() - t_, 1)
    # 2e. every cached use site on DataFrame: use -> mutate the receiver's observable state -> use again, compared with the
    # undecorated function; also receivers that share one schema object / equal schemas / a re-created receiver
    t_ = _time.time()
    mcases = list(exhaustive_mutate(None))
    evaluate_mutate(ctx, mcases)
    ctx.note("mutate_scope", "%d sequences (read, mutate the schema list the caller holds / the rows, read again; one receiver, two receivers "
             "sharing a schema object, equal schemas, re-created receiver, two use sites) over every cached property of DataFrame" % len(mcases))
    ctx.note("use_sites_stale_after_mutation_of_the_same_receiver (same argument object: not a violation of C19, recorded only)", sorted(_STALE_SITES))
    phase["mutate_s"] = round(_time.time() - t_, 1)
    # 2f. keys that outlive their object: argument objects / frames that are created, used and DROPPED between calls (the next
    # one is allocated at the same address); every cached property of DataFrame and both decorators
    t_ = _time.time()
    lcases = list(exhaustive_lifetime(thorough))
    evaluate_lifetime(ctx, lcases)
    ctx.note("lifetime_scope", "%d sessions (create -> use -> drop every reference -> create a different one with the same shape of allocation -> use; "
             "frame recipes %s x sites x collector on/off; decorators x argument shapes %s), each repeated and judged on every round"
             % (len(lcases), "/".join(LIFETIME_FRAME_RECIPES), "/".join(LIFETIME_SHAPES)))
    ctx.note("lifetime_address_reuse_measured", _LIFETIME_STATS)
    phase["lifetime_s"] = round(_time.time() - t_, 1)
    facts = info.get("c19.site_facts") or []
    ctx.note("use_sites_covered_by_the_per_site_theorem", sorted(f["name"] for f in facts if f["decorator"] == "single_item_cache"
                                                                and f["arity"] == 1 and not f["receiver_defines_eq"]))
    ctx.note("use_sites_left_to_the_general_theorems_and_correspondence", sorted(f["name"] for f in facts if not (
        f["decorator"] == "single_item_cache" and f["arity"] == 1 and not f["receiver_defines_eq"])))
    ctx.note("use_sites_whose_result_reads_state_of_the_receiver", sorted("%s: %s" % (f["name"], ",".join(f["reads_self_state"])) for f in facts if f["reads_self_state"]))
    t_ = _time.time()
    # 3. concurrent: all schedules of two callers (a slice of the budget stays reserved for the random phase)
    reserve = ctx.scale(5, 75)
    ctx.budget_s -= reserve
    conc_scope = []
    for base, full in conc_scenarios(thorough):
        k = base["cache"] + ("-frames" if base.get("frames") else "")
        if full:
            n, ok = enumerate_conc(ctx, base, deg[base["cache"]], info, limit=ctx.scale(1500, 400000))
            conc_scope.append("%s pre=%d threads=%d: %s %d schedules" % (k, len(base.get("pre", [])), len(base["threads"]), "ALL" if ok else "first", n))
        else:
            n, ok = enumerate_conc(ctx, base, deg[base["cache"]], info, limit=ctx.scale(300, 12000), max_preemptions=ctx.scale(2, 3))
            conc_scope.append("%s pre=%d threads=%d: %s %d schedules with bounded pre-emptions" % (k, len(base.get("pre", [])), len(base["threads"]), "all" if ok else "first", n))
            sample_conc(ctx, base, deg[base["cache"]], info, ctx.scale(60, 1500))
        complete = complete and ok
    for base in conc3_scenarios():
        sample_conc(ctx, base, deg[base["cache"]], info, ctx.scale(80, 1500))
    ctx.note("exhaustive_scope_conc", conc_scope)
    ctx.budget_s += reserve
    phase["conc_s"] = round(_time.time() - t_, 1)
    ctx.exhaustive = False
    # 4. random
    t_ = _time.time()
    rng = ctx.rng
    _batched(ctx, (random_seq(rng) for _ in range(ctx.scale(3000, 60000))), evaluate_seq, size=ctx.scale(4000, 2000))
    _batched(ctx, (random_apply(rng) for _ in range(ctx.scale(1500, 30000))), evaluate_apply, size=1500)
    _batched(ctx, (random_frames(rng) for _ in range(ctx.scale(300, 3000))), evaluate_frames, size=100)
    phase["random_s"] = round(_time.time() - t_, 1)
    ctx.note("phase_seconds", phase)


def corpus_cases(ctx, deg, info):
    x, y = P("x"), P("y")
    # the schedule that served f('y') to a caller of f('x') on the four-slot wrapper (fixed by the publish-one-tuple commit)
    race = {"mode": "conc", "cache": "single", "valid": VALID, "pre": [y], "threads": [x, x], "post": [x],
            "schedule": [1, 1, 1, 1, 0, 0, 0, 0, 0, 1, 1, 1, 1]}
    evaluate_conc(ctx, [race], deg["single"], info)
    for sc in ([1] * 4 + [0] * 6 + [1] * 6, [1] * 3 + [0] * 6 + [1] * 6, [0] * 2 + [1] * 5 + [0] * 6):
        evaluate_conc(ctx, [dict(race, schedule=sc), {"mode": "conc", "cache": "single", "frames": True, "pre": [P(1)],
                                                      "threads": [P(1), P(0)], "schedule": sc}], deg["single"], info)
    seqs = [
        {"mode": "seq", "cache": "single", "valid": VALID, "ops": [x, ["adv", VALID], x, ["adv", 1], x]},
        {"mode": "seq", "cache": "lru", "valid": VALID, "max_size": 2, "ops": [x, ["adv", VALID], x, ["adv", 1], x, y, P("z"), x]},
        {"mode": "seq", "cache": "lru", "valid": VALID, "max_size": 2, "ops": [y, ["adv", 8], x, ["adv", 1], y, ["adv", 2], P("z"), ["adv", 1], x]},
    ]
    evaluate_seq(ctx, seqs)
    evaluate_frames(ctx, [{"mode": "frames", "ops": [["new", 0, 0], ["new", 1, 1], ["names", 0], ["names", 1], ["count", 0], ["count", 1],
                                                     ["drop", 0], ["new", 2, 3], ["names", 2], ["names", 1], ["count", 2]]}])


def intensify(ctx):
    info = gen_info()
    deg = _degraded(ctx)
    ctx.budget_s = max(ctx.budget_s, 60)
    for base, _ in conc_scenarios(False):
        enumerate_conc(ctx, base, deg[base["cache"]], info, limit=20000)
        if ctx.violations:
            return
    rng = ctx.rng
    _batched(ctx, (random_seq(rng) for _ in range(20000)), evaluate_seq)
    if ctx.violations:
        return
    _batched(ctx, (random_apply(rng) for _ in range(10000)), evaluate_apply, size=1500)
    evaluate_frames(ctx, [random_frames(rng) for _ in range(2000)])


def replay(ctx, case):
    info = gen_info()
    deg = _degraded(ctx)
    mode = case.get("mode")
    if mode == "seq":
        evaluate_seq(ctx, [case])
    elif mode == "frames":
        evaluate_frames(ctx, [case])
    elif mode == "apply":
        evaluate_apply(ctx, [case])
    elif mode == "mutate":
        evaluate_mutate(ctx, [case])
    elif mode == "raise":
        evaluate_raise(ctx, [case])
    elif mode == "lifetime":
        evaluate_lifetime(ctx, [case])
    elif mode == "conc":
        evaluate_conc(ctx, [case], deg[case["cache"]], info)
    else:
        raise InfraError("unknown case mode %r" % (mode,))


# C19-K01 (the LRU wrapper's bookkeeping exceptions under concurrency) is repaired (C19-F02): no known finding is left,
# a call that raises KeyError / RuntimeError is a VIOLATION again.
KNOWN_PREDICATES = {}
