"""C19 — Memoised functions return only results computed for the same arguments.

Three kinds of cases (all JSON):

* mode "seq":  a history of calls / clock advances on `single_item_cache` or
  `lru_cache_with_expiry` (clock patched through `orso.tools.time`), compared event by
  event with Model/Cache.lean (statement-level machine AND declarative spec) and with a
  Python mirror of the specification; oracle on the implementation's own outputs.
* mode "frames": accesses to DataFrame.column_names / columncount on several frames
  (the real shared caches); oracle: every access returns that frame's own names / count.
* mode "conc": N real threads call the real wrapper under the deterministic line-granular
  scheduler (harness/sched.py) following a stored schedule; the schedule is projected onto
  the extracted step lines and replayed on the Lean small-step model; outcomes, executed
  step kinds and the invocation log are compared; oracle: every returned value was
  produced by the wrapped function for the caller's own arguments.
"""
import gc
import itertools
import json
import os

from .. import core, sched, wire
from ..core import InfraError, shrink

T0 = 1000
VALID = 10


# --------------------------------------------------------------------------- implementation side


class _Clock:
    now = T0

    def time(self):
        return float(self.now)

    def __getattr__(self, name):  # anything else orso.tools wants from `time`
        import time as _t

        return getattr(_t, name)


CLOCK = _Clock()


class Res:
    """What the wrapped function returns: a fresh object per invocation."""

    __slots__ = ("id", "key")

    def __init__(self, i, key):
        self.id = i
        self.key = key


def pyval(v):
    """JSON form of an argument value -> a FRESH Python value ({"t": [...]} is a tuple, a list is a list)."""
    if isinstance(v, dict) and list(v) == ["t"]:
        return tuple(pyval(x) for x in v["t"])
    if isinstance(v, list):
        return [pyval(x) for x in v]
    if isinstance(v, int) and not isinstance(v, bool) and abs(v) > 256:
        return int(str(v))  # equal but not identical to any earlier occurrence
    return v


def norm(v):
    """Python value -> canonical form in which Python-EQUAL values coincide (True == 1 == 1.0) and tuples differ from lists."""
    if isinstance(v, bool):
        return int(v)
    if isinstance(v, float) and v == v and v not in (float("inf"), float("-inf")) and v == int(v):
        return int(v)
    if isinstance(v, tuple):
        return {"t": [norm(x) for x in v]}
    if isinstance(v, list):
        return [norm(x) for x in v]
    return v


def canon_key(args, kwargs_pairs):
    """Key of a call as the property sees it: equal positional and keyword arguments (Python equality, keyword order irrelevant)."""
    return [[norm(a) for a in args], sorted(([k, norm(v)] for k, v in kwargs_pairs), key=lambda p: p[0])]


def op_key(op):
    return canon_key([pyval(a) for a in op[1]], [(k, pyval(v)) for k, v in op[2]])


class Patched:
    def __enter__(self):
        import orso.tools as T

        self.T = T
        self.old = T.time
        T.time = CLOCK
        return T

    def __exit__(self, *a):
        self.T.time = self.old


class Wrapped:
    def __init__(self, T, case):
        CLOCK.now = T0
        self.log = []
        costs = {json.dumps(k): d for k, d in case.get("costs", [])}
        log = self.log

        def F(*args, **kwargs):
            key = canon_key(args, kwargs.items())
            r = Res(len(log), key)
            log.append((key, CLOCK.now))
            CLOCK.now += costs.get(json.dumps(key), 0)
            return r

        kw = {}
        if case.get("valid") is not None:
            kw["valid_for_seconds"] = case["valid"]
        if case["cache"] == "single":
            self.w = T.single_item_cache(F, **kw)
        else:
            self.w = T.lru_cache_with_expiry(F, max_size=case["max_size"], **kw)

    def call(self, op):
        args = tuple(pyval(a) for a in op[1])
        kwargs = dict((k, pyval(v)) for k, v in op[2])
        try:
            r = self.w(*args, **kwargs)
        except Exception as e:
            return ["err", type(e).__name__]
        if isinstance(r, Res):
            return ["ok", r.id]
        return ["other", repr(r)[:60]]


def fresh(valid, now, t):
    return valid is None or now - t <= valid


def run_seq_impl(case):
    with Patched() as T:
        w = Wrapped(T, case)
        evs = []
        for op in case["ops"]:
            if op[0] == "adv":
                CLOCK.now += op[1]
                continue
            n0, now = len(w.log), CLOCK.now
            out = w.call(op)
            evs.append({"key": op_key(op), "now": now, "out": out, "invoked": len(w.log) - n0})
        return evs, [[k, t] for k, t in w.log]


def mirror_seq(case):
    """The specification, written directly (no implementation involved): list of [ret, invoked, now]."""
    now, log, evs = T0, [], []
    costs = {json.dumps(k): d for k, d in case.get("costs", [])}
    valid, single = case.get("valid"), case["cache"] == "single"
    held = []  # [key, ret] least recently used first; single: at most the last call's
    for op in case["ops"]:
        if op[0] == "adv":
            now += op[1]
            continue
        key = op_key(op)
        held = [h for h in held if fresh(valid, now, log[h[1]][1])]
        hit = [h for h in held if h[0] == key]
        if hit:
            ret = hit[0][1]
            held = [h for h in held if h[0] != key] + [hit[0]]
            evs.append([ret, False, now])
        else:
            ret = len(log)
            log.append([key, now])
            evs.append([ret, True, now])
            held = held + [[key, ret]]
            now += costs.get(json.dumps(key), 0)
        cap = 1 if single else case["max_size"]
        if single:
            held = [[key, ret]]  # "the last call only": what the last call returned is what is held
        else:
            held = held[len(held) - cap:] if len(held) > cap else held
    return evs, log


def oracle_seq(case, evs, log):
    """The property on the implementation's own outputs. Returns clause or None."""
    valid, single = case.get("valid"), case["cache"] == "single"
    held = []
    for e in evs:
        if e["out"][0] == "err":
            return "call raised %s" % e["out"][1]
        if e["out"][0] != "ok" or not (0 <= e["out"][1] < len(log)):
            return "returned an object the wrapped function did not produce"
        ret = e["out"][1]
        if log[ret][0] != e["key"]:
            return "result computed for different arguments"
        if not fresh(valid, e["now"], log[ret][1]):
            return "result older than the validity period"
        if e["invoked"] not in (0, 1):
            return "wrapped function invoked more than once"
        held = [h for h in held if fresh(valid, e["now"], log[h[1]][1])]
        expect_hit = any(h[0] == e["key"] for h in held)
        if expect_hit and e["invoked"]:
            return "wrapped function invoked although an unexpired entry for equal arguments is held"
        if not expect_hit and not e["invoked"]:
            return "wrapped function not invoked although no unexpired entry is held"
        if e["invoked"] and ret != len(log) - 1 and log[ret][1] != e["now"]:
            return "miss returned an old result"
        if single:
            held = [[e["key"], ret]]
        else:
            held = [h for h in held if h[0] != e["key"]] + [[e["key"], ret]]
            if len(held) > case["max_size"]:
                held = held[len(held) - case["max_size"]:]
    return None


def model_line_seq(case):
    ops = [["call", op_key(op)] if op[0] == "call" else ["adv", op[1]] for op in case["ops"]]
    return "C19 seq " + wire.line(case["cache"], case.get("valid"), case.get("max_size", 1), T0, case.get("costs", []), ops)


def valid_seq(c):
    try:
        if c.get("mode") != "seq" or c["cache"] not in ("single", "lru") or not c["ops"]:
            return False
        if c["cache"] == "lru" and not (isinstance(c.get("max_size"), int) and c["max_size"] >= 1):
            return False
        for op in c["ops"]:
            if op[0] == "adv":
                if not (isinstance(op[1], int) and op[1] >= 0 and len(op) == 2):
                    return False
            elif op[0] == "call":
                if len(op) != 3 or not isinstance(op[1], list) or not isinstance(op[2], list):
                    return False
                if any(not (isinstance(p, list) and len(p) == 2 and isinstance(p[0], str) and p[0]) for p in op[2]):
                    return False
                if len({p[0] for p in op[2]}) != len(op[2]):
                    return False
            else:
                return False
        return True
    except Exception:
        return False


def _norm(clause):
    return None if clause is None else "".join(ch for ch in clause if not ch.isdigit())


def evaluate_seq(ctx, cases):
    mouts = ctx.model.batch([model_line_seq(c) for c in cases])
    for c, mo in zip(cases, mouts):
        if not mo.startswith("ok "):
            raise InfraError("model rejected case %r: %r" % (c, mo))
        m_evs, m_log, s_evs = wire.dec_all(mo[3:])
        mir_evs, mir_log = mirror_seq(c)
        if m_evs != mir_evs or m_log != mir_log or s_evs != mir_evs:
            raise InfraError("Lean model and the Python mirror of the specification differ on %r: %r / %r / %r" % (c, m_evs, s_evs, mir_evs))
        evs, log = run_seq_impl(c)
        ncalls = sum(1 for op in c["ops"] if op[0] == "call")
        ctx.case(c, ncalls >= 2)
        ctx.hit("seq:" + c["cache"])
        ctx.hit("seq:len:%d" % min(len(c["ops"]), 9))
        for e in evs:
            ctx.hit("seq:" + ("miss" if e["invoked"] else "hit"))
        clause = oracle_seq(c, evs, log)
        impl = [[e["out"][1] if e["out"][0] == "ok" else e["out"], bool(e["invoked"]), e["now"]] for e in evs]
        if clause is not None:
            def still(c2):
                if not valid_seq(c2):
                    return False
                e2, l2 = run_seq_impl(c2)
                return _norm(oracle_seq(c2, e2, l2)) == _norm(clause)

            c_min = shrink(c, still) if not ctx.replaying else c
            e2, l2 = run_seq_impl(c_min)
            ctx.fail(c_min, oracle_seq(c_min, e2, l2) or clause, impl={"events": e2, "log": l2}, model=m_evs if c_min is c else None)
        elif impl != m_evs or log != m_log:
            ctx.disagree(c, {"events": impl, "log": log}, {"events": m_evs, "log": m_log})


# --------------------------------------------------------------------------- DataFrame.column_names

SCHEMAS = [["a", "b"], ["c"], ["a", "b"], ["x", "y", "z"]]


def run_frames_impl(case):
    from orso import DataFrame

    frames = {}
    outs = []
    for op in case["ops"]:
        k = op[0]
        if k == "new":
            frames[op[1]] = DataFrame(rows=[], schema=list(SCHEMAS[op[2] % len(SCHEMAS)]))
            outs.append(["unit"])
        elif k == "drop":
            frames.pop(op[1], None)
            gc.collect()
            outs.append(["unit"])
        elif k in ("names", "count"):
            df = frames.get(op[1])
            if df is None:
                outs.append(["unit"])
                continue
            try:
                v = df.column_names if k == "names" else df.columncount
                outs.append(["ok", list(v) if k == "names" else v, list(df._schema)])
            except Exception as e:
                outs.append(["err", type(e).__name__])
    return outs


def oracle_frames(case, outs):
    for op, out in zip(case["ops"], outs):
        if out[0] == "err":
            return "%s raised %s" % (op[0], out[1])
        if out[0] == "ok":
            want = out[2] if op[0] == "names" else len(out[2])
            if out[1] != want:
                return "frame was served another frame's cached column %s" % op[0]
    return None


def valid_frames(c):
    try:
        return c.get("mode") == "frames" and all(
            op[0] in ("new", "drop", "names", "count") and isinstance(op[1], int) and (op[0] != "new" or isinstance(op[2], int)) for op in c["ops"]
        ) and bool(c["ops"])
    except Exception:
        return False


def evaluate_frames(ctx, cases):
    for c in cases:
        outs = run_frames_impl(c)
        ctx.case(c, sum(1 for o in outs if o[0] == "ok") >= 2)
        ctx.hit("frames")
        clause = oracle_frames(c, outs)
        if clause is not None:
            def still(c2):
                return valid_frames(c2) and _norm(oracle_frames(c2, run_frames_impl(c2))) == _norm(clause)

            c_min = shrink(c, still) if not ctx.replaying else c
            ctx.fail(c_min, clause, impl=run_frames_impl(c_min))


# --------------------------------------------------------------------------- concurrent cases


def gen_info():
    p = os.path.join(core.LEAN, "OrsoVerif", "Generated", "generated.json")
    return json.load(open(p))


def wrapper_codes(T):
    s = T.single_item_cache(lambda: None)
    l = T.lru_cache_with_expiry(lambda: None)
    return {"single": s.__code__, "lru": l.__code__}


def run_conc_impl(case, schedule=None, policy=None):
    """Run the pre phase sequentially, the threads under the scheduler, the post phase sequentially."""
    with Patched() as T:
        code = wrapper_codes(T)[case["cache"]]
        if case.get("frames"):
            return _run_conc_frames(case, code, schedule, policy)
        w = Wrapped(T, case)
        pre = []
        for op in case.get("pre", []):
            if op[0] == "adv":
                CLOCK.now += op[1]
            else:
                pre.append(w.call(op))
        thunks = [(lambda op=op: w.call(op)) for op in case["threads"]]
        res = sched.run(thunks, schedule or [], [code], timeout=5.0, policy=policy)
        outs = []
        for o in res["outcomes"]:
            if o is None:
                outs.append(None)
            elif o[0] == "ok":
                outs.append(o[1])
            else:
                outs.append(["err", o[1]])
        post = []
        for op in case.get("post", []):
            if op[0] == "adv":
                CLOCK.now += op[1]
            else:
                post.append(w.call(op))
        return {"pre": pre, "outs": outs, "post": post, "log": [[k, t] for k, t in w.log], "trace": res["trace"],
                "alive": res["alive"], "stuck": res["stuck"], "bad_prefix": res["bad_prefix"]}


def _run_conc_frames(case, code, schedule, policy):
    """Threads read DataFrame.column_names of different frames (the real shared cache)."""
    from orso import DataFrame

    frames = [DataFrame(rows=[], schema=list(SCHEMAS[i % len(SCHEMAS)])) for i in range(4)]
    pre = [list(frames[op[1][0]].column_names) for op in case.get("pre", []) if op[0] == "call"]
    thunks = [(lambda op=op: list(frames[op[1][0]].column_names)) for op in case["threads"]]
    res = sched.run(thunks, schedule or [], [code], timeout=5.0, policy=policy)
    outs = []
    for o, op in zip(res["outcomes"], case["threads"]):
        if o is None:
            outs.append(None)
        elif o[0] == "ok":
            outs.append(["names", o[1], list(frames[op[1][0]]._schema)])
        else:
            outs.append(["err", o[1]])
    return {"pre": pre, "outs": outs, "post": [], "log": None, "trace": res["trace"], "alive": res["alive"],
            "stuck": res["stuck"], "bad_prefix": res["bad_prefix"]}


def oracle_conc(case, r):
    if r["stuck"]:
        return None
    if case.get("frames"):
        for o in r["outs"]:
            if o is not None and o[0] == "names" and o[1] != o[2]:
                return "frame was served another frame's cached column names"
            if o is not None and o[0] == "err":
                return "call raised %s" % o[1]
        return None
    log = r["log"]
    ops = [op for op in case.get("pre", []) if op[0] == "call"], case["threads"], [op for op in case.get("post", []) if op[0] == "call"]
    for opl, outs in zip(ops, (r["pre"], r["outs"], r["post"])):
        for op, o in zip(opl, outs):
            if o is None:
                continue
            if o[0] == "ok":
                if not (0 <= o[1] < len(log)) or log[o[1]][0] != op_key(op):
                    return "result computed for different arguments"
            elif o[0] == "other":
                return "returned an object the wrapped function did not produce"
    for op, o in zip(case["threads"], r["outs"]):
        if o is not None and o[0] == "err":
            return "call raised %s" % o[1]
    return None


def model_conc(ctx, case, r, info):
    """Model line for the schedule the implementation actually followed (projected on step lines)."""
    if case["cache"] == "single":
        step_lines = info["c19.single"]["linenos"]
        kinds = {ln: i for i, ln in enumerate(step_lines)}
    else:
        kinds = {ln: k for ln, k in info["c19.lru"]["lines"]}
    keys, steps = [], []
    n_pre = 0
    for op in case.get("pre", []):
        if op[0] == "adv":
            steps.append([op[1]])
        else:
            keys.append(op_key(op))
            steps.append(["f", n_pre])
            n_pre += 1
    for op in case["threads"]:
        keys.append(op_key(op))
    want_trace = []
    for tid, ln in r["trace"]:
        if ln in kinds:
            steps.append(n_pre + tid)
            want_trace.append(kinds[ln])
    j = n_pre + len(case["threads"])
    for op in case.get("post", []):
        if op[0] == "adv":
            steps.append([op[1]])
        else:
            keys.append(op_key(op))
            steps.append(["f", j])
            j += 1
    if case["cache"] == "single":
        mkeys = [[k[0], k[1]] for k in keys]
        costs = case.get("costs", [])
    else:
        mkeys, costs = keys, case.get("costs", [])
    line = "C19 conc " + wire.line(case["cache"], "extracted", case.get("valid"), case.get("max_size", 1), T0, costs, mkeys, steps)
    return line, want_trace, n_pre


def compare_conc(case, r, mo, want_trace, n_pre):
    """None when implementation and model agree, else a description."""
    if not mo.startswith("ok "):
        raise InfraError("model rejected concurrent case %r: %r" % (case, mo))
    m = wire.dec_all(mo[3:])
    if m[0] == "bad-schedule":
        return {"what": "the model cannot execute the schedule the implementation followed", "model": m}
    _, m_outs, m_trace, m_log = m
    nthr = len(case["threads"])
    impl_outs = r["pre"] + r["outs"] + r["post"]
    if case.get("frames"):
        # the model's returned invocation index -> the frame it was computed for
        def frame_of(o):
            return None if o is None or o[0] != "ok" else m_log[o[1]][0][0][0]

        got = [None if o is None or o[0] != "names" else o[1] for o in r["outs"]]
        exp = [None if frame_of(o) is None else list(SCHEMAS[frame_of(o) % len(SCHEMAS)]) for o in m_outs[n_pre:n_pre + nthr]]
        if got != exp:
            return {"what": "column names differ from the model's", "impl": got, "model": exp}
        return None
    m_tr = [x for x in m_trace if x is not None]
    if [list(o) if o is not None else None for o in impl_outs] != m_outs:
        return {"what": "outcomes differ", "impl": impl_outs, "model": m_outs}
    if m_tr != want_trace:
        return {"what": "executed step lines differ", "impl": want_trace, "model": m_tr}
    if r["log"] != m_log:
        return {"what": "invocation logs differ", "impl": r["log"], "model": m_log}
    return None


def valid_conc(c):
    try:
        if c.get("mode") != "conc" or c["cache"] not in ("single", "lru") or not c["threads"]:
            return False
        if c["cache"] == "lru" and not (isinstance(c.get("max_size"), int) and c["max_size"] >= 1):
            return False
        for op in c.get("pre", []) + c.get("post", []):
            if op[0] == "adv":
                if not (isinstance(op[1], int) and op[1] >= 0):
                    return False
            elif not (op[0] == "call" and len(op) == 3):
                return False
        if any(not (op[0] == "call" and len(op) == 3) for op in c["threads"]):
            return False
        n = len(c["threads"])
        return all(isinstance(t, int) and 0 <= t < n for t in c.get("schedule", []))
    except Exception:
        return False


def judge_conc(ctx, case, r, degraded, info, pending):
    """Oracle now; queue the model comparison (batched)."""
    nthr = len(case["threads"])
    ctx.case(case, nthr >= 2 and len(set(t for t, _ in r["trace"])) >= 2)
    ctx.hit("conc:%s:%d-threads" % (case["cache"] + ("-frames" if case.get("frames") else ""), nthr))
    if r["stuck"]:
        ctx.hit("conc:stuck")
        ctx.disagree(case, {"stuck": True, "trace": r["trace"]}, None, what="scheduler timed out (a thread blocked outside the scheduler's control)")
        return
    clause = oracle_conc(case, r)
    if clause is not None:
        ctx.hit("conc:oracle:" + _norm(clause))
        verdict = ctx.fail(case, clause, impl={"outs": r["outs"], "pre": r["pre"], "post": r["post"], "log": r["log"], "trace": r["trace"]})
        if verdict != "known":
            return
    if not degraded:
        pending.append((case, r))


def flush_conc(ctx, pending, info):
    if not pending:
        return
    built = [model_conc(ctx, c, r, info) for c, r in pending]
    mouts = ctx.model.batch([b[0] for b in built])
    for (c, r), (_, want, n_pre), mo in zip(pending, built, mouts):
        d = compare_conc(c, r, mo, want, n_pre)
        if d is not None:
            ctx.disagree(c, d.get("impl", r["outs"]), d.get("model"), what=d["what"])
    del pending[:]


def enumerate_conc(ctx, base, degraded, info, limit=None, max_preemptions=None):
    """All schedules (optionally bounded) of `base`'s threads, by backtracking over real runs."""
    with Patched() as T:
        code = wrapper_codes(T)[base["cache"]]
    stack = [[]]
    n = 0
    pending = []
    complete = True
    while stack:
        if (limit is not None and n >= limit) or ctx.time_left() < 3:
            complete = False
            break
        prefix = stack.pop()
        r = run_conc_impl(base, schedule=prefix)
        s = [t for t, _ in r["trace"]]
        case = dict(base, schedule=s)
        judge_conc(ctx, case, r, degraded, info, pending)
        n += 1
        if r["stuck"] or r["bad_prefix"] is not None:
            continue
        for pos in range(len(s) - 1, len(prefix) - 1, -1):
            for alt in r["alive"][pos]:
                if alt != s[pos]:
                    cand = s[:pos] + [alt]
                    if max_preemptions is not None and sched.preemptions(cand, r["alive"][: pos + 1]) > max_preemptions:
                        continue
                    stack.append(cand)
        if len(pending) >= 2000:
            flush_conc(ctx, pending, info)
    flush_conc(ctx, pending, info)
    return n, complete


def sample_conc(ctx, base, degraded, info, count):
    pending = []
    for _ in range(count):
        if ctx.time_left() < 3:
            break
        rng = ctx.rng
        burst = rng.choice([1, 2, 3, 5])
        state = {"cur": None, "left": 0}

        def policy(alive, step):
            if state["cur"] not in alive or state["left"] <= 0:
                state["cur"] = rng.choice(alive)
                state["left"] = rng.randint(1, burst)
            state["left"] -= 1
            return state["cur"]

        r = run_conc_impl(base, schedule=[], policy=policy)
        case = dict(base, schedule=[t for t, _ in r["trace"]])
        judge_conc(ctx, case, r, degraded, info, pending)
    flush_conc(ctx, pending, info)


def evaluate_conc(ctx, cases, degraded, info):
    pending = []
    for c in cases:
        r = run_conc_impl(c, schedule=c.get("schedule", []))
        if r["bad_prefix"] is not None and not r["stuck"]:
            ctx.hit("conc:schedule-not-followed")
        judge_conc(ctx, dict(c, schedule=[t for t, _ in r["trace"]]), r, degraded, info, pending)
    flush_conc(ctx, pending, info)


# --------------------------------------------------------------------------- generators

P = lambda *a: ["call", list(a), []]
BIG = 2**61 - 1
FAMILIES = {
    "pos": [P(0), P(1), P(2)],
    "kw": [["call", [], [["x", 0]]], ["call", [], [["x", 1]]], ["call", [], [["y", 0]]]],
    "mixed": [["call", [0], [["x", 1]]], ["call", [0], [["x", 2]]], ["call", [1], [["x", 1]]]],
    "forms": [["call", [1], []], ["call", [], [["x", 1]]], ["call", [1], [["x", 1]]]],
    "kworder": [["call", [], [["x", 1], ["y", 2]]], ["call", [], [["y", 2], ["x", 1]]], ["call", [], [["x", 2], ["y", 1]]]],
    "edge": [["call", [], []], ["call", [None], []], ["call", [None, None], []]],
    "unhashable": [["call", [[0]], []], ["call", [[1]], []], ["call", [], [["x", [0]]]]],
    # unequal values with EQUAL CPython hashes (hash(-1) == hash(-2) == -2, hash(2**61-1) == hash(0) == 0, and tuples /
    # frozensets of them): a cache keyed by a hash instead of the arguments serves one caller's result to the other
    "hc_pos_a": [P(-1), P(-2), P(0)],
    "hc_pos_b": [P(0), P(BIG), P(-2)],
    "hc_pair": [P(-1, -2), P(-2, -1), P(-1, -1)],
    "hc_kw_a": [["call", [], [["x", -1]]], ["call", [], [["x", -2]]], ["call", [], [["y", -1]]]],
    "hc_kw_b": [["call", [], [["x", 0]]], ["call", [], [["x", BIG]]], ["call", [], [["x", -1], ["y", -2]]]],
    "hc_mixed": [["call", [-1], [["x", -2]]], ["call", [-2], [["x", -1]]], ["call", [-1], [["x", -1]]]],
    "hc_tuple": [P({"t": [-1]}), P({"t": [-2]}), P({"t": [0, BIG]})],
    # -1.0 and -2.0 also hash to -2; -1.0 == -1, so those two share an entry legitimately
    "hc_float": [P(-1.0), P(-2.0), P(-1)],
    # equal but not identical / of different type: 1 == 1.0 == True must share an entry, 2 must not
    "equal": [P(1), P(1.0), P(True)],
    "equal_kw": [["call", [], [["x", 1]]], ["call", [], [["x", True]]], ["call", [2], [["x", 1.0]]]],
}
ADV = [["adv", 5], ["adv", VALID], ["adv", VALID + 1]]


def configs(thorough):
    cs = [{"cache": "single", "valid": VALID}]
    cs += [{"cache": "lru", "valid": VALID, "max_size": m} for m in (1, 2, 3, 4)]
    if thorough:
        cs += [{"cache": "single", "valid": None}, {"cache": "single", "valid": 0}]
        cs += [{"cache": "lru", "valid": None, "max_size": m} for m in (1, 2, 3)]
    return cs


def exhaustive_seq(fam, length, thorough):
    alpha = FAMILIES[fam] + ADV
    for cfg in configs(thorough):
        if fam == "unhashable" and cfg["cache"] == "lru":
            continue
        for hist in itertools.product(alpha, repeat=length):
            if hist[0][0] == "adv" or hist[-1][0] == "adv":
                continue  # covered by a shorter history / no observable effect
            yield dict(cfg, mode="seq", ops=[list(x) for x in hist])


def random_seq(rng):
    fam = rng.choice(sorted(FAMILIES))
    cache = rng.choice(["single", "lru"]) if fam != "unhashable" else "single"
    alpha = FAMILIES[fam] + (FAMILIES["pos"] if fam != "unhashable" and rng.random() < 0.3 else [])
    c = {"mode": "seq", "cache": cache, "valid": rng.choice([VALID, VALID, 0, 3, None])}
    if cache == "lru":
        c["max_size"] = rng.randint(1, 4)
    ops = []
    for _ in range(rng.randint(2, 24)):
        if rng.random() < 0.3:
            ops.append(["adv", rng.choice([0, 1, 2, 3, 4, 5, 7, VALID, VALID + 1])])
        else:
            ops.append(rng.choice(alpha))
    c["ops"] = ops
    if rng.random() < 0.4:
        c["costs"] = [[op_key(rng.choice(alpha)), rng.choice([1, 5, VALID, VALID + 1])]]
    return c


def random_frames(rng):
    ops = []
    live = set()
    for _ in range(rng.randint(3, 16)):
        r = rng.random()
        if r < 0.25 or not live:
            i = rng.randrange(4)
            ops.append(["new", i, rng.randrange(4)])
            live.add(i)
        elif r < 0.35:
            i = rng.choice(sorted(live))
            ops.append(["drop", i])
            live.discard(i)
        else:
            ops.append([rng.choice(["names", "names", "count"]), rng.choice(sorted(live))])
    return {"mode": "frames", "ops": ops}


def conc_scenarios(thorough):
    """(scenario, exhaustive?) — two callers with different / equal arguments on warm and cold caches."""
    x, y, z = P("x"), P("y"), P("z")
    kx = ["call", ["x"], [["k", 1]]]
    out = []
    for i, (pre, thr) in enumerate((([y], [x, x]), ([y], [x, y]), ([], [x, y]), ([x], [x, y]), ([y], [kx, x]), ([x], [x, x]))):
        out.append(({"mode": "conc", "cache": "single", "valid": VALID, "pre": pre, "threads": thr, "post": [x, y]}, thorough or i < 2))
    out.append(({"mode": "conc", "cache": "single", "valid": VALID, "pre": [y, ["adv", 6]], "threads": [x, y], "post": [["adv", 5], x, y],
                 "costs": [[op_key(x), 6]]}, thorough))
    out.append(({"mode": "conc", "cache": "single", "frames": True, "pre": [P(1)], "threads": [P(0), P(1)]}, True))
    out.append(({"mode": "conc", "cache": "single", "frames": True, "pre": [P(1)], "threads": [P(0), P(0)]}, thorough))
    for m, pre, thr in ((1, [x], [x, y]), (2, [x, y], [x, z]), (2, [], [x, y]), (1, [x], [x, x]), (2, [x, y], [y, x])):
        # the LRU wrapper executes 10-15 lines per call: C(25,12) schedules per scenario, enumerated with a pre-emption bound
        out.append(({"mode": "conc", "cache": "lru", "valid": VALID, "max_size": m, "pre": pre, "threads": thr, "post": [x, y, z]}, False))
    # argument pairs that are unequal but hash-equal in CPython, positional / keyword / mixed
    a, b = P(-1), P(-2)
    ka, kb = ["call", [], [["x", -1]]], ["call", [], [["x", -2]]]
    ma, mb = ["call", [0], [["x", BIG]]], ["call", [BIG], [["x", 0]]]
    for pre, thr in (([a], [b, a]), ([ka], [kb, ka]), ([ma], [mb, ma])):
        out.append(({"mode": "conc", "cache": "single", "valid": VALID, "pre": pre, "threads": thr, "post": [thr[0], thr[1]]}, thorough))
        out.append(({"mode": "conc", "cache": "lru", "valid": VALID, "max_size": 2, "pre": pre, "threads": thr, "post": [thr[0], thr[1]]}, False))
    out.append(({"mode": "conc", "cache": "lru", "valid": VALID, "max_size": 2, "pre": [x, ["adv", 6], y, ["adv", 5]], "threads": [x, z],
                 "post": [y, x], "costs": [[op_key(z), 6]]}, False))
    return out


def conc3_scenarios():
    x, y, z = P("x"), P("y"), P("z")
    return [
        {"mode": "conc", "cache": "single", "valid": VALID, "pre": [y], "threads": [x, y, x], "post": [x, y]},
        {"mode": "conc", "cache": "single", "valid": VALID, "pre": [], "threads": [x, y, z], "post": [z]},
        {"mode": "conc", "cache": "single", "frames": True, "pre": [P(1)], "threads": [P(0), P(1), P(3)]},
        {"mode": "conc", "cache": "lru", "valid": VALID, "max_size": 2, "pre": [x, y], "threads": [x, y, z], "post": [x, y, z]},
        {"mode": "conc", "cache": "lru", "valid": VALID, "max_size": 1, "pre": [x], "threads": [x, y, z], "post": [z]},
    ]


# --------------------------------------------------------------------------- entry points


def _degraded(ctx):
    d = ctx.notes.get("extraction_degraded") or []
    return {"single": any(x.startswith("c19.single") for x in d), "lru": any(x.startswith("c19.lru") for x in d)}


def _batched(ctx, gen, fn, size=4000):
    batch, n = [], 0
    for c in gen:
        batch.append(c)
        if len(batch) >= size:
            fn(ctx, batch)
            n += len(batch)
            batch = []
            if ctx.time_left() < 5:
                return n, False
    fn(ctx, batch)
    return n + len(batch), True


def run(ctx):
    thorough = ctx.tier == "thorough"
    if thorough:
        ctx.budget_s = min(ctx.budget_s, 430)  # leaves room for build, audit and leanchecker inside 10 minutes
    ctx.note("rule", "seq: call/advance histories on both caches, non-trivial = at least two calls; frames: accesses to "
             "DataFrame.column_names/columncount, non-trivial = at least two reads; conc: one complete line-level schedule of N real "
             "threads per case, non-trivial = at least two threads actually interleaved; distinct by canonical JSON of the case")
    ctx.note("assumptions", [
        "one bytecode-level load/store of a closure cell or dict slot is atomic under the GIL; pre-emption below source-line "
        "granularity (CPython 'line' trace events) is not explored",
        "lines of the wrapper that touch only locals commute with other threads' steps: the model has no step for them "
        "(the real threads are still pre-empted there)",
        "argument values are drawn from a domain on which Python equality and structural equality coincide",
    ])
    info = gen_info()
    deg = _degraded(ctx)
    # 1. corpus: the witness of the repaired defect, boundary histories
    corpus_cases(ctx, deg, info)
    # 2. exhaustive sequential histories
    scope = []
    complete = True
    for fam in sorted(FAMILIES):
        length = ctx.scale(5 if fam == "pos" else 4, 6 if fam in ("pos", "kw") else 5)
        n, ok = _batched(ctx, exhaustive_seq(fam, length, thorough), evaluate_seq)
        scope.append("%s: length %d (%d histories)" % (fam, length, n))
        complete = complete and ok
    ctx.note("exhaustive_scope_seq", scope)
    # 3. concurrent: all schedules of two callers
    conc_scope = []
    for base, full in conc_scenarios(thorough):
        k = base["cache"] + ("-frames" if base.get("frames") else "")
        if full:
            n, ok = enumerate_conc(ctx, base, deg[base["cache"]], info, limit=ctx.scale(1500, 400000))
            conc_scope.append("%s pre=%d threads=%d: %s %d schedules" % (k, len(base.get("pre", [])), len(base["threads"]), "ALL" if ok else "first", n))
        else:
            n, ok = enumerate_conc(ctx, base, deg[base["cache"]], info, limit=ctx.scale(300, 12000), max_preemptions=ctx.scale(2, 3))
            conc_scope.append("%s pre=%d threads=%d: %s %d schedules with bounded pre-emptions" % (k, len(base.get("pre", [])), len(base["threads"]), "all" if ok else "first", n))
            sample_conc(ctx, base, deg[base["cache"]], info, ctx.scale(60, 1500))
        complete = complete and ok
    for base in conc3_scenarios():
        sample_conc(ctx, base, deg[base["cache"]], info, ctx.scale(80, 1500))
    ctx.note("exhaustive_scope_conc", conc_scope)
    ctx.exhaustive = False
    # 4. random
    rng = ctx.rng
    _batched(ctx, (random_seq(rng) for _ in range(ctx.scale(3000, 60000))), evaluate_seq)
    evaluate_frames(ctx, [random_frames(rng) for _ in range(ctx.scale(300, 5000))])


def corpus_cases(ctx, deg, info):
    x, y = P("x"), P("y")
    # the schedule that served f('y') to a caller of f('x') on the four-slot wrapper (fixed by the publish-one-tuple commit)
    race = {"mode": "conc", "cache": "single", "valid": VALID, "pre": [y], "threads": [x, x], "post": [x],
            "schedule": [1, 1, 1, 1, 0, 0, 0, 0, 0, 1, 1, 1, 1]}
    evaluate_conc(ctx, [race], deg["single"], info)
    for sc in ([1] * 4 + [0] * 6 + [1] * 6, [1] * 3 + [0] * 6 + [1] * 6, [0] * 2 + [1] * 5 + [0] * 6):
        evaluate_conc(ctx, [dict(race, schedule=sc), {"mode": "conc", "cache": "single", "frames": True, "pre": [P(1)],
                                                      "threads": [P(1), P(0)], "schedule": sc}], deg["single"], info)
    seqs = [
        {"mode": "seq", "cache": "single", "valid": VALID, "ops": [x, ["adv", VALID], x, ["adv", 1], x]},
        {"mode": "seq", "cache": "lru", "valid": VALID, "max_size": 2, "ops": [x, ["adv", VALID], x, ["adv", 1], x, y, P("z"), x]},
        {"mode": "seq", "cache": "lru", "valid": VALID, "max_size": 2, "ops": [y, ["adv", 8], x, ["adv", 1], y, ["adv", 2], P("z"), ["adv", 1], x]},
    ]
    evaluate_seq(ctx, seqs)
    evaluate_frames(ctx, [{"mode": "frames", "ops": [["new", 0, 0], ["new", 1, 1], ["names", 0], ["names", 1], ["count", 0], ["count", 1],
                                                     ["drop", 0], ["new", 2, 3], ["names", 2], ["names", 1], ["count", 2]]}])


def intensify(ctx):
    info = gen_info()
    deg = _degraded(ctx)
    ctx.budget_s = max(ctx.budget_s, 60)
    for base, _ in conc_scenarios(False):
        enumerate_conc(ctx, base, deg[base["cache"]], info, limit=20000)
        if ctx.violations:
            return
    rng = ctx.rng
    _batched(ctx, (random_seq(rng) for _ in range(20000)), evaluate_seq)


def replay(ctx, case):
    info = gen_info()
    deg = _degraded(ctx)
    mode = case.get("mode")
    if mode == "seq":
        evaluate_seq(ctx, [case])
    elif mode == "frames":
        evaluate_frames(ctx, [case])
    elif mode == "conc":
        evaluate_conc(ctx, [case], deg[case["cache"]], info)
    else:
        raise InfraError("unknown case mode %r" % (mode,))


def _k01(case, failure):
    return (case.get("mode") == "conc" and case.get("cache") == "lru" and len(case.get("threads", [])) >= 2
            and failure.get("clause") in ("call raised KeyError", "call raised RuntimeError"))


KNOWN_PREDICATES = {"lru_concurrent_bookkeeping_exception": _k01}
